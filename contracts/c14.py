"""C14 — ranking and selection operators honour their contracts."""
from pyvc.contracts import assumption, auto_inline, contract, for_property, global_var, klass, loop, predicate, ufun

for_property("C14")
CMP = "pynguin.ga.operators.comparator"
RNK = "pynguin.ga.operators.ranking"
SEL = "pynguin.ga.operators.selection"

klass("pynguin.ga.computations:FitnessFunction", fields={})
klass("pynguin.ga.chromosome:Chromosome", fields={"rank": "int", "distance": "float"})
klass(f"{CMP}:DominanceComparator", fields={"_objectives": "Optional[set[FitnessFunction]]"})
klass(f"{CMP}:PreferenceSortingComparator", fields={"__objective": "FitnessFunction"})

# fitness and length of a chromosome are observations that do not change while a population is ranked
ufun("FIT", ["FitnessFunction", "Chromosome"], "float")
ufun("LEN", ["Chromosome"], "int")
assumption("during ranking/selection get_fitness_for and length are pure observations FIT(goal, c) / LEN(c) of a chromosome "
           "(cached values, C12); fitness values are not NaN (C10)")
contract("pynguin.ga.chromosome:Chromosome.get_fitness_for", mode="assume",
         sig={"self": "Chromosome", "fitness_function": "FitnessFunction"}, returns="float",
         ensures=["result == FIT(fitness_function, self)", "not isnan(result)"])
contract("pynguin.ga.chromosome:Chromosome.length", mode="assume", sig={"self": "Chromosome"}, returns="int",
         ensures=["result == LEN(self)", "result >= 0"])

NONAN = "forall(lambda o, c: not isnan(FIT(o, c)), 'FitnessFunction', 'Chromosome')"        # fitness values are numbers (C10)
# a dominates b on the objectives: nowhere worse, somewhere strictly better
predicate("dominates(a, b, objs)",
          "all(FIT(o, a) <= FIT(o, b) for o in objs) and any(FIT(o, a) < FIT(o, b) for o in objs)")
# a is preferred to b for one goal: smaller fitness, ties broken by length
predicate("preferred(a, b, g)", "FIT(g, a) < FIT(g, b) or (FIT(g, a) == FIT(g, b) and LEN(a) < LEN(b))")

contract(f"{CMP}:compare", returns="int", requires=["not isnan(fitness_1) and not isnan(fitness_2)"],
         ensures=["(result == -1) == (fitness_1 < fitness_2)", "(result == 1) == (fitness_1 > fitness_2)",
                  "(result == 0) == (fitness_1 == fitness_2)"])
contract(f"{CMP}:PreferenceSortingComparator.compare",
         sig={"chromosome_1": "Optional[Chromosome]", "chromosome_2": "Optional[Chromosome]"}, returns="int",
         ensures=["result == -1 or result == 0 or result == 1",
                  "implies(chromosome_1 is None, result == 1)",
                  "implies(chromosome_1 is not None and chromosome_2 is None, result == -1)",
                  "implies(chromosome_1 is not None and chromosome_2 is not None, "
                  "(result == -1) == preferred(chromosome_1, chromosome_2, self.__objective))",
                  "implies(chromosome_1 is not None and chromosome_2 is not None, "
                  "(result == 1) == preferred(chromosome_2, chromosome_1, self.__objective))"])
contract(f"{CMP}:DominanceComparator.compare",
         sig={"chromosome_1": "Optional[Chromosome]", "chromosome_2": "Optional[Chromosome]"}, returns="int",
         requires=["self._objectives is not None",
                   NONAN],
         ensures=["result == -1 or result == 0 or result == 1",
                  "implies(chromosome_1 is None, result == 1)",
                  "implies(chromosome_1 is not None and chromosome_2 is None, result == -1)",
                  "implies(chromosome_1 is not None and chromosome_2 is not None, "
                  "(result == -1) == dominates(chromosome_1, chromosome_2, self._objectives))",
                  "implies(chromosome_1 is not None and chromosome_2 is not None, "
                  "(result == 1) == dominates(chromosome_2, chromosome_1, self._objectives))"])
loop(f"{CMP}:DominanceComparator.compare", 0, invariant=[
    "dominate_1 == any(FIT(o, chromosome_1) < FIT(o, chromosome_2) for o in _done)",
    "dominate_2 == any(FIT(o, chromosome_1) > FIT(o, chromosome_2) for o in _done)",
    "not (dominate_1 and dominate_2)"])

# ---- crowding distance: every distance assigned lies in [0, 1) --------------------------------------------------------------
INR = "all(0 <= front[j].distance and front[j].distance < 1 for j in range(len(front)))"
contract(f"{RNK}:fast_epsilon_dominance_assignment", sig={"front": "list[Chromosome]", "goals": "set[FitnessFunction]"},
         requires=[NONAN], modifies=["Chromosome.distance['*']"], ensures=[INR], type_map={"list[C]": "list[Chromosome]"})
loop(f"{RNK}:fast_epsilon_dominance_assignment", 0, invariant=["all(front[j].distance == 0 for j in range(_i))"])
loop(f"{RNK}:fast_epsilon_dominance_assignment", 1, invariant=[INR])
loop(f"{RNK}:fast_epsilon_dominance_assignment", 2, invariant=[INR, "len(min_set) <= _i"])
loop(f"{RNK}:fast_epsilon_dominance_assignment", 3, invariant=[INR, "len(min_set) <= len(front)", "len(min_set) == _n"])

# ---- the first front: for every uncovered goal it holds a solution no other solution is preferred to ------------------------
RBS = f"{RNK}:RankBasedPreferenceSorting"
contract("pynguin.utils.randomness:next_bool", mode="assume", sig={}, returns="bool")
contract(f"{CMP}:PreferenceSortingComparator.__init__", sig={"goal": "FitnessFunction"}, modifies=["self.ALL"],
         ensures=["self.__objective is goal"])
# (for numbers, "nobody is preferred to r" is "r is at least as good as everybody": the total-order form the solver likes)
predicate("atleast(a, b, g)", "FIT(g, a) < FIT(g, b) or (FIT(g, a) == FIT(g, b) and LEN(a) <= LEN(b))")
BEST = "all(atleast({r}, solutions[k], {g}) for k in range({n}))"
contract(f"{RBS}._get_zero_front", sig={"solutions": "list[Chromosome]", "uncovered_goals": "set[FitnessFunction]"},
         returns="list[Chromosome]", requires=[NONAN, "len(solutions) > 0"], modifies=["Chromosome.rank['*']"],
         type_map={"OrderedSet[C]": "set[Chromosome]", "C | None": "Optional[Chromosome]",
                   "PreferenceSortingComparator[C]": "PreferenceSortingComparator"},
         ensures=["all(any(" + BEST.format(r="result[i]", g="g", n="len(solutions)") + " for i in range(len(result))) for g in uncovered_goals)",
                  "all(any(result[i] is solutions[k] for k in range(len(solutions))) for i in range(len(result)))",
                  "all(result[i].rank == 0 for i in range(len(result)))"])
loop(f"{RBS}._get_zero_front", 0, invariant=[
    "all(any(" + BEST.format(r="r", g="g", n="len(solutions)") + " for r in zero_front) for g in _done)",
    "all(any(r is solutions[k] for k in range(len(solutions))) for r in zero_front)",
    "all(r.rank == 0 for r in zero_front)"])
loop(f"{RBS}._get_zero_front", 1, invariant=[
    "(best is None) == (_i == 0)",
    "implies(best is not None, any(best is solutions[k] for k in range(_i)))",
    "implies(best is not None, " + BEST.format(r="best", g="goal", n="_i") + ")",
    "comparator.__objective is goal"])

# ---- selection: the index is inside the population; a tournament never returns somebody who lost to its winner ---------------
klass(f"{SEL}:Selectable", fields={})
klass(f"{SEL}:SelectionFunction", fields={"_maximize": "bool"})
klass(f"{SEL}:RandomSelection", fields={}, bases=["SelectionFunction"])
klass(f"{SEL}:TournamentSelection", fields={}, bases=["SelectionFunction"])
klass("pynguin.configuration:SearchAlgorithmConfiguration", fields={"tournament_size": "int", "rank_bias": "float", "population": "int"})
klass("pynguin.configuration:Configuration", fields={"search_algorithm": "SearchAlgorithmConfiguration"})
global_var("pynguin.configuration.configuration", "Configuration")
ufun("FITSUM", ["Selectable"], "float")
contract(f"{SEL}:Selectable.get_fitness", mode="assume", sig={"self": "Selectable"}, returns="float",
         ensures=["result == FITSUM(self)", "not isnan(result)"])
contract("pynguin.utils.randomness:next_int", mode="assume", sig={"lower_bound": "int", "upper_bound": "int"}, returns="int",
         raises={"ValueError": "upper_bound <= lower_bound"},          # random.randrange on an empty range
         ensures=["lower_bound <= result and result < upper_bound"])
INRANGE = ["0 <= result and result < len(population)"]
EMPTY = {"ValueError": "len(population) == 0"}
contract(f"{SEL}:RandomSelection.get_index", sig={"population": "list[Selectable]"}, returns="int", raises=EMPTY, ensures=INRANGE)
contract(f"{SEL}:TournamentSelection.get_index", sig={"population": "list[Selectable]"}, returns="int", raises=EMPTY,
         globals_in={"pynguin.configuration.configuration": "Configuration"}, ensures=INRANGE)
loop(f"{SEL}:TournamentSelection.get_index", 0, invariant=["0 <= winner and winner < len(population)", "tournament_round >= 0"],
     decreases="max(config.configuration.search_algorithm.tournament_size - 1 - tournament_round, 0)")
# rank selection, bias in (1, 2]: the upper bound holds by the final min() whatever the rounding; the lower bound and the
# absence of ValueError/ZeroDivisionError are shown for real arithmetic only (A-FLOAT-R) and sampled by the bounded part
klass(f"{SEL}:RankSelection", fields={"bias": "float"}, bases=["SelectionFunction"])
contract("pynguin.utils.randomness:next_float", mode="assume", sig={}, returns="float",
         ensures=["isfinite(result) and 0 <= result and result < 1"])
contract(f"{SEL}:RankSelection.get_index", sig={"population": "list[Selectable]"}, returns="int",
         requires=["isfinite(self.bias) and 1 < self.bias and self.bias <= 2", "len(population) > 0"],
         ensures=INRANGE, note="nonlinear")


# ==== bounded stand-ins (never counted as proved) ==========================================================================
import itertools  # noqa: E402
import math  # noqa: E402

from pyvc.bounded import Part, guarded  # noqa: E402


class _G:
    def __init__(self, i):
        self.i = i

    def __repr__(self):
        return f"g{self.i}"


class _C:
    """A stand-in chromosome: fitness vector and length; identity equality (or value equality like TestCaseChromosome)."""

    def __init__(self, fit, length, tag, by_value=False):
        self.fit, self._len, self.tag, self.by_value = tuple(fit), length, tag, by_value
        self.rank, self.distance = -1, -1.0

    def get_fitness_for(self, g):
        return float(self.fit[g.i])

    def get_fitness_functions(self):
        return []

    def length(self):
        return self._len

    def __eq__(self, other):
        if self.by_value and isinstance(other, _C):
            return (self.fit, self._len) == (other.fit, other._len)
        return self is other

    def __hash__(self):
        return hash((self.fit, self._len)) if self.by_value else id(self)

    def __repr__(self):
        return f"{self.tag}{self.fit}/{self._len}"


def _dominates(a, b, goals):
    return all(a.fit[g.i] <= b.fit[g.i] for g in goals) and any(a.fit[g.i] < b.fit[g.i] for g in goals)


def _check_ranking(part: Part, tier, seed):
    import pynguin.configuration as config
    from pynguin.ga.operators.comparator import DominanceComparator
    from pynguin.ga.operators.ranking import RankBasedPreferenceSorting
    from pynguin.utils.orderedset import OrderedSet
    goals = [_G(0), _G(1)]
    n_max = 4 if tier == "thorough" else 3
    keys = [((a, b), ln) for a in (0, 1, 2) for b in (0, 1, 2) for ln in ((1, 2) if tier == "thorough" else (1,))]
    sorter = RankBasedPreferenceSorting()
    saved = config.configuration.search_algorithm.population
    try:
        for n in range(1, n_max + 1):
            for combo in itertools.product(keys, repeat=n):
                for by_value in (False, True):
                    pop = [_C(k[0], k[1], f"c{i}", by_value) for i, k in enumerate(combo)]
                    # (1) one front of non-dominated solutions
                    front = RankBasedPreferenceSorting._get_non_dominated_solutions(            # noqa: SLF001
                        list(pop), DominanceComparator(goals=OrderedSet(goals)), 1)
                    want = [c for c in pop if not any(_dominates(o, c, goals) for o in pop)]
                    part.case(len(want) < len(pop))
                    if sorted(map(id, front)) != sorted(map(id, want)):
                        part.violation("_get_non_dominated_solutions returns exactly the solutions no other solution dominates",
                                       "front-not-the-non-dominated-set",
                                       {"population": repr(pop), "value_equality": by_value, "returned": repr(front), "expected": repr(want)},
                                       target=f"{RBS}._get_non_dominated_solutions")
                    # (2) the whole ranking
                    for popsize in (1, n, n + 1):
                        config.configuration.search_algorithm.population = popsize
                        for c in pop:
                            c.rank = -1
                        fronts = sorter.compute_ranking_assignment(list(pop), OrderedSet(goals)).fronts
                        part.case(True)
                        detail = {"population": repr(pop), "value_equality": by_value, "population_size": popsize, "fronts": repr(fronts)}
                        for g in goals:
                            best = min((c.fit[g.i], c.length()) for c in pop)
                            if not any((c.fit[g.i], c.length()) == best for c in fronts[0]):
                                part.violation("the first front holds a best individual for every uncovered goal",
                                               "zero-front-misses-a-best", detail, target=f"{RBS}.compute_ranking_assignment")
                        flat = [c for f in fronts for c in f]
                        if by_value:
                            # equal individuals are interchangeable (list.remove takes the first equal one): compare contents
                            keys_f = sorted((c.fit, c.length()) for c in flat)
                            keys_p = sorted((c.fit, c.length()) for c in pop)
                            if any(keys_f.count(k) > keys_p.count(k) for k in keys_f):
                                part.violation("fronts hold no more copies of an individual than the population", "fronts-overlap",
                                               detail, target=f"{RBS}.compute_ranking_assignment")
                        elif len(set(map(id, flat))) != len(flat) or any(not any(c is p for p in pop) for c in flat):
                            part.violation("fronts are disjoint subsets of the population", "fronts-overlap", detail,
                                           target=f"{RBS}.compute_ranking_assignment")
                        if len(fronts[0]) < popsize and not by_value:
                            ranked = list(fronts[0])
                            for k, f in enumerate(fronts[1:], start=1):
                                rest = [c for c in pop if not any(c is r for r in ranked)]
                                want = [c for c in rest if not any(_dominates(o, c, goals) for o in rest)]
                                if sorted(map(id, f)) != sorted(map(id, want)) or any(c.rank != k for c in f):
                                    part.violation("each later front is exactly the non-dominated set of the not yet ranked, ranked k",
                                                   "later-front-wrong", {**detail, "front": k, "expected": repr(want)},
                                                   target=f"{RBS}.compute_ranking_assignment")
                                    break
                                ranked += f
    finally:
        config.configuration.search_algorithm.population = saved


def bounded_ranking(tier, seed):
    p = Part("C14", "ranking-small-populations", [f"{RBS}._get_non_dominated_solutions", f"{RBS}.compute_ranking_assignment"],
             scope="all populations of 1..%d stand-in chromosomes with fitness vectors in {0,1,2}^2 (lengths %s), with identity "
                   "and with value equality, population sizes {1, n, n+1}, two goals" % (
                       (4, "{1,2}") if tier == "thorough" else (3, "{1}")),
             bound="population <= %d, 2 goals, fitness values in {0,1,2}" % (4 if tier == "thorough" else 3))
    return guarded(p, _check_ranking, tier, seed)


def _check_rank_selection(part: Part, tier, seed):
    from unittest import mock
    from pynguin.ga.operators.selection import RankSelection
    one = math.nextafter(1.0, 0.0)
    rs = [0.0, 5e-324, 1e-300, 1e-9, 0.1, 0.25, 0.5, 0.75, 0.9, 0.999999, math.nextafter(one, 0.0), one]
    biases = [math.nextafter(1.0, 2.0), 1.0000001, 1.001, 1.01, 1.05, 1.1, 1.2, 1.3, 1.5, 1.68, 1.7, 1.9, 1.99, math.nextafter(2.0, 0.0), 2.0]
    if tier == "thorough":
        import random
        r_ = random.Random(seed)
        rs += [r_.random() for _ in range(200)]
        biases += [1.0 + r_.random() for _ in range(50)]
    for b in biases:
        sel = RankSelection(bias=b)
        for n in (1, 2, 3, 10, 50, 1000):
            pop = list(range(n))
            last = -1
            for r in sorted(rs):
                part.case(True)
                with mock.patch("pynguin.utils.randomness.next_float", return_value=r):
                    try:
                        i = sel.get_index(pop)
                    except Exception as ex:  # noqa: BLE001
                        part.violation("get_index raises for a bias in (1, 2]", "rank-selection-raises",
                                       {"bias": b, "population": n, "random_value": r, "exception": repr(ex)}, target=f"{SEL}:RankSelection.get_index")
                        continue
                if not 0 <= i < n:
                    part.violation("0 <= index < len(population)", "rank-selection-index-out-of-range",
                                   {"bias": b, "population": n, "random_value": r, "index": i}, target=f"{SEL}:RankSelection.get_index")
                if i < last:
                    part.violation("a larger random value never selects a better (smaller) rank: the index is monotone",
                                   "rank-selection-not-monotone", {"bias": b, "population": n, "random_value": r, "index": i, "previous": last},
                                   target=f"{SEL}:RankSelection.get_index")
                last = i


def bounded_rank_selection(tier, seed):
    p = Part("C14", "rank-selection-floating-point", [f"{SEL}:RankSelection.get_index"],
             scope="the real get_index in IEEE doubles for 15 biases in (1, 2] incl. both ends' neighbours (thorough: +50 random) x "
                   "12 random values incl. 0, denormals and the two largest floats below 1 (thorough: +200) x 6 population sizes",
             bound="sampled grid, not exhaustive")
    r = guarded(p, _check_rank_selection, tier, seed)
    r["exhaustive"] = False
    return r


BOUNDED = [bounded_ranking, bounded_rank_selection]
