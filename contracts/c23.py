"""C23 — literal values round-trip through generated source."""
from pyvc.contracts import assumption, contract, for_property, klass, lemma, loop, predicate, ufun

for_property("C23")
LG = "pynguin.testcase.literalgen"

# libcst nodes as immutable objects with the fields the code reads/writes (constructor validity is libcst's, assumed)
klass("libcst:BaseExpression", fields={}, bases=[])
klass("libcst:BaseUnaryOp", fields={}, bases=[])
klass("libcst:Minus", fields={}, bases=["BaseUnaryOp"])
klass("libcst:Integer", fields={"value": "str"}, bases=["BaseExpression"])
klass("libcst:Float", fields={"value": "str"}, bases=["BaseExpression"])
klass("libcst:Name", fields={"value": "str"}, bases=["BaseExpression"])
klass("libcst:SimpleString", fields={"value": "str"}, bases=["BaseExpression"])
klass("libcst:UnaryOperation", fields={"operator": "BaseUnaryOp", "expression": "BaseExpression"}, bases=["BaseExpression"])
klass("libcst:Arg", fields={"value": "BaseExpression"}, bases=[])
klass("libcst:Call", fields={"func": "BaseExpression", "args": "list[Arg]"}, bases=["BaseExpression"])
assumption("libcst nodes are modelled as objects holding the fields the code passes to their constructors; the constructors' "
           "own validation (token syntax) is stated as postconditions on the tokens and assumed to be what libcst checks")
assumption("A-STRNUM: str(int)/int(str) are exact on decimal digit strings (SMT int.to.str / str.to.int); repr(float) and "
           "float(str) are uninterpreted functions with the CPython guarantees float(repr(x)) is x for finite x, repr of a "
           "finite double contains '.' or 'e' and starts with '-' exactly for negative-signed values, repr(inf/nan) = 'inf'/"
           "'nan'; repr(str) is a string-literal token evaluating to the string")

# libcst validates tokens in the node constructors (CSTValidationError otherwise): these are *obligations* at every
# constructor call in the code under contract ("rendering never fails")
predicate("float_tok(s)", "validf(s) and not s.startswith('-') and ('.' in s or 'e' in s)")
for _cls, _pre in (("Integer", "isdigits(value)"), ("Float", "float_tok(value)"), ("SimpleString", "isquoted(value)"),
                   ("Name", "isident(value)")):
    contract(f"libcst:{_cls}.__init__", mode="assume", sig={"self": _cls, "value": "str"}, requires=[_pre],
             modifies=["self.ALL"], ensures=["self.value == value"])

NEG = "isinstance({n}, UnaryOperation) and isinstance(cast({n}, UnaryOperation).operator, Minus)"
INNER = "cast({n}, UnaryOperation).expression"
# ---- ints -------------------------------------------------------------------------------------------------------------
predicate("is_int_lit(n)", "isinstance(n, Integer) or (" + NEG.format(n="n") + " and isinstance(" + INNER.format(n="n") + ", Integer))")
predicate("int_of(n)", "int(cast(n, Integer).value) if isinstance(n, Integer) else -int(cast(" + INNER.format(n="n") + ", Integer).value)")
predicate("int_tok_ok(n)", "(isdigits(cast(n, Integer).value) if isinstance(n, Integer) else True) and "
                           "(isdigits(cast(" + INNER.format(n="n") + ", Integer).value) if (" + NEG.format(n="n")
                           + " and isinstance(" + INNER.format(n="n") + ", Integer)) else True)")

contract(f"{LG}:_int_to_cst", sig={"value": "int"}, returns="BaseExpression",
         ensures=["is_int_lit(result)", "int_tok_ok(result)", "int_of(result) == value",
                  "implies(value >= 0, isinstance(result, Integer))"])
contract(f"{LG}:_parse_int", sig={"expr": "BaseExpression"}, returns="Optional[int]",
         requires=["int_tok_ok(expr)"],        # tokens of Integer nodes are decimal integer tokens (libcst validates them)
         ensures=["(result is not None) == is_int_lit(expr)", "implies(is_int_lit(expr), result == int_of(expr))"])
# ---- floats (IEEE doubles; 'same value' = same double incl. the sign of zero, NaN equals NaN) ----------------------------------
SSV = "cast(cast({n}, Call).args[0].value, SimpleString).value"
predicate("is_float_call(n)", "isinstance(n, Call) and isinstance(cast(n, Call).func, Name) and "
                              "cast(cast(n, Call).func, Name).value == 'float' and len(cast(n, Call).args) == 1 and "
                              "isinstance(cast(n, Call).args[0].value, SimpleString)")
predicate("is_pos_float_lit(n)", "isinstance(n, Float) or is_float_call(n)")
predicate("pos_float_of(n)", "float(cast(n, Float).value) if isinstance(n, Float) else float(unq(" + SSV.format(n="n") + "))")
predicate("pos_float_ok(n)", "(validf(cast(n, Float).value) if isinstance(n, Float) else True) and "
                             "((isquoted(" + SSV.format(n="n") + ") and validf(unq(" + SSV.format(n="n") + "))) if is_float_call(n) else True)")
predicate("is_float_lit(n)", "is_pos_float_lit(n) or (" + NEG.format(n="n") + " and is_pos_float_lit(" + INNER.format(n="n") + "))")
predicate("float_of(n)", "pos_float_of(n) if is_pos_float_lit(n) else -pos_float_of(" + INNER.format(n="n") + ")")
predicate("float_ok(n)", "pos_float_ok(n) if is_pos_float_lit(n) else pos_float_ok(" + INNER.format(n="n") + ")")

contract(f"{LG}:_float_to_cst", sig={"value": "fp"}, returns="BaseExpression", fp=True,
         ensures=["is_float_lit(result)", "float_ok(result)",           # rendering never produces an invalid token
                  "samefp(float_of(result), value)",                    # and the literal evaluates to the very same double
                  "implies(isfinite(value), isinstance(result, Float) or (" + NEG.format(n="result") + " and isinstance("
                  + INNER.format(n="result") + ", Float)))"])
contract(f"{LG}:_parse_float", sig={"expr": "BaseExpression"}, returns="Optional[fp]", fp=True,
         requires=["implies(is_float_lit(expr), float_ok(expr))"],
         ensures=["implies(result is not None, is_float_lit(expr) and samefp(result, float_of(expr)))",
                  "implies(isinstance(expr, Float) or (" + NEG.format(n="expr") + " and isinstance(" + INNER.format(n="expr")
                  + ", Float)), result is not None)"])

lemma("C23.float_roundtrip", forall={"v": "fp", "n": "BaseExpression", "r": "Optional[fp]"}, note="fp",
      assume=["isfinite(v)", "is_float_lit(n) and float_ok(n) and samefp(float_of(n), v)",
              "isinstance(n, Float) or (" + NEG.format(n="n") + " and isinstance(" + INNER.format(n="n") + ", Float))",
              "implies(r is not None, is_float_lit(n) and samefp(r, float_of(n)))",
              "implies(isinstance(n, Float) or (" + NEG.format(n="n") + " and isinstance(" + INNER.format(n="n") + ", Float)), r is not None)"],
      prove="r is not None and samefp(r, v)")

# ---- complex: complex(<real>, <imag>) with both components rendered as floats ---------------------------------------------
klass("builtins:complex", fields={"real": "fp", "imag": "fp"}, record=True)
ARGV = "cast({n}, Call).args[{i}].value"
predicate("is_complex_call(n)", "isinstance(n, Call) and isinstance(cast(n, Call).func, Name) and "
                                "cast(cast(n, Call).func, Name).value == 'complex' and len(cast(n, Call).args) == 2")
contract(f"{LG}:_complex_to_cst", sig={"value": "complex"}, returns="BaseExpression", fp=True,
         ensures=["is_complex_call(result)"] + [
             c.format(a=ARGV.format(n="result", i=i), p=p) for i, p in ((0, "real"), (1, "imag"))
             for c in ("is_float_lit({a})", "float_ok({a})", "samefp(float_of({a}), value.{p})")])
contract(f"{LG}:_parse_component", sig={"expr": "BaseExpression"}, returns="Optional[fp]", fp=True,
         requires=["implies(is_float_lit(expr), float_ok(expr))", "int_tok_ok(expr)"],
         raises={"OverflowError": "is_int_lit(expr)"},            # float(int) beyond the double range
         ensures=["implies(result is not None and is_float_lit(expr), samefp(result, float_of(expr)))",
                  "implies(result is not None, is_float_lit(expr) or is_int_lit(expr))",
                  "implies(isinstance(expr, Float) or (" + NEG.format(n="expr") + " and isinstance(" + INNER.format(n="expr")
                  + ", Float)), result is not None)"])
contract(f"{LG}:_parse_complex", sig={"expr": "BaseExpression"}, returns="Optional[complex]", fp=True,
         requires=[c.format(a=ARGV.format(n="expr", i=i)) for i in (0, 1)
                   for c in ("implies(is_complex_call(expr) and is_float_lit({a}), float_ok({a}))",
                             "implies(is_complex_call(expr), int_tok_ok({a}))")],
         raises={"OverflowError": "True"},
         ensures=["implies(result is not None, is_complex_call(expr))"] + [
             "implies(result is not None and is_float_lit({a}), samefp(result.{p}, float_of({a})))".format(
                 a=ARGV.format(n="expr", i=i), p=p) for i, p in ((0, "real"), (1, "imag"))])

# ---- bool ------------------------------------------------------------------------------------------------------------------
contract("pynguin.utils.randomness:next_bool", mode="assume", sig={}, returns="bool")
contract(f"{LG}:_mutate_bool", sig={"expr": "BaseExpression"}, returns="BaseExpression",
         ensures=["isinstance(result, Name)", "cast(result, Name).value == 'True' or cast(result, Name).value == 'False'",
                  "implies(isinstance(expr, Name) and cast(expr, Name).value == 'True', cast(result, Name).value == 'False')",
                  "implies(isinstance(expr, Name) and cast(expr, Name).value == 'False', cast(result, Name).value == 'True')"])

lemma("C23.int_roundtrip", forall={"v": "int", "n": "BaseExpression", "r": "Optional[int]"},
      assume=["is_int_lit(n) and int_tok_ok(n) and int_of(n) == v",                     # _int_to_cst's postcondition
              "(r is not None) == is_int_lit(n) and implies(is_int_lit(n), r == int_of(n))"],   # _parse_int's postcondition
      prove="r is not None and r == v", note="parse(render(v)) == v for every int, from the two contracts alone")


# ==== native replay: real libcst nodes, native meaning of the spec helpers ==================================================
import ast as _ast  # noqa: E402
import math as _math  # noqa: E402

from pyvc.enumerate import sampler  # noqa: E402
from pyvc.replay import NATIVE_HELPERS, builder  # noqa: E402


def _native_names():
    import libcst as cst

    def unq(s):
        try:
            return _ast.literal_eval(s)
        except Exception:  # noqa: BLE001
            return None

    def validf(s):
        try:
            float(s)
            return True
        except Exception:  # noqa: BLE001
            return False

    def samefp(a, b):
        if a is None or b is None:
            return a is b
        if _math.isnan(a) or _math.isnan(b):
            return _math.isnan(a) and _math.isnan(b)
        return a == b and _math.copysign(1.0, a) == _math.copysign(1.0, b)
    return {
        "cast": lambda x, c: x, "isdigits": lambda s: isinstance(s, str) and s.isascii() and s.isdigit(),
        "isneg": lambda x: _math.copysign(1.0, x) < 0, "samefp": samefp, "validf": validf, "unq": unq,
        "isquoted": lambda s: isinstance(unq(s), (str, bytes)), "isident": lambda s: isinstance(s, str) and s.isidentifier(),
        **{n: getattr(cst, n) for n in ("BaseExpression", "BaseUnaryOp", "Minus", "Integer", "Float", "Name", "SimpleString",
                                        "UnaryOperation", "Arg", "Call", "List", "Tuple", "Set", "Dict")},
    }


NATIVE_HELPERS.update(_native_names())


def _sample_node(sc, cls=None):
    import libcst as cst
    r = sc.rnd
    leafs = [lambda: cst.Integer(str(r.choice([0, 1, 7, 10 ** 20]))), lambda: cst.Float(repr(r.choice([0.0, 1.5, 1e300, 5e-324]))),
             lambda: cst.Name(r.choice(["True", "x", "None"])), lambda: cst.SimpleString(repr(r.choice(["", "a'b", "inf", "nan"]))),
             lambda: cst.Call(func=cst.Name("float"), args=[cst.Arg(value=cst.SimpleString(repr(r.choice(["inf", "nan"]))))]),
             lambda: cst.Call(func=cst.Name(r.choice(["float", "complex"])), args=[])]
    n = r.choice(leafs)()
    k = r.random()
    if k < 0.35:
        n = cst.UnaryOperation(operator=cst.Minus(), expression=n)
    elif k < 0.45:
        n = cst.UnaryOperation(operator=cst.Plus(), expression=n)
    return ("$py", n)


for _c in ("BaseExpression", "Integer", "Float", "Name", "SimpleString", "UnaryOperation", "Call"):
    sampler(_c)(_sample_node)

_FLOATS = [0.0, -0.0, 1.0, -1.5, 1e16, 1e22, 5e-324, -5e-324, 1.7976931348623157e308, _math.inf, -_math.inf, _math.nan, 0.1, 123456789.0]
SCOPE = {f"{LG}:_float_to_cst": {"floats": _FLOATS}, f"{LG}:_int_to_cst": {"ints": [0, 1, -1, 10 ** 30, -(10 ** 30), 255]}}


# ==== bounded stand-in: rendering/parsing of collections and strings, generation and mutation under seeded draws ==============
from pyvc.bounded import Part, guarded  # noqa: E402


def _deep_same(a, b):
    """Same value incl. type, the sign of zero and NaN-ness, through containers."""
    if type(a) is not type(b):
        return False
    if isinstance(a, float):
        return NATIVE_HELPERS["samefp"](a, b)
    if isinstance(a, complex):
        return _deep_same(a.real, b.real) and _deep_same(a.imag, b.imag)
    if isinstance(a, (list, tuple)):
        return len(a) == len(b) and all(_deep_same(x, y) for x, y in zip(a, b))
    if isinstance(a, dict):
        return len(a) == len(b) and all(_deep_same(k1, k2) and _deep_same(v1, v2)
                                        for (k1, v1), (k2, v2) in zip(a.items(), b.items()))
    if isinstance(a, (set, frozenset)):
        if len(a) != len(b):
            return False
        rest = list(b)
        for x in a:
            hit = next((y for y in rest if _deep_same(x, y)), None)
            if hit is None and not any(y is hit for y in rest):
                return False
            rest.remove(hit)
        return True
    return a == b


def _values():
    inf, nan = _math.inf, _math.nan
    prim = [0, 1, -1, 255, -(2 ** 70), 10 ** 25, True, False, 0.0, -0.0, 1.5, -2.25, 1e16, 1e-7, 5e-324, -5e-324,
            1.7976931348623157e308, inf, -inf, nan, complex(1, -2), complex(-0.0, 0.0), complex(inf, -inf), complex(nan, 1.5),
            complex(0.0, -0.0), "", "a", "it's", 'say "hi"', "back\\slash", "new\nline", "tab\t", "\x00\x7f", "é€😀", "\ud800",
            "'''", "{}", b"", b"a'b", b"\x00\xff\\", b"\n"]
    coll = []
    for p in prim:
        coll += [[p], (p,), [p, p], (p, 1), {"k": p}, [[p]], ([p],), {1: [p]}]
        try:
            hash(p)
            coll += [{p}, {p: 1}, {(p,): 2}]
        except TypeError:
            pass
    coll += [[], (), set(), {}, [[]], ((),), {"a": {}}, [1, "a", 2.5, None, True], (None,), {None: None}, {1, 2, 3}]
    return prim + coll + [None]


def _check_literals(part: Part, tier, seed):
    import libcst as cst
    import pynguin.configuration as config
    from pynguin.analyses.constants import ConstantPool, DynamicConstantProvider, EmptyConstantProvider
    from pynguin.testcase import literalgen as lg
    from pynguin.utils import randomness
    mod = cst.Module(body=[])

    def code(n):
        return mod.code_for_node(n)
    # (a) rendering an exact value: valid Python that evaluates to the very same value; parsing back yields it or None
    for v in _values():
        part.case()
        try:
            node = lg.literal_to_cst(v)
            src = code(node)
            got = eval(src, {})   # noqa: S307
        except Exception as e:  # noqa: BLE001
            part.violation("rendering a value gives valid Python", f"render:{type(v).__name__}",
                           {"value": repr(v), "error": f"{type(e).__name__}: {e}"}, target=f"{LG}:literal_to_cst")
            continue
        if not _deep_same(got, v):
            part.violation("the rendered literal evaluates to the same value", f"eval:{type(v).__name__}",
                           {"value": repr(v), "rendered": src, "evaluates_to": repr(got)}, target=f"{LG}:literal_to_cst")
        if v is None:
            continue
        try:
            back = lg.parse_literal(node, type(v))
        except Exception as e:  # noqa: BLE001
            part.violation("parsing a rendered literal back does not fail", f"parse-raises:{type(v).__name__}",
                           {"value": repr(v), "rendered": src, "error": f"{type(e).__name__}: {e}"}, target=f"{LG}:parse_literal")
            continue
        if back is not None and not _deep_same(back, v):
            part.violation("parsing a rendered literal back yields the same value (or None)", f"parse:{type(v).__name__}",
                           {"value": repr(v), "rendered": src, "parsed": repr(back)}, target=f"{LG}:parse_literal")
        if back is None:
            # None is the answer for renderings that are not literals (float('inf') inside a list ...); where Python's own
            # literal evaluation reads the rendering as a value of the type, parsing back must not give up
            import ast as _ast
            try:
                ref = _ast.literal_eval(src)
                readable = isinstance(ref, type(v)) and _deep_same(ref, v)
            except (ValueError, SyntaxError, TypeError, MemoryError, RecursionError):
                readable = False
            if readable:
                part.violation("rendering a value and parsing it back yields the same value", f"parse-gives-up:{type(v).__name__}",
                               {"value": repr(v), "rendered": src, "parsed": None, "ast.literal_eval": repr(ref)}, target=f"{LG}:parse_literal")
    # (b) generation and mutation: valid Python of the requested type, under seeded random draws and configurations
    saved = (config.configuration.seeding.seeded_primitives_reuse_probability, config.configuration.test_creation.max_int,
             config.configuration.search_algorithm.random_perturbation, config.configuration.test_creation.string_length)
    pool = ConstantPool()
    for c in (0, -7, 2 ** 65, 1.5, -0.0, _math.inf, -_math.inf, _math.nan, "seed", "it's\n", b"by'tes", complex(-0.0, _math.inf)):
        pool.add_constant(c)
    providers = [EmptyConstantProvider(), DynamicConstantProvider(pool, EmptyConstantProvider(), 1.0, 100)]
    types = [bool, int, float, complex, str, bytes, list, tuple, set, dict]
    rounds = 400 if tier == "thorough" else 60
    try:
        for ci, (sp, mi, rp) in enumerate([(0.0, 2048, 0.1), (1.0, 7, 0.0), (0.5, 10 ** 6, 0.5)]):
            config.configuration.seeding.seeded_primitives_reuse_probability = sp
            config.configuration.test_creation.max_int = mi
            config.configuration.search_algorithm.random_perturbation = rp
            for pi, prov in enumerate(providers):
                for raw in types:
                    randomness.RNG.seed(seed * 1000003 + ci * 101 + pi * 11 + types.index(raw))
                    for _ in range(rounds):
                        part.case()
                        node = None
                        try:
                            node = lg.generate_literal(raw, prov)
                            hist = [code(node)]
                            for _m in range(3):
                                v0 = eval(hist[-1], {})   # noqa: S307
                                if type(v0) is not raw:
                                    break
                                node = lg.mutate_literal(node, raw, prov)
                                hist.append(code(node))
                            v0 = eval(hist[-1], {})   # noqa: S307
                        except Exception as e:  # noqa: BLE001
                            part.violation("generated and mutated literals are valid Python", f"gen-invalid:{raw.__name__}",
                                           {"type": raw.__name__, "config": (sp, mi, rp), "provider": type(prov).__name__,
                                            "history": hist if node is not None else [], "error": f"{type(e).__name__}: {e}"},
                                           target=f"{LG}:generate_literal")
                            continue
                        if type(v0) is not raw:
                            part.violation("generated and mutated literals evaluate to a value of the requested type",
                                           f"gen-type:{raw.__name__}",
                                           {"type": raw.__name__, "config": (sp, mi, rp), "provider": type(prov).__name__,
                                            "history": hist, "evaluates_to": repr(v0)}, target=f"{LG}:generate_literal")
    finally:
        (config.configuration.seeding.seeded_primitives_reuse_probability, config.configuration.test_creation.max_int,
         config.configuration.search_algorithm.random_perturbation, config.configuration.test_creation.string_length) = saved


def bounded_literals(tier, seed):
    p = Part("C23", "render-parse-generate", [f"{LG}:literal_to_cst", f"{LG}:parse_literal", f"{LG}:generate_literal",
                                              f"{LG}:mutate_literal"],
             scope="(a) literal_to_cst / eval / parse_literal on a fixed list of ~45 primitive values (big and negative ints, "
                   "signed zeros, subnormals, max double, inf, NaN, complex with such components, strings and bytes with quotes, "
                   "backslashes, control characters, non-BMP and surrogate code points) and every value wrapped in lists, "
                   "tuples, sets, dicts (as key and as value) up to depth 2; (b) generate_literal + 3 mutate_literal steps for "
                   "the 10 literal types x 3 configurations (seeding probability, max_int, random perturbation) x 2 constant "
                   "providers, seeded draws (VERIF_SEED)",
             bound="values: fixed list, nesting depth <= 2; generation: 60 (thorough 400) draws per type/config/provider")
    return guarded(p, _check_literals, tier, seed)


BOUNDED = [bounded_literals]
META = {"rule": "obligations: one per contract clause/site and path; bounded part: one case per value / per draw"}


def classify(g):
    return ""
