"""C10 (second part) — goal level: a goal is covered exactly when its fitness is zero."""
from pyvc.contracts import assumption, contract, exception, for_property, klass, loop, predicate, ufun

for_property("C10")
CG = "pynguin.ga.coveragegoals"
CF = "pynguin.utils.controlflowdistance"

klass(f"{CG}:AbstractCoverageGoal", fields={"_code_object_id": "int"})
klass(f"{CG}:AbstractBranchCoverageGoal", fields={"_is_branchless_code_object": "bool", "_is_branch": "bool"},
      bases=["AbstractCoverageGoal"])
klass(f"{CG}:BranchlessCodeObjectGoal", fields={}, bases=["AbstractBranchCoverageGoal"])
klass(f"{CG}:BranchGoal", fields={"_predicate_id": "int", "_value": "bool"}, bases=["AbstractBranchCoverageGoal"])
klass(f"{CG}:LineCoverageGoal", fields={"_line_id": "int"}, bases=["AbstractCoverageGoal"])
klass(f"{CG}:CheckedCoverageGoal", fields={"_line_id": "int"}, bases=["AbstractCoverageGoal"])
klass(f"{CF}:ControlFlowDistance", fields={"_approach_level": "int", "_branch_distance": "float"})
klass("pynguin.instrumentation.controlflow:CFG", fields={}, ghost={"g_diameter": "int"})
klass("pynguin.instrumentation.controlflow:ControlDependenceGraph", fields={"graph": "NxGraph"})
klass("pynguin.instrumentation.tracer:CodeObjectMetaData", fields={"cfg": "CFG", "cdg": "ControlDependenceGraph"})
exception("NetworkXNoPath")
exception("NodeNotFound")

# ---- spec vocabulary --------------------------------------------------------------------------------------------
predicate("branch_covered(t, pid, val)",
          "pid in t.executed_predicates and ite(val, t.true_distances[pid], t.false_distances[pid]) == 0")
predicate("cfd_wf(d)", "d._approach_level >= 0 and d._branch_distance >= 0 and not isnan(d._branch_distance)")
predicate("cfd_fitness(d)", "real(d._approach_level) + norm(d._branch_distance)")
TR = "result.execution_trace"
HAS_TRACE = ["result.execution_trace is not None", "wf_trace(result.execution_trace)"]

# ---- goals: is_covered --------------------------------------------------------------------------------------------
contract(f"{CG}:BranchGoal.is_covered", requires=HAS_TRACE,
         ensures=[f"ret == branch_covered({TR}, self._predicate_id, self._value)"])
contract(f"{CG}:BranchlessCodeObjectGoal.is_covered", requires=HAS_TRACE,
         ensures=[f"ret == (self._code_object_id in {TR}.executed_code_objects)"])
contract(f"{CG}:LineCoverageGoal.is_covered", requires=HAS_TRACE,
         ensures=[f"ret == (self._line_id in {TR}.covered_line_ids)"])
contract(f"{CG}:CheckedCoverageGoal.is_covered", requires=HAS_TRACE,
         ensures=[f"ret == (self._line_id in {TR}.checked_lines)"])

# ---- control-flow distance object ------------------------------------------------------------------------------------
contract(f"{CF}:ControlFlowDistance.__init__",
         raises={"AssertionError": "approach_level < 0 or not (branch_distance >= 0)"},
         modifies=["self._approach_level", "self._branch_distance"],
         ensures=["self._approach_level == approach_level", "same(self._branch_distance, branch_distance)"])
contract(f"{CF}:ControlFlowDistance.get_resulting_branch_fitness", requires=["cfd_wf(self)"],
         ensures=["result == cfd_fitness(self)", "result >= 0 and isfinite(result)",
                  "(result == 0) == (self._approach_level == 0 and self._branch_distance == 0)"])
contract(f"{CF}:ControlFlowDistance.increase_approach_level", modifies=["self._approach_level"],
         ensures=["self._approach_level == old(self._approach_level) + 1"])
contract(f"{CF}:ControlFlowDistance.__lt__", sig={"other": "ControlFlowDistance"}, requires=["cfd_wf(self)", "cfd_wf(other)"],
         ensures=["result == (self._approach_level < other._approach_level or (self._approach_level == "
                  "other._approach_level and self._branch_distance < other._branch_distance))"])

# ---- library: shortest path length in the control-dependence graph ----------------------------------------------------
contract("networkx:shortest_path_length", mode="assume", sig={"G": "NxGraph", "source": "BasicBlockNode", "target": "BasicBlockNode"},
         returns="int", raises={"NetworkXNoPath": "True", "NodeNotFound": "True"},
         ensures=["result >= 0", "(result == 0) == (source is target)"],
         note="networkx documentation: number of edges of a shortest path; 0 iff source is target")
assumption("distinct predicates of one code object sit on distinct CFG nodes (SubjectProperties.register_predicate asserts it)")
assumption("cfg.diameter >= 1 for a code object that owns a predicate (a CFG with a conditional jump has >= 3 nodes)")

contract(f"{CF}:_predicate_fitness", ensures=["same(result, ite(predicate in branch_distances, branch_distances[predicate], inf))"])

REG_OK = ["predicate_id in subject_properties.existing_predicates",
          "subject_properties.existing_predicates[predicate_id].code_object_id in subject_properties.existing_code_objects",
          # registry well-formedness used below
          "all(all(implies(p != q and subject_properties.existing_predicates[p].code_object_id == "
          "            subject_properties.existing_predicates[q].code_object_id, "
          "            subject_properties.existing_predicates[p].node is not subject_properties.existing_predicates[q].node) "
          "        for q in keys(subject_properties.existing_predicates)) for p in keys(subject_properties.existing_predicates))",
          f"keys({TR}.executed_predicates) <= keys(subject_properties.existing_predicates)",
          # a predicate can only have been executed inside an executed code object
          f"all(subject_properties.existing_predicates[p].code_object_id in {TR}.executed_code_objects "
          f"    for p in keys({TR}.executed_predicates))"]
contract("pynguin.instrumentation.controlflow:CFG.diameter", mode="assume", is_property=True, returns="int",
         ensures=["result == self.g_diameter", "result >= 1"])
contract(f"{CF}:get_non_root_control_flow_distance", requires=HAS_TRACE + REG_OK, fresh_result=False,
         ensures=["cfd_wf(ret)",
                  f"(cfd_fitness(ret) == 0) == branch_covered({TR}, predicate_id, value)"])
loop(f"{CF}:get_non_root_control_flow_distance", 0, invariant=["cfd_wf(distance)", "distance._approach_level >= 1"])
contract(f"{CF}:get_root_control_flow_distance", requires=HAS_TRACE,
         raises={"AssertionError": "True"},
         ensures=["cfd_wf(ret)", f"(cfd_fitness(ret) == 0) == (code_object_id in {TR}.executed_code_objects)"])


# ---------------------------------------------------------------------------------------------------------------
# native replay
from pyvc.replay import NATIVE_HELPERS, builder  # noqa: E402


def _mk_goal(name, args):
    @builder(name)
    def _b(f, ctx):
        import pynguin.ga.coveragegoals as cg
        return getattr(cg, name)(*[f.get(a, d) for a, d in args])
    return _b


@builder("BranchGoal")
def _b_bg(f, ctx):
    import pynguin.ga.coveragegoals as cg
    return cg.BranchGoal(f.get("_code_object_id", 0), f.get("_predicate_id", 0), value=bool(f.get("_value", True)))


_mk_goal("BranchlessCodeObjectGoal", [("_code_object_id", 0)])
_mk_goal("LineCoverageGoal", [("_code_object_id", 0), ("_line_id", 0)])
_mk_goal("CheckedCoverageGoal", [("_code_object_id", 0), ("_line_id", 0)])


@builder("ControlFlowDistance")
def _b_cfd(f, ctx):
    from pynguin.utils.controlflowdistance import ControlFlowDistance
    d = ControlFlowDistance()
    d._approach_level = f.get("_approach_level", 0)
    d._branch_distance = f.get("_branch_distance", 0.0)
    return d


class _S:
    def __init__(self, **kw):
        self.__dict__.update(kw)


@builder("CFG")
def _b_cfg_(f, ctx):
    return _S(diameter=max(1, f.get("g_diameter", 1) or 1), g_diameter=max(1, f.get("g_diameter", 1) or 1))


@builder("ControlDependenceGraph")
def _b_cdg(f, ctx):
    import networkx as nx
    return _S(graph=nx.DiGraph())


@builder("CodeObjectMetaData")
def _b_com2(f, ctx):
    return _S(cfg=f.get("cfg") or _S(diameter=1, g_diameter=1), cdg=f.get("cdg") or _b_cdg({}, ctx))


NATIVE_HELPERS["norm"] = None   # replaced by the predicate of c10.py at evaluation time
del NATIVE_HELPERS["norm"]
