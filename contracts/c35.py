"""C35 — coverage reports agree with the computed coverage."""
from pyvc.contracts import assumption, contract, for_property, klass, loop, predicate
from . import common, c10  # noqa: F401  (c10: fitness_metrics contracts are the callee contracts here)

for_property("C35")
RP = "pynguin.utils.report"

klass(f"{RP}:CoverageEntry", fields={"covered": "int", "existing": "int"}, record=True)
klass(f"{RP}:LineAnnotation", fields={"line_no": "int", "total": "CoverageEntry", "branches": "CoverageEntry",
                                      "branchless_code_objects": "CoverageEntry", "lines": "CoverageEntry"})

contract(f"{RP}:CoverageEntry.__add__", sig={"self": "CoverageEntry", "other": "CoverageEntry"}, returns="CoverageEntry",
         ensures=["result.covered == self.covered + other.covered", "result.existing == self.existing + other.existing"])
contract(f"{RP}:LineAnnotation.__add__", sig={"self": "LineAnnotation", "other": "LineAnnotation"}, returns="LineAnnotation",
         requires=["self.line_no == other.line_no"], fresh_result=True,
         ensures=["result.line_no == self.line_no"] + [
             f"result.{f}.{c} == self.{f}.{c} + other.{f}.{c}"
             for f in ("total", "branches", "branchless_code_objects", "lines") for c in ("covered", "existing")])

ZERO = "({m}[lineno].{c} if lineno in {m} else 0)"
contract(f"{RP}:_get_line_annotations_for_branch_coverage",
         sig={"lineno": "int", "code_object_coverage": "dict[int,CoverageEntry]", "predicate_coverage": "dict[int,CoverageEntry]"},
         returns="LineAnnotation", fresh_result=True,
         ensures=["result.line_no == lineno", "result.lines.covered == 0 and result.lines.existing == 0"] + [
             f"result.branches.{c} == " + ZERO.format(m="predicate_coverage", c=c) for c in ("covered", "existing")] + [
             f"result.branchless_code_objects.{c} == " + ZERO.format(m="code_object_coverage", c=c) for c in ("covered", "existing")] + [
             f"result.total.{c} == result.branches.{c} + result.branchless_code_objects.{c}" for c in ("covered", "existing")])

# per line: a predicate contributes 2 existing branches and one covered branch per side whose merged distance is 0
predicate("pline(sp, p)", "sp.existing_predicates[p].line_no")
predicate("tcov(t, p)", "p in t.true_distances and t.true_distances[p] == 0")
predicate("fcov(t, p)", "p in t.false_distances and t.false_distances[p] == 0")
PER_LINE = [
    "all(pline(subject_properties, p) in {m} for p in {dom})",
    "all(any(pline(subject_properties, p) == l for p in {dom}) for l in keys({m}))",
    "all(0 <= {m}[l].covered and {m}[l].covered <= {m}[l].existing and {m}[l].existing >= 2 and {m}[l].existing % 2 == 0 for l in keys({m}))",
    # a line is fully covered exactly when both outcomes of every predicate on it are covered
    "all(({m}[l].covered == {m}[l].existing) == all(implies(pline(subject_properties, p) == l, tcov(trace, p) and fcov(trace, p)) for p in {dom}) for l in keys({m}))",
    # and shows some covered branch exactly when some outcome of some predicate on it is covered
    "all(({m}[l].covered > 0) == any(pline(subject_properties, p) == l and (tcov(trace, p) or fcov(trace, p)) for p in {dom}) for l in keys({m}))",
]
contract(f"{RP}:_get_line_to_branch_coverage", sig={"subject_properties": "SubjectProperties", "trace": "ExecutionTrace"},
         returns="dict[int,CoverageEntry]", locals={"line_to_branch_coverage": "dict[int,CoverageEntry]"},
         ensures=[c.format(m="result", dom="keys(subject_properties.existing_predicates)") for c in PER_LINE])
loop(f"{RP}:_get_line_to_branch_coverage", 0,
     invariant=[c.format(m="line_to_branch_coverage", dom="_done") for c in PER_LINE])

predicate("cline(sp, c)", "sp.existing_code_objects[c].code_object.co_firstlineno")
PER_LINE_CO = [
    "all(cline(subject_properties, c) in {m} for c in {dom})",
    "all(any(cline(subject_properties, c) == l for c in {dom}) for l in keys({m}))",
    "all(0 <= {m}[l].covered and {m}[l].covered <= {m}[l].existing and {m}[l].existing >= 1 for l in keys({m}))",
    "all(({m}[l].covered == {m}[l].existing) == all(implies(cline(subject_properties, c) == l, c in trace.executed_code_objects) for c in {dom}) for l in keys({m}))",
    "all(({m}[l].covered > 0) == any(cline(subject_properties, c) == l and c in trace.executed_code_objects for c in {dom}) for l in keys({m}))",
]
BLCO = "{c for c in keys(subject_properties.existing_code_objects) if is_blco(subject_properties, c)}"
contract(f"{RP}:_get_line_to_branchless_code_object_coverage",
         sig={"subject_properties": "SubjectProperties", "trace": "ExecutionTrace"},
         returns="dict[int,CoverageEntry]", locals={"line_to_branchless_code_object_coverage": "dict[int,CoverageEntry]"},
         ensures=[c.format(m="result", dom=BLCO) for c in PER_LINE_CO])
loop(f"{RP}:_get_line_to_branchless_code_object_coverage", 0,
     invariant=[c.format(m="line_to_branchless_code_object_coverage", dom="_done") for c in PER_LINE_CO])


# ==== bounded stand-in for get_coverage_report (closures, inspect, config: outside the verifier's subset) =====================
import itertools  # noqa: E402
import math  # noqa: E402

from pyvc.bounded import Part, guarded  # noqa: E402

_SRC = "def f(x):\n    if x:\n        return 1\n    return 2\n\n\ndef g():\n    return 3\n"     # 8 lines


def _mk_module():
    import importlib.util, os, sys, tempfile  # noqa: E401
    d = tempfile.mkdtemp(prefix="c35mod")
    path = os.path.join(d, "c35_subject.py")
    with open(path, "w", encoding="utf-8") as f:
        f.write(_SRC)
    spec = importlib.util.spec_from_file_location("c35_subject", path)
    mod = importlib.util.module_from_spec(spec)
    spec.loader.exec_module(mod)
    sys.modules["c35_subject"] = mod
    return d


class _TC:
    def __init__(self, res):
        self._r = res

    def get_last_execution_result(self):
        return self._r


class _Suite:
    def __init__(self, results):
        self.test_case_chromosomes = [_TC(r) for r in results]


def _check_report(part: Part, tier, seed):
    import shutil, sys  # noqa: E401
    import pynguin.configuration as config
    import pynguin.ga.computations as ff
    from pynguin.instrumentation.tracer import ExecutionTrace, LineMetaData, PredicateMetaData, SubjectProperties
    from pynguin.testcase.execution_result import ExecutionResult
    from pynguin.utils.orderedset import OrderedSet
    from pynguin.utils.report import get_coverage_report
    d = _mk_module()
    old_name = config.configuration.module_name
    config.configuration.module_name = "c35_subject"
    nlines = len(_SRC.splitlines())
    try:
        thorough = tier == "thorough"
        co_lines = [(1,), (1, 7), (1, 1)] + ([(7, 1, 7)] if thorough else [])        # first lines of the code objects
        pred_sets = [(), ((2, 0),), ((2, 0), (2, 0)), ((2, 0), (4, 1)), ((3, 0), (2, 0))]      # (line_no, code object id)
        if thorough:
            pred_sets += [((2, 0), (2, 1), (4, 0)), ((7, 1),)]
        line_sets = [(), (2, 3), (2, 3, 4, 8)]
        dvals = [(0.0, 1.0), (1.0, 0.0), (0.0, 0.0)]
        metrics_all = [{config.CoverageMetric.BRANCH, config.CoverageMetric.LINE}, {config.CoverageMetric.BRANCH},
                       {config.CoverageMetric.LINE}]
        for cos, preds, lns in itertools.product(co_lines, pred_sets, line_sets):
            if any(c >= len(cos) for _, c in preds):
                continue
            sp = SubjectProperties()
            for i, fl in enumerate(cos):
                sp.existing_code_objects[i] = common._Stub(code_object=common._Stub(co_firstlineno=fl))
            for i, (ln, c) in enumerate(preds):
                sp.existing_predicates[i] = PredicateMetaData(line_no=ln, code_object_id=c, node=None)
            for i, ln in enumerate(lns):
                sp.existing_lines[i] = LineMetaData(code_object_id=0, file_name="c35_subject.py", line_number=ln)
            # per test: which predicates were executed with which distances, which code objects, which lines
            pred_opts = list(itertools.product([None] + dvals, repeat=len(preds)))
            co_opts = [s for r in range(len(cos) + 1) for s in itertools.combinations(range(len(cos)), r)]
            ln_opts = [s for r in range(len(lns) + 1) for s in itertools.combinations(range(len(lns)), r)]
            if not thorough:
                ln_opts = ln_opts[::3] + ln_opts[-1:]
            tests = list(itertools.product(pred_opts, co_opts, ln_opts))
            rnd = __import__("random").Random(seed * 7919 + len(tests))
            suites = [(t,) for t in tests]
            pairs = [(a, b) for a in tests for b in tests]
            rnd.shuffle(pairs)
            suites += pairs[: (400 if thorough else 60)]
            suites.append(())
            for suite_spec in suites:
                results = []
                for popt, cexec, lexec in suite_spec:
                    t = ExecutionTrace()
                    for pid_, dv in enumerate(popt):
                        if dv is not None:
                            t.executed_predicates[pid_] = 1
                            t.true_distances[pid_], t.false_distances[pid_] = dv
                    t.executed_code_objects = OrderedSet(cexec)
                    t.covered_line_ids = OrderedSet(lexec)
                    r = ExecutionResult()
                    r.execution_trace = t
                    results.append(r)
                # what the suite covers, computed from the specification of its tests (not through analyze_results)
                want = ExecutionTrace()
                for popt, cexec, lexec in suite_spec:
                    for pid_, dv in enumerate(popt):
                        if dv is not None:
                            want.executed_predicates[pid_] = want.executed_predicates.get(pid_, 0) + 1
                            want.true_distances[pid_] = min(want.true_distances.get(pid_, math.inf), dv[0])
                            want.false_distances[pid_] = min(want.false_distances.get(pid_, math.inf), dv[1])
                    want.executed_code_objects.update(cexec)
                    want.covered_line_ids.update(lexec)

                def frozen(rs):
                    return [(dict(r.execution_trace.executed_predicates), dict(r.execution_trace.true_distances),
                             dict(r.execution_trace.false_distances), list(r.execution_trace.executed_code_objects),
                             list(r.execution_trace.covered_line_ids)) for r in rs]
                before = frozen(results)
                for metrics in metrics_all:
                    part.case(bool(preds or lns))
                    rep = get_coverage_report(_Suite(results), sp, metrics)
                    if frozen(results) != before:
                        part.violation("a line is shown as covered exactly when the suite covers it", "report-changes-test-results",
                                       {"tests(pred distances, executed code objects, covered line ids)": repr(suite_spec),
                                        "note": "building the report changed the cached execution results of the suite's test cases; "
                                                "a later report of a suite that shares a test case then shows what that suite does not cover",
                                        "before": repr(before)[:300], "after": repr(frozen(results))[:300]},
                                       target="pynguin.ga.fitness_metrics:analyze_results")
                        before = frozen(results)
                    merged = want
                    bad = _judge(rep, merged, sp, metrics, nlines, config, ff)
                    if bad:
                        part.violation(bad[0], bad[1], {
                            "code_object_first_lines": cos, "predicates(line,code_object)": preds, "line_numbers": lns,
                            "tests(pred distances, executed code objects, covered line ids)": repr(suite_spec),
                            "metrics": sorted(m.name for m in metrics), "observed": bad[2]},
                            target=f"{RP}:get_coverage_report")
    finally:
        config.configuration.module_name = old_name
        sys.modules.pop("c35_subject", None)
        shutil.rmtree(d, ignore_errors=True)


def _judge(rep, merged, sp, metrics, nlines, config, ff):
    import math
    ann = rep.line_annotations
    if len(ann) != nlines or any(a.line_no != i + 1 for i, a in enumerate(ann)):
        return ("one annotation per source line, numbered from 1", "annotation-shape", repr([a.line_no for a in ann]))
    if config.CoverageMetric.BRANCH in metrics:
        want = ff.compute_branch_coverage(merged, sp)
        cov = rep.branches.covered + rep.branchless_code_objects.covered
        ex = rep.branches.existing + rep.branchless_code_objects.existing
        n_blco = len(list(sp.branch_less_code_objects))
        if rep.branches.existing != 2 * len(sp.existing_predicates) or rep.branchless_code_objects.existing != n_blco:
            return ("report totals count 2 branches per predicate and 1 per branch-less code object", "total-existing",
                    f"branches={rep.branches} branchless={rep.branchless_code_objects}")
        if rep.branch_coverage != want or (ex > 0 and not math.isclose(cov / ex, want, rel_tol=0, abs_tol=1e-12)) \
                or (ex == 0 and want != 1.0):
            return ("report totals equal the tracked branch coverage", "total-branch",
                    f"covered/existing={cov}/{ex} branch_coverage={rep.branch_coverage} computed={want}")
        for fld, tot in (("branches", rep.branches), ("branchless_code_objects", rep.branchless_code_objects)):
            sc = sum(getattr(a, fld).covered for a in ann)
            se = sum(getattr(a, fld).existing for a in ann)
            if (sc, se) != (tot.covered, tot.existing):
                return ("per-line annotations sum to the totals", f"annotation-sum-{fld}", f"sum=({sc},{se}) total={tot}")
    else:
        if rep.branch_coverage is not None or rep.branches.existing or rep.branchless_code_objects.existing:
            return ("branch data only when the branch metric is on", "metric-off", repr(rep.branches))
    if config.CoverageMetric.LINE in metrics:
        want = ff.compute_line_coverage(merged, sp)
        covered = {sp.existing_lines[i].line_number for i in merged.covered_line_ids}
        existing = {m.line_number for m in sp.existing_lines.values()}
        if (rep.lines.covered, rep.lines.existing) != (len(covered), len(existing)) or rep.line_coverage != want or \
                (existing and not math.isclose(len(covered) / len(existing), want, rel_tol=0, abs_tol=1e-12)):
            return ("report line totals equal the tracked line coverage", "total-line",
                    f"lines={rep.lines} line_coverage={rep.line_coverage} computed={want}")
        for a in ann:
            if (a.lines.covered == 1) != (a.line_no in covered) or (a.lines.existing == 1) != (a.line_no in existing) \
                    or a.lines.covered not in (0, 1) or a.lines.existing not in (0, 1):
                return ("a line is shown as covered exactly when the suite covers it", "line-shown",
                        f"line {a.line_no}: {a.lines} covered={sorted(covered)} existing={sorted(existing)}")
        if sum(a.lines.covered for a in ann) != rep.lines.covered or sum(a.lines.existing for a in ann) != rep.lines.existing:
            return ("per-line annotations sum to the totals", "annotation-sum-lines", repr(rep.lines))
    else:
        if rep.line_coverage is not None or rep.lines.existing or any(a.lines.existing for a in ann):
            return ("line data only when the line metric is on", "metric-off", repr(rep.lines))
    for a in ann:
        tc = a.branches.covered + a.branchless_code_objects.covered + a.lines.covered
        te = a.branches.existing + a.branchless_code_objects.existing + a.lines.existing
        if (a.total.covered, a.total.existing) != (tc, te):
            return ("an annotation's total is the sum of its three parts", "annotation-total", f"line {a.line_no}: {a}")
    return None


def bounded_report(tier, seed):
    p = Part("C35", "report-agrees-with-coverage", [f"{RP}:get_coverage_report"],
             scope="real get_coverage_report on an 8-line module: <= 3 code objects (first lines in {1,7}), <= 3 predicates on "
                   "lines {2,3,4,7} incl. two on one line, <= 4 registered lines; every single test (each predicate unexecuted / "
                   "true / false / both covered, every subset of code objects, subsets of lines) and a seeded sample of "
                   "two-test suites, under the metric sets {BRANCH,LINE}, {BRANCH}, {LINE}",
             bound="code objects <= 3, predicates <= 3, registered lines <= 4, tests per suite <= 2")
    return guarded(p, _check_report, tier, seed)


BOUNDED = [bounded_report]
META = {"rule": "obligations: one per contract clause/site of the report helpers; bounded part: one case per enumerated "
                "(registry, suite, metric set); non-trivial = at least one predicate or line registered",
        "assumptions": ["registered line numbers and code-object first lines lie within the module source "
                        "(instrumentation + inspect.getsourcelines; not discharged)",
                        "line ids map injectively to line numbers of one file (SubjectProperties.register_line)"]}
