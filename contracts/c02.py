"""C02 — reported line coverage equals the lines the interpreter actually executed (bounded, H-prog)."""
from pyvc.contracts import for_property

for_property("C02")
from pyvc.bounded import Part, guarded  # noqa: E402
from .c03 import run_hprog  # noqa: E402

TRC = "pynguin.instrumentation.tracer"


def judge_lines(part, mk, fn, k, base, res, trace, sp, imp):
    (r0, lines, _branches) = base
    if "L" not in mk:
        return
    registered = {m.line_number for m in sp.existing_lines.values()} - {None}
    imp_lines = set(sp.lineids_to_linenos(imp.covered_line_ids)) - {None}
    got = set(sp.lineids_to_linenos(trace.covered_line_ids)) - {None} - imp_lines
    want = set(lines) - imp_lines
    detail = {"function": fn, "vector": k, "metrics": mk, "uninstrumented_outcome": repr(r0[0])[:120], "instrumented_outcome": repr(res[0])[:120]}
    changed = r0[0] != res[0] or r0[1] != res[1]
    unknown = sorted(want - registered)
    if unknown and not changed:
        part.violation("every line the interpreter executes in the module is a known (registered) line", f"unregistered-line:{fn}",
                       {**detail, "executed_but_not_registered": unknown}, target=f"{TRC}:SubjectProperties.register_line")
    if got != (want & registered):
        cls = f"behaviour-changed:{fn}" if changed else f"lines-differ:{fn}"
        part.violation("the lines reported as covered are exactly the (registered) lines the interpreter executed", cls,
                       {**detail, "executed_not_reported": sorted((want & registered) - got), "reported_not_executed": sorted(got - want)},
                       target=f"{TRC}:ExecutionTracer.track_line_visit")


def bounded_c02(tier, seed):
    p = Part("C02", "lines-vs-interpreter", [f"{TRC}:ExecutionTracer.track_line_visit", f"{TRC}:SubjectProperties.register_line",
                                             "pynguin.instrumentation.version.python3_12:LineCoverageInstrumentation"],
             scope="H-prog (see C03): sys.monitoring LINE events of the uninstrumented run against the line ids the real tracer "
                   "reports (translated by lineids_to_linenos, import-time lines removed on both sides), under the metric sets "
                   "{LINE} and {BRANCH, LINE}; every executed line must also be a registered line",
             bound="the listed functions and vectors")
    return guarded(p, lambda part, t, s: run_hprog(part, t, s, judge_lines, ("L", "BL")), tier, seed)


def bounded_stdlib(tier, seed):
    from . import hstd
    p = Part("C02", "stdlib-corpus", [f"{TRC}:ExecutionTracer.track_line_visit", f"{TRC}:SubjectProperties.register_line",
                                      "pynguin.instrumentation.version.python3_12:LineCoverageInstrumentation"],
             scope=hstd.SCOPE_TEXT + "; sys.monitoring LINE events of the uninstrumented copy against the reported lines of the "
                   "instrumented copy, under {LINE} and {BRANCH, LINE}", bound="the listed modules and calls")
    return guarded(p, lambda part, t, s: hstd.run_corpus(part, t, s, "C02", "c02", "judge_lines", ("L", "BL")), tier, seed)


BOUNDED = [bounded_c02, bounded_stdlib]
META = {"level": "other", "explanation": "bounded differential contract check: the interpreter's own LINE events are the oracle",
        "rule": "one case per (function, argument vector, metric set)"}


def classify(g):
    return g.get("class", "")
