"""C27 — the test cluster holds exactly the module's eligible callables."""
from pyvc.contracts import assumption, contract, for_property, global_var, klass, lemma, loop, predicate, ufun, value_type

for_property("C27")
MO = "pynguin.analyses.module"

# ---- proved: the visibility table of the statement, on the real predicates (strings are SMT strings) --------------------------
klass("pynguin.configuration:ElementVisibility")
klass("pynguin.configuration:Configuration", fields={"element_visibility": "ElementVisibility"})
global_var("pynguin.configuration.configuration", "Configuration")
predicate("private_name(s)", "s.startswith('__') and not s.endswith('__')")
predicate("protected_name(s)", "s.startswith('_') and not s.startswith('__')")
contract(f"{MO}:__is_constructor", sig={"method_name": "str"}, returns="bool", ensures=["result == (method_name == '__init__')"])
contract(f"{MO}:__is_protected", sig={"method_name": "str"}, returns="bool", ensures=["result == protected_name(method_name)"])
contract(f"{MO}:__is_private", sig={"method_name": "str"}, returns="bool", ensures=["result == private_name(method_name)"])
# the name-mangling test is a regular expression match: kept abstract (MANGLED), checked by the bounded part
ufun("MANGLED", ["str"], "bool")
contract(f"{MO}:__is_name_mangled", mode="assume", sig={"name": "str"}, returns="bool", ensures=["result == MANGLED(name)"])
assumption("__is_name_mangled(name) is a pure function MANGLED(name) of the name (regular-expression match; its table is "
           "checked by the bounded part)")
EV = "ElementVisibility"
# the statement's eligibility of an (unqualified) name in the module under test
predicate("skipvis(name)",
          f"ite(config.configuration.element_visibility == {EV}.ALL, False, "
          f"ite(config.configuration.element_visibility == {EV}.PROTECTED, private_name(name) or MANGLED(name), "
          "private_name(name) or protected_name(name)))")
predicate("lastseg(s)", "s.rpartition('.')[2]")

# ---- proved: a function / method is marked as under test only if it belongs to the module under test and its name is eligible
klass("pynguin.analyses.module:ModuleTestCluster", fields={}, ghost={"g_added": "int"})
klass("pynguin.analyses.typesystem:TypeInfo", fields={"raw_type": "PyObj"})
contract(f"{MO}:ModuleTestCluster.add_accessible_object_under_test", mode="assume", sig={"self": "ModuleTestCluster"},
         modifies=["self.g_added"], ensures=["self.g_added == old(self.g_added) + 1"])
contract(f"{MO}:ModuleTestCluster.add_generator", mode="assume", sig={"self": "ModuleTestCluster"})
contract(f"{MO}:ModuleTestCluster.add_modifier", mode="assume", sig={"self": "ModuleTestCluster"})
contract(f"{MO}:ModuleTestCluster.add_ml_data", mode="assume", sig={"self": "ModuleTestCluster"})
contract(f"{MO}:__is_annotate", sig={"method_name": "str"}, returns="bool", ensures=["result == (method_name == '__annotate_func__')"])
UT = ["test_cluster.g_added == old(test_cluster.g_added) or test_cluster.g_added == old(test_cluster.g_added) + 1",
      "implies(test_cluster.g_added != old(test_cluster.g_added), add_to_test and not skipvis(lastseg({n})))"]

# ==== bounded stand-in: the real generate_test_cluster on a feature-rich module, against the statement ========================
from pyvc.bounded import Part, guarded  # noqa: E402

_HELPER = '''
def helper_function(x):
    return x
def _helper_protected():
    return 0
class HelperBase:
    def inherited(self):
        return 1
    def _inherited_protected(self):
        return 2
class HelperClass:
    def __init__(self):
        pass
    def method(self):
        return 3
class Handler:
    def handle(self):
        return 11
    def flush(self):
        return 12
'''
_SUBJECT = '''
import enum
import abc
from c27_helper import helper_function, HelperClass, HelperBase
import c27_helper as hm

def public_function(a):
    return a
def public_function_too(a):
    return a
def public_functional(a):
    return a
def _protected_function(a):
    return a
def __private_function(a):
    return a
def __dunder_function__(a):
    return a
def _Foo__looks_mangled(a):
    return a
async def coroutine_function():
    return 0
public_lambda = lambda v: v
_protected_lambda = lambda v: v
alias_of_helper = helper_function
_alias_protected = public_function

class Service(HelperBase):
    def __init__(self, v=0):
        self.v = v
    def run(self):
        return self.v
    def _impl(self):
        return 1
    def __secret(self):
        return 2
    def __len__(self):
        return 0
    async def fetch(self):
        return 0
    @staticmethod
    def static_method():
        return 4
    @classmethod
    def class_method(cls):
        return 5
    @property
    def prop(self):
        return 6
    _legacy_run = run
    go = _impl
    reveal = __secret
    class Nested:
        def nested_method(self):
            return 7

class _Hidden:
    def __init__(self):
        pass
    def visible_method(self):
        return 8

class Abstract(abc.ABC):
    @abc.abstractmethod
    def todo(self):
        ...
    def concrete(self):
        return 9

class Color(enum.Enum):
    RED = 1
    def describe(self):
        return "red"

class Derived(HelperClass):
    def own(self):
        return 10

class Handler(hm.Handler):
    def handle(self):
        return 13
    def emit(self):
        return 14
'''


def _c27_modules():
    import importlib, os, sys, tempfile  # noqa: E401
    d = tempfile.mkdtemp(prefix="c27mod")
    for name, src in (("c27_helper", _HELPER), ("c27_subject", _SUBJECT)):
        with open(os.path.join(d, name + ".py"), "w", encoding="utf-8") as f:
            f.write(src)
    sys.path.insert(0, d)
    for name in ("c27_helper", "c27_subject"):
        sys.modules.pop(name, None)
    return d


def _eligible(name, vis):
    import re
    private = name.startswith("__") and not name.endswith("__")
    protected = name.startswith("_") and not name.startswith("__")
    mangled = bool(re.fullmatch(r"_[A-Za-z][A-Za-z0-9]*__\w+", name)) and not name.endswith("__")
    if vis == "ALL":
        return True
    if vis == "PROTECTED":
        return not (private or mangled)
    return not (private or protected)


def cluster_problems(vis_name, ignore=()):
    """Run the real generate_test_cluster on the subject module; returns [(clause, class, detail)]."""
    import importlib, inspect, shutil, sys  # noqa: E401
    import pynguin.configuration as config
    from pynguin.analyses.module import generate_test_cluster
    from pynguin.utils.generic.genericaccessibleobject import GenericConstructor, GenericEnum, GenericFunction, GenericMethod
    from pynguin.utils.type_utils import get_class_that_defined_method
    d = _c27_modules()
    old = (config.configuration.module_name, config.configuration.element_visibility, config.configuration.ignore_methods)
    out = []
    try:
        config.configuration.module_name = "c27_subject"
        config.configuration.element_visibility = config.ElementVisibility[vis_name]
        config.configuration.ignore_methods = list(ignore)
        cluster = generate_test_cluster("c27_subject")
        mod = importlib.import_module("c27_subject")
        under = list(cluster.accessible_objects_under_test)
        # (1) nothing defined elsewhere; every registered name eligible
        seen_callables = set()
        for a in under:
            if isinstance(a, GenericMethod):
                # (a method is defined where its code lives: an inherited method of a foreign base class is foreign)
                owner_mod = getattr(inspect.unwrap(a.callable), "__module__", None) or a.owner.raw_type.__module__
                name, kind = a.method_name, "method"
                seen_callables.add(a.callable)
            elif isinstance(a, GenericFunction):
                owner_mod, name, kind = a.callable.__module__, (a.function_name or "").rpartition(".")[2], "function"
                seen_callables.add(a.callable)
            elif isinstance(a, (GenericConstructor, GenericEnum)):
                # (a constructor's name is __init__: the repository's own tests pin that the classes of the module are
                #  included whatever their class name; the visibility rule applies to function and method names)
                owner_mod, name, kind = a.owner.raw_type.__module__, "__init__", "constructor"
                seen_callables.add(a.owner.raw_type)
            else:
                continue
            if owner_mod != "c27_subject":
                out.append(("nothing defined in another module is marked as under test", f"foreign:{kind}:{a}", str(a)))
            if kind == "function" and f"c27_subject.{name}" in ignore:
                out.append(("a function ignored by configuration is not under test", f"ignored-under-test:{name}", str(a)))
            if name is not None and not _eligible(name, vis_name):
                out.append(("every callable under test has a name that is eligible under the visibility setting",
                            f"ineligible:{kind}:{name}", str(a)))
        # (2) every function / method of the module reachable under an eligible name is under test
        for n, obj in vars(mod).items():
            if inspect.isfunction(obj) and obj.__module__ == "c27_subject" and not inspect.iscoroutinefunction(obj):
                if _eligible(n, vis_name) and _eligible(obj.__qualname__.rpartition(".")[2].replace("<lambda>", n), vis_name):
                    if obj not in seen_callables and f"c27_subject.{obj.__qualname__}" not in ignore:
                        out.append(("every eligible function of the module is under test", f"missing:function:{n}", n))
            if inspect.isclass(obj) and obj.__module__ == "c27_subject":
                for mn, meth in inspect.getmembers(obj, inspect.isfunction):
                    if mn == "__init__" or inspect.iscoroutinefunction(meth) or get_class_that_defined_method(meth) is not obj:
                        continue
                    if _eligible(mn, vis_name) and meth not in seen_callables:
                        out.append(("every eligible method of the module's classes is under test", f"missing:method:{obj.__name__}.{mn}",
                                    f"{obj.__name__}.{mn}"))
                if not inspect.isabstract(obj) and obj not in seen_callables:
                    out.append(("every constructor of the module's classes is under test", f"missing:constructor:{obj.__name__}", obj.__name__))
    finally:
        (config.configuration.module_name, config.configuration.element_visibility, config.configuration.ignore_methods) = old
        for name in ("c27_helper", "c27_subject"):
            sys.modules.pop(name, None)
        if d in sys.path:
            sys.path.remove(d)
        shutil.rmtree(d, ignore_errors=True)
    return out


def package_problems(vis_name):
    """The module under test is a package that imports from its own submodule: only what the package module itself defines is
    under test (a submodule is another module)."""
    import inspect, os, shutil, sys, tempfile  # noqa: E401
    import pynguin.configuration as config
    from pynguin.analyses.module import generate_test_cluster
    from pynguin.utils.generic.genericaccessibleobject import GenericConstructor, GenericEnum, GenericFunction, GenericMethod
    d = tempfile.mkdtemp(prefix="c27pkg")
    os.mkdir(os.path.join(d, "c27_pkg"))
    with open(os.path.join(d, "c27_pkg", "util.py"), "w", encoding="utf-8") as f:
        f.write("def clamp(x, lo, hi):\n    return max(lo, min(x, hi))\ndef unused_helper():\n    return 0\n"
                "class Unit:\n    def __init__(self, n):\n        self.n = n\n    def double(self):\n        return self.n * 2\n")
    with open(os.path.join(d, "c27_pkg", "__init__.py"), "w", encoding="utf-8") as f:
        f.write("from c27_pkg.util import clamp, Unit\nimport c27_pkg.util as util\n"
                "def area(w, h):\n    return clamp(w, 0, 9) * h\n"
                "class Square:\n    def __init__(self, side):\n        self.side = Unit(side)\n    def scaled(self, k):\n        return self.side.double() * k\n")
    sys.path.insert(0, d)
    old = (config.configuration.module_name, config.configuration.element_visibility)
    out = []
    try:
        for name in [n for n in sys.modules if n == "c27_pkg" or n.startswith("c27_pkg.")]:
            sys.modules.pop(name)
        config.configuration.module_name = "c27_pkg"
        config.configuration.element_visibility = config.ElementVisibility[vis_name]
        cluster = generate_test_cluster("c27_pkg")
        seen = set()
        for a in cluster.accessible_objects_under_test:
            if isinstance(a, (GenericMethod, GenericFunction)):
                where = getattr(inspect.unwrap(a.callable), "__module__", None)
                label = getattr(a.callable, "__qualname__", str(a))
            elif isinstance(a, (GenericConstructor, GenericEnum)):
                where, label = a.owner.raw_type.__module__, a.owner.raw_type.__qualname__ + ".__init__"
            else:
                continue
            seen.add(label)
            if where != "c27_pkg":
                out.append(("nothing defined in another module is marked as under test", f"foreign:submodule-of-the-package:{label}",
                            f"{label} is defined in {where}"))
        for want in ("area", "Square.__init__", "Square.scaled"):
            if want not in seen:
                out.append(("every eligible callable of the module is under test", f"missing:package:{want}", want))
    finally:
        config.configuration.module_name, config.configuration.element_visibility = old
        for name in [n for n in sys.modules if n == "c27_pkg" or n.startswith("c27_pkg.")]:
            sys.modules.pop(name)
        if d in sys.path:
            sys.path.remove(d)
        shutil.rmtree(d, ignore_errors=True)
    return out


def _check_c27(part: Part, tier, seed):
    import re
    pat = re.compile(r"_[A-Za-z][A-Za-z0-9]*__\w+")
    # the abstract MANGLED of the proofs: the real predicate agrees with the pattern the statement describes
    import pynguin.analyses.module as m
    f = getattr(m, "__is_name_mangled")
    for name in ["_Foo__bar", "_Foo__bar__", "__bar", "_foo", "_Foo_bar", "_Foo__", "__Foo__bar", "_9Foo__bar", "Foo__bar", "_F__b", "_Foo__b-r",
                 "_Foo__bar ", "", "_", "__", "___", "_a__b", "_a_b__c"]:
        part.case()
        want = bool(pat.fullmatch(name)) and not name.endswith("__")
        if bool(f(name)) != want:
            part.violation("__is_name_mangled matches _Class__name (single leading underscore, non-dunder)", f"mangled:{name}",
                           {"name": name, "got": bool(f(name)), "want": want}, target=f"{MO}:__is_name_mangled")
    for vis in ("PUBLIC", "PROTECTED", "ALL"):
        part.case()
        for clause, cls, what in package_problems(vis):
            part.violation(clause, f"{vis}:{cls}", {"visibility": vis, "what": what, "module": "package c27_pkg with submodule c27_pkg.util"},
                           target=f"{MO}:__analyse_included_functions")
    for vis in ("PUBLIC", "PROTECTED", "ALL"):
        ignores = [(), ("c27_subject.public_function",),
                   # an entry that is a proper prefix of other names ignores nothing else; an entry that names nothing ignores nothing
                   ("c27_subject.public",), ("c27_subject.public_function", "c27_subject._protected_function"),
                   ("c27_subject.public_function_too", "c27_subject.helper_function", "other_module.public_functional")]
        if tier == "thorough":
            rnd = __import__("random").Random(seed)
            names_ = ["public_function", "public_function_too", "public_functional", "_protected_function", "_Foo__looks_mangled", "public"]
            ignores += [tuple(f"c27_subject.{n_}" for n_ in rnd.sample(names_, rnd.randint(1, 3))) for _ in range(6)]
        for ignore in ignores:
            part.case()
            for clause, cls, what in cluster_problems(vis, ignore):
                part.violation(clause, f"{vis}:{cls}", {"visibility": vis, "ignore_methods": list(ignore), "what": what,
                                                        "module": "contracts/c27.py:_SUBJECT"}, target=f"{MO}:generate_test_cluster")


def bounded_c27(tier, seed):
    p = Part("C27", "cluster-of-feature-module", [f"{MO}:generate_test_cluster", f"{MO}:__analyse_included_functions",
                                                  f"{MO}:__analyse_included_classes", f"{MO}:__analyse_class", f"{MO}:__is_name_mangled"],
             scope="real generate_test_cluster on one generated module (public/protected/private/dunder/mangled-looking functions, "
                   "lambdas bound to public and protected names, a coroutine, imported and aliased functions, classes with "
                   "public/protected/private/dunder/static/class methods, properties, method aliases of another visibility, nested "
                   "class, protected class, abstract class, enum, subclasses of imported classes) under PUBLIC/PROTECTED/ALL x "
                   "5 ignore lists (none, one function, a proper prefix of function names, two functions, names of other modules; thorough: 6 "
                   "random ones more); plus the name-mangling predicate on 18 names",
             bound="one module, 15 (33) configurations")
    return guarded(p, _check_c27, tier, seed)


BOUNDED = [bounded_c27]
META = {"rule": "obligations: one per contract clause/site and path; bounded part: one case per configuration / name"}


def classify(g):
    return g.get("class", "")


def _witness(vis, needle):
    def run():
        probs = [p for p in cluster_problems(vis) if needle in p[1]]
        return {"fails": bool(probs), "scenario": f"generate_test_cluster on the C27 subject module under {vis}", "problems": probs[:5]}
    return run


WITNESS = {"__analyse_function/post": _witness("PUBLIC", "_protected_lambda"),
           "__analyse_method/post": _witness("PUBLIC", "method")}

contract(f"{MO}:_get_lambda_assigned_name", mode="assume", sig={"module_tree": "SutValue", "lambda_lineno": "SutValue"},
         returns="Optional[str]", raises={"*": "True"},
         ensures=["implies(result is not None, '.' not in result)"])     # an ast.Name identifier
contract(f"{MO}:__analyse_function",
         sig={"func_name": "str", "func": "SutValue", "type_inference_provider": "SutValue", "module_tree": "SutValue",
              "test_cluster": "ModuleTestCluster", "add_to_test": "bool"},
         globals_in={"pynguin.configuration.configuration": "Configuration"}, raises={"*": "True"},
         modifies=["test_cluster.g_added"],
         ensures=[c.format(n="old(func_name)") for c in UT] + [
             # a lambda is registered under the name it is assigned to: that name must be eligible as well
             "implies(test_cluster.g_added != old(test_cluster.g_added), not skipvis(lastseg(func_name)))"])
# only members a class defines itself are analysed for it (inherited members of a foreign base class are foreign code):
# Python objects compare by identity here (type.__eq__), modelled as equality of abstract values
value_type("PyObj")
ufun("DEFCLS_KNOWN", ["PyObj"], "bool")
ufun("DEFCLS", ["PyObj"], "PyObj")
contract("pynguin.utils.type_utils:get_class_that_defined_method", mode="assume", sig={"method": "PyObj"}, returns="Optional[PyObj]",
         ensures=["(result is not None) == DEFCLS_KNOWN(method)", "implies(result is not None, result == DEFCLS(method))"])
contract(f"{MO}:__is_method_defined_in_class", sig={"class_": "PyObj", "method": "PyObj"}, returns="bool",
         ensures=["result == (DEFCLS_KNOWN(method) and class_ == DEFCLS(method))"])
contract(f"{MO}:__analyse_method",
         sig={"type_info": "TypeInfo", "method_name": "str", "method": "PyObj", "type_inference_provider": "SutValue",
              "class_tree": "SutValue", "test_cluster": "ModuleTestCluster", "add_to_test": "bool"},
         globals_in={"pynguin.configuration.configuration": "Configuration"}, raises={"*": "True"},
         modifies=["test_cluster.g_added"],
         ensures=[c.format(n="method_name") for c in UT] + [
             "implies(test_cluster.g_added != old(test_cluster.g_added), method_name != '__init__')",
             "implies(test_cluster.g_added != old(test_cluster.g_added), "
             "        DEFCLS_KNOWN(method) and DEFCLS(method) == type_info.raw_type)"])
contract(f"{MO}:__should_skip_by_visibility", sig={"name": "str", "add_to_test": "bool"}, returns="bool",
         globals_in={"pynguin.configuration.configuration": "Configuration"},
         ensures=[
             # outside the module under test: always the PUBLIC rule
             "implies(not add_to_test, result == (private_name(name) or protected_name(name)))",
             f"implies(add_to_test and config.configuration.element_visibility == {EV}.ALL, not result)",
             f"implies(add_to_test and config.configuration.element_visibility == {EV}.PROTECTED, "
             "result == (private_name(name) or MANGLED(name)))",
             f"implies(add_to_test and config.configuration.element_visibility == {EV}.PUBLIC, "
             "result == (private_name(name) or protected_name(name)))",
             # dunder names (e.g. __init__, __call__) are never skipped for visibility reasons
             "implies(name.startswith('__') and name.endswith('__') and not MANGLED(name), not result)"])
