"""C05 — tracing keeps recording after an exception inside traced code."""
from pyvc.contracts import assumption, contract, exception, for_property, klass, loop, predicate

for_property("C05")
T = "pynguin.instrumentation.tracer"
AET, ET, IET = "AbstractExecutionTracer", "ExecutionTracer", "InstrumentationExecutionTracer"

klass("pynguin.instrumentation:PynguinCompare")
klass(f"{T}:ExecutionTrace", fields={})
klass(f"{T}:TracerLocalState", fields={"enabled": "bool", "trace": "ExecutionTrace"})
klass(f"{T}:{AET}", fields={})
klass(f"{T}:{ET}", fields={"_thread_local_state": "TracerLocalState", "_current_thread_identifier": "Optional[int]",
                           "_import_trace": "ExecutionTrace", "_current_code_object_id": "int"}, bases=[AET])
klass(f"{T}:{IET}", fields={"_tracer": ET}, bases=[AET])
exception("TracingAbortedException", "BaseException")

# the abstract view: is tracing enabled for this tracer object (in the calling thread)?
predicate("en(t)", f"ite(typeis(t, '{IET}'), t._tracer._thread_local_state.enabled, t._thread_local_state.enabled)")

ENABLED = "TracerLocalState.enabled['*']"

# -- concrete tracer: the three primitives --------------------------------------------------------------------
contract(f"{T}:{ET}.is_disabled", ensures=["result == (not self._thread_local_state.enabled)"])
contract(f"{T}:{ET}.enable", modifies=["self._thread_local_state.enabled"], ensures=["self._thread_local_state.enabled"])
contract(f"{T}:{ET}.disable", modifies=["self._thread_local_state.enabled"],
         ensures=["not self._thread_local_state.enabled"])
contract(f"{T}:{IET}.is_disabled", ensures=["result == (not self._tracer._thread_local_state.enabled)"])
contract(f"{T}:{IET}.enable", modifies=["self._tracer._thread_local_state.enabled"],
         ensures=["self._tracer._thread_local_state.enabled"])
contract(f"{T}:{IET}.disable", modifies=["self._tracer._thread_local_state.enabled"],
         ensures=["not self._tracer._thread_local_state.enabled"])

# -- what the abstract class may assume of its abstract methods (each clause is verified on both subclasses above)
contract(f"{T}:{AET}.is_disabled", mode="assume", ensures=["result == (not en(self))"])
contract(f"{T}:{AET}.enable", mode="assume", modifies=[ENABLED], ensures=["en(self)"])
contract(f"{T}:{AET}.disable", mode="assume", modifies=[ENABLED], ensures=["not en(self)"])

# -- the two context managers: whatever the with-body does (finish or raise), the flag is restored -----------------
for name, during in (("temporarily_disable", "not en(self)"), ("temporarily_enable", "en(self)")):
    contract(f"{T}:{AET}.{name}",
             modifies=[ENABLED],
             at_yield=[during],
             ensures=["en(self) == old(en(self))"],
             raises={"*": "True"},                       # an exception of the with-body passes through ...
             ensures_on_raise=["en(self) == old(en(self))"])   # ... and the flag is restored nevertheless


# -- the tracer callbacks that run user operators: enabled-state is the same at exit, however they exit ---------
#    (values coming from the module under test have an unknown type: every operation on them may raise)
SV = "SutValue"
for fn_ in ("_eq", "_neq", "_lt", "_le", "_in", "_nin", "_is", "_isn"):
    contract(f"{T}:{fn_}", mode="assume", sig={"val1": SV, "val2": SV}, returns="float", raises={"*": "True"},
             note="distance functions run user comparison operators: may raise anything (their laws are C04's subject)")
contract(f"{T}:{ET}._update_metrics", mode="assume",
         sig={"distance_false": "float", "distance_true": "float", "predicate": "int"},
         raises={"AssertionError": "True"}, note="asserts the distance laws (C04); writes only the trace")
SAME = "self._thread_local_state.enabled == old(self._thread_local_state.enabled)"
CALLBACKS = {
    "executed_compare_predicate": {"value1": SV, "value2": SV, "predicate": "int", "cmp_op": "PynguinCompare"},
    "executed_bool_predicate": {"value": SV, "predicate": "int"},
    "executed_in_presence_predicate": {"value1": SV, "value2": SV, "predicate": "int"},
    "executed_exception_match": {"err": SV, "exc": SV, "predicate": "int"},
}
for m_, sig_ in CALLBACKS.items():
    contract(f"{T}:{ET}.{m_}", sig=sig_, opaque_raise=True, modifies=[ENABLED], raises={"*": "True"},
             ensures=[SAME], ensures_on_raise=[SAME])

# -- every other recorder of the tracer (checked-coverage instrumentation included) -----------------------------
COMMON = {"module": "str", "code_object_id": "int", "node_id": "int", "opcode": "int", "lineno": "int", "offset": "int"}
TRACKERS = {
    "executed_code_object": {"code_object_id": "int"},
    "track_line_visit": {"line_id": "int"},
    "track_generic": dict(COMMON),
    "track_memory_access": {**COMMON, "var_name": SV, "var_value": SV},
    "track_attribute_access": {**COMMON, "attr_name": "Optional[str]", "obj": SV},
    "track_jump": {**COMMON, "target_id": "int"},
    "track_call": {**COMMON, "arg": "int"},
    "track_return": dict(COMMON),
    "_extract_arguments": {"var_name": SV, "var_value": SV},
}
klass(f"{T}:ExecutionTrace", fields={})
for m_, sig_ in TRACKERS.items():
    contract(f"{T}:{ET}.{m_}", sig=sig_, opaque_raise=True, modifies=[ENABLED, "self._thread_local_state.trace.ALL",
                                                                       "ExecutionTrace.executed_code_objects['*']"],
             raises={"*": "True"}, ensures=[SAME], ensures_on_raise=[SAME],
             returns=("tuple[SutValue,SutValue,SutValue,SutValue]" if m_ == "_extract_arguments" else None))

# -- the decorator: the wrapped recorder is skipped only while tracing is disabled ------------------------------
klass("pyvc.ghost:RecorderFn", fields={}, ghost={"g_calls": "int"})
contract("pyvc.ghost:RecorderFn.__call__", mode="assume", sig={"self": "RecorderFn"},
         modifies=["self.g_calls", ENABLED], raises={"*": "True"},
         ensures=["self.g_calls == old(self.g_calls) + 1"], ensures_on_raise=["self.g_calls == old(self.g_calls) + 1"])
contract(f"{T}:{ET}.check", mode="assume", raises={"TracingAbortedException": "True"})
contract(f"{T}:_early_return.wrapper", sig={"self": ET}, closure={"func": "RecorderFn"},
         modifies=["func.g_calls", ENABLED], raises={"*": "True"},
         ensures=["implies(old(self._thread_local_state.enabled), func.g_calls == old(func.g_calls) + 1)",
                  "implies(not old(self._thread_local_state.enabled), func.g_calls == old(func.g_calls))"],
         ensures_on_raise=["old(self._thread_local_state.enabled)"])   # a disabled tracer never raises here


# ---------------------------------------------------------------------------------------------------------------
def witness_cm(method="temporarily_disable"):
    """Replay: a traced comparison whose user operator raises inside the context manager."""
    def run():
        from pynguin.instrumentation.tracer import ExecutionTracer
        tracer = ExecutionTracer()
        tracer.enable() if method == "temporarily_disable" else tracer.disable()
        before = tracer.is_disabled()
        try:
            with getattr(tracer, method)():
                raise ValueError("raised by user code inside the traced comparison")
        except ValueError:
            pass
        after = tracer.is_disabled()
        return {"fails": before != after,
                "scenario": f"ExecutionTracer().{method}() around a body that raises ValueError",
                "is_disabled_before": before, "is_disabled_after": after}
    return run


# ---------------------------------------------------------------------------------------------------------------
# native replay: a real tracer, and values of the module under test whose operators / attributes raise
from pyvc.enumerate import sampler  # noqa: E402
from pyvc.replay import NATIVE_HELPERS, builder  # noqa: E402


class _Raiser:
    """A user object every operation on which raises (and is meant to be caught by the module under test)."""

    def __eq__(self, other):
        raise ValueError("user __eq__ raises")

    def __lt__(self, other):
        raise ValueError("user __lt__ raises")

    __le__ = __gt__ = __ge__ = __ne__ = __lt__
    __hash__ = None

    def __bool__(self):
        raise ValueError("user __bool__ raises")

    def __len__(self):
        raise ValueError("user __len__ raises")

    def __contains__(self, item):
        raise ValueError("user __contains__ raises")

    def __getattr__(self, name):
        raise AttributeError(f"user attribute {name} raises")

    def __repr__(self):
        return "<Raiser>"


@sampler("opaque:SutValue")
def _s_sut(sc):
    return sc.rnd.choice([_Raiser(), _Raiser(), 1, "a", [1], None, 2.5])


@builder("TracerLocalState")
def _b_tls(f, ctx):
    from pynguin.instrumentation.tracer import ExecutionTracer
    s_ = ExecutionTracer.TracerLocalState()
    s_.enabled = bool(f.get("enabled", True))
    return s_


@builder("ExecutionTrace")
def _b_etrace(f, ctx):
    from pynguin.instrumentation.tracer import ExecutionTrace
    return ExecutionTrace()


@builder("ExecutionTracer")
def _b_tracer(f, ctx):
    import threading
    from pynguin.instrumentation.tracer import ExecutionTracer
    t_ = ExecutionTracer()
    t_._current_thread_identifier = threading.current_thread().ident
    st_ = f.get("_thread_local_state")
    if st_ is not None:
        t_._thread_local_state.enabled = st_.enabled
    return t_


NATIVE_HELPERS["typeis"] = lambda x, name: type(x).__name__ == name
NATIVE_HELPERS["PynguinCompare"] = __import__("pynguin.instrumentation", fromlist=["x"]).PynguinCompare

WITNESS = {
    "AbstractExecutionTracer.temporarily_disable/post-exc": witness_cm("temporarily_disable"),
    "AbstractExecutionTracer.temporarily_enable/post-exc": witness_cm("temporarily_enable"),
}


def classify(g):
    return "exception-at-yield" if "post-exc" in g["oid"] else ""
