"""C19 — generated regression assertions are kept in the exported file."""
from pyvc.contracts import assumption, contract, for_property, klass, loop, predicate

for_property("C19")
TC = "pynguin.testcase.testcase"
EX = "pynguin.testcase.export"

klass("pynguin.assertion.assertion:Assertion", fields={})
klass(f"{TC}:Statement", fields={
    "node": "CstNode", "bound_variable": "Optional[str]", "bound_type": "Optional[PyType]",
    "assertions": "list[Assertion]", "accessible": "Optional[GenericAccessibleObject]",
    "ml_info": "Optional[MLStatementInfo]", "local_search_applied": "bool", "_used_vars": "Optional[frozenset[str]]"})
klass(f"{TC}:TestCase", fields={
    "_statements": "list[Statement]", "_code_cache": "Optional[str]", "_var_counter": "int"})

# the oracle payload of a statement: its assertions (same objects, same order) and what they are attached to
predicate("same_oracles(s_new, s_old_assertions, s_old_accessible, s_old_ml)",
          "same(s_new.assertions, s_old_assertions) and same(s_new.accessible, s_old_accessible) and "
          "same(s_new.ml_info, s_old_ml)")

contract(f"{TC}:TestCase.remove_unused_variables",
         modifies=["self._statements", "self._code_cache", "Statement._used_vars['*']"],
         ensures=[
             "len(self._statements) == len(old(self._statements))",
             # every statement keeps exactly its assertions, accessible object and ML info
             "all(same(self._statements[j].assertions, old(self._statements[j].assertions)) "
             "    for j in range(len(self._statements)))",
             "all(same(self._statements[j].accessible, old(self._statements[j].accessible)) and "
             "    same(self._statements[j].ml_info, old(self._statements[j].ml_info)) "
             "    for j in range(len(self._statements)))",
             # a binding is never invented, and the node changes only where the binding was dropped
             "all(self._statements[j].bound_variable is None or "
             "    same(self._statements[j].bound_variable, old(self._statements[j].bound_variable)) "
             "    for j in range(len(self._statements)))",
         ])
loop(f"{TC}:TestCase.remove_unused_variables", 0, invariant=[
    "len(self._statements) == len(old(self._statements))",
    "all(same(self._statements[j].assertions, old(self._statements[j].assertions)) "
    "    for j in range(len(self._statements)))",
    "all(same(self._statements[j].accessible, old(self._statements[j].accessible)) "
    "    for j in range(len(self._statements)))",
    "all(same(self._statements[j].ml_info, old(self._statements[j].ml_info)) "
    "    for j in range(len(self._statements)))",
    "all(self._statements[j].bound_variable is None or "
    "    same(self._statements[j].bound_variable, old(self._statements[j].bound_variable)) "
    "    for j in range(len(self._statements)))",
    # statements not yet visited (the loop runs from the end) are untouched
    "all(self._statements[j] is old(self._statements[j]) for j in range(len(self._statements) - _i))",
])


# ---------------------------------------------------------------------------------------------------------------
# export (TestSuiteWriter._build_test_function): the emitted body is [node_0, asserts of stmt 0..., node_1, ...].
# The deductive formulation ("for every statement j and assertion k with a rendering there is a position p in the
# body ...", a forall-forall-exists over two nested loops) was tried and stays undecided in z3 and cvc5 (timeouts on
# the invariant-preservation steps), so this function is covered by a bounded stand-in only, labelled as such.
import itertools  # noqa: E402

from pyvc.bounded import Part, guarded  # noqa: E402


def _export_cases(tier):
    import libcst as cst
    import pynguin.assertion.assertion as ass
    from pynguin.testcase.testcase import Statement, TestCase
    kinds = ["obj", "obj-dup", "float", "len", "exc", "none"]
    nst = 3 if tier == "thorough" else 2
    for n in range(1, nst + 1):
        for combo in itertools.product(itertools.product(kinds, repeat=2), repeat=n):
            for excs in itertools.product([None, ValueError], repeat=n):
                tc = TestCase()
                expected = []
                for i, (k1, k2) in enumerate(combo):
                    var = f"var_{i}"
                    asserts = []
                    for k in (k1, k2):
                        if k == "obj":
                            asserts.append(ass.ObjectAssertion(var, i))
                        elif k == "obj-dup":
                            asserts.append(ass.ObjectAssertion("var_0", 0))     # equal to an assertion emitted earlier
                        elif k == "float":
                            asserts.append(ass.FloatAssertion(var, 1.5))
                        elif k == "len":
                            asserts.append(ass.CollectionLengthAssertion(var, 0))
                        elif k == "exc":
                            asserts.append(ass.ExceptionAssertion("builtins", "ValueError"))
                    tc.add_statement(Statement(node=cst.parse_statement(f"{var} = {i}"), bound_variable=var,
                                               bound_type=int, assertions=asserts))
                    expected.append((var, [a for a in asserts if not isinstance(a, ass.ExceptionAssertion)]))
                yield tc, list(excs), expected


def _check_export(part: Part, tier, seed):
    import libcst as cst
    from pynguin.assertion.assertion_to_ast import assertion_to_cst
    from pynguin.testcase.export import TestSuiteWriter
    writer = TestSuiteWriter()
    for tc, excs, expected in _export_cases(tier):
        part.case(any(a for _, a in expected))
        func, _ = writer._build_test_function(0, tc, excs)   # noqa: SLF001
        lines = [ln.strip() for ln in cst.Module(body=[func]).code.splitlines()]
        body = [ln for ln in lines if ln and not ln.startswith(("def ", "@", "with "))]
        want = []
        for var, asserts in expected:
            want.append(next(ln for ln in body if ln.startswith(f"{var} =")))
            want += [cst.Module(body=[assertion_to_cst(a)]).code.strip() for a in asserts]
        if body != want:
            part.violation("every assertion attached to a statement is emitted right after that statement, in order",
                           "export-drops-or-reorders-assertion",
                           {"test_case": tc.to_code(), "assertions": repr([(v, [repr(a) for a in al]) for v, al in expected]),
                            "exception_types": repr(excs), "expected_body": want, "emitted_body": body},
                           target=f"{EX}:TestSuiteWriter._build_test_function")


def bounded_export(tier, seed):
    p = Part("C19", "export-keeps-assertions", [f"{EX}:TestSuiteWriter._build_test_function"],
             scope="all test cases of 1..%d statements `var_i = i`, each with every pair of assertion kinds from "
                   "{object, object equal to an earlier one, float, length, exception, none}, x expected-exception "
                   "pattern {None, ValueError} per statement" % (3 if tier == "thorough" else 2),
             bound="statements <= %d, assertions per statement <= 2" % (3 if tier == "thorough" else 2))
    return guarded(p, _check_export, tier, seed)


_BANK = "c19_bank"
_BANK_SRC = '''
class Account:
    def __init__(self, balance):
        self.balance = balance
        self.log = []

    def deposit(self, amount):
        self.balance += amount
        self.log.append(amount)
        return self.balance
'''


def _suite_templates(alias):
    """Test cases whose statements coincide once unused bindings are stripped but whose assertions differ, next to ordinary ones."""
    import pynguin.assertion.assertion as ass
    O, L = ass.ObjectAssertion, ass.CollectionLengthAssertion
    return {
        "used-result": ([("var_0 = 10", "var_0", int), (f"var_1 = {alias}.Account(var_0)", "var_1", None), ("var_2 = 5", "var_2", int),
                         ("var_3 = var_1.deposit(var_2)", "var_3", int)],
                        {1: [O("var_1.balance", 10)], 3: [O("var_3", 15), O("var_1.balance", 15)]}),
        "unused-result-a": ([("var_0 = 7", "var_0", int), (f"var_1 = {alias}.Account(var_0)", "var_1", None),
                             ("var_2 = var_1.deposit(var_0)", "var_2", int)], {2: [O("var_1.balance", 14)]}),
        "unused-result-b": ([("var_0 = 7", "var_0", int), (f"var_1 = {alias}.Account(var_0)", "var_1", None),
                             ("var_5 = var_1.deposit(var_0)", "var_5", int)], {2: [O("var_1.balance", 14), L("var_1.log", 1)]}),
        "unused-result-c": ([("var_0 = 7", "var_0", int), (f"var_1 = {alias}.Account(var_0)", "var_1", None),
                             ("var_9 = var_1.deposit(var_0)", "var_9", int)], {1: [L("var_1.log", 0)]}),
        "asserted-result": ([("var_0 = 7", "var_0", int), (f"var_1 = {alias}.Account(var_0)", "var_1", None),
                             ("var_4 = var_1.deposit(var_0)", "var_4", int)], {2: [O("var_4", 14)]}),
        # an unused literal statement that carries an oracle about another object (the assertion observer attaches what it
        # sees first after a statement to that statement)
        "literal-with-foreign-oracle": ([("var_0 = 10", "var_0", int), (f"var_1 = {alias}.Account(var_0)", "var_1", None), ("var_7 = 5", "var_7", int),
                                         ("var_8 = 'unused'", "var_8", str)],
                                        {2: [O("var_1.balance", 10)], 3: [L("var_1.log", 0), O("var_8", "unused")]}),
        # an oracle at the end of a chain of five dependent statements (the statement minimizers must protect the whole chain)
        "deep-chain": ([("var_0 = 3", "var_0", int), (f"var_1 = {alias}.Account(var_0)", "var_1", None), ("var_2 = var_1.deposit(var_0)", "var_2", int),
                        ("var_3 = var_1.deposit(var_2)", "var_3", int), ("var_4 = var_1.deposit(var_3)", "var_4", int),
                        ("var_5 = var_1.deposit(var_4)", "var_5", int)], {5: [O("var_5", 48)]}),
        "no-assertions": ([("var_0 = 7", "var_0", int), (f"var_1 = {alias}.Account(var_0)", "var_1", None),
                           ("var_6 = var_1.deposit(var_0)", "var_6", int)], {}),
    }


class _ConstantCoverage:
    """a coverage function whose value no statement of a test case influences"""

    def compute_coverage(self, suite):   # noqa: ARG002
        return 1.0


def _check_suite_export(part: Part, tier, seed):
    import ast as _ast, shutil, sys, tempfile  # noqa: E401
    from pathlib import Path
    import libcst as cst
    import pynguin.ga.postprocess as pp
    import pynguin.ga.testcasechromosome as tcc
    import pynguin.ga.testsuitechromosome as tsc
    import pynguin.testcase.testcase as tcm
    from pynguin.assertion.assertion_to_ast import assertion_to_cst
    from pynguin.testcase.export import TestSuiteWriter
    from pynguin.utils.naming import get_module_alias
    alias = get_module_alias(_BANK)
    tmp = Path(tempfile.mkdtemp(prefix="c19_"))
    (tmp / f"{_BANK}.py").write_text(_BANK_SRC)
    sys.path.insert(0, str(tmp))
    norm = lambda code: _ast.unparse(_ast.parse(code)).strip()   # noqa: E731
    try:
        templates = _suite_templates(alias)
        sizes = (1, 2, 3) if tier == "thorough" else (1, 2)
        k = 0
        for r in sizes:
            for combo in itertools.permutations(templates, r):
                for postprocess in (False, True, "forward", "backward"):
                    if postprocess in ("forward", "backward") and r > 1 and "deep-chain" not in combo:
                        continue          # (the statement minimizers: every single template, and the suites with the deep chain)
                    k += 1
                    part.case()
                    suite = tsc.TestSuiteChromosome()
                    for name in combo:
                        stmts, asserts = templates[name]
                        t = tcm.TestCase()
                        for i, (code, var, typ) in enumerate(stmts):
                            t.add_statement(tcm.Statement(node=cst.parse_module(code + "\n").body[0], bound_variable=var, bound_type=typ,
                                                          assertions=list(asserts.get(i, []))))
                        suite.add_test_case_chromosome(tcc.TestCaseChromosome(t))
                    if postprocess:
                        suite.accept(pp.AssertionMinimization())
                    # what is attached to the test cases after assertion generation and minimization (per statement source);
                    # the post-processing below and the export may strip bindings, never an oracle
                    attached = []
                    for ch in suite.test_case_chromosomes:
                        attached.append([(norm(cst.Module(body=[s.node]).code).split("=", 1)[-1].strip(),
                                          [norm(cst.Module(body=[assertion_to_cst(a)]).code) for a in s.assertions])
                                         for s in ch.test_case.statements()])
                    if postprocess is True:
                        suite.accept(pp.TestCasePostProcessor([pp.UnusedStatementsTestCaseVisitor()]))
                    elif postprocess:
                        # statement minimization as the generator runs it, with a coverage function no statement contributes to:
                        # everything the assertions do not protect goes, the oracles and what they depend on must stay
                        from pynguin.utils.orderedset import OrderedSet
                        vis = pp.ForwardIterativeMinimizationVisitor if postprocess == "forward" else pp.BackwardIterativeMinimizationVisitor
                        suite.accept(pp.TestCasePostProcessor([pp.UnusedStatementsTestCaseVisitor(), vis(OrderedSet([_ConstantCoverage()])),
                                                               pp.UnusedStatementsTestCaseVisitor()]))
                    out = TestSuiteWriter().write(suite, _BANK, tmp / f"out{k}", project_path=str(tmp), format_with_black=False)
                    funcs = []
                    for node in _ast.parse(out.read_text(encoding="utf-8")).body:
                        if isinstance(node, _ast.FunctionDef) and node.name.startswith("test_"):
                            layout = []
                            for ch in node.body:
                                if isinstance(ch, _ast.Assert) and layout:
                                    layout[-1][1].append(_ast.unparse(ch).strip())
                                else:
                                    layout.append((_ast.unparse(ch).strip(), []))
                            funcs.append(layout)
                    for idx, want in enumerate(attached):
                        wanted = [(v, a) for v, a in want if a]
                        best = None
                        for layout in funcs:
                            missing = []
                            pos = 0
                            for rhs, asserts in wanted:
                                # the statement that evaluates the same expression, in order
                                var = rhs
                                hit = next((j for j in range(pos, len(layout)) if layout[j][0].split("=", 1)[-1].strip() == rhs), None)
                                if hit is None:
                                    missing += [(var, a) for a in asserts]
                                    continue
                                pos = hit
                                missing += [(var, a) for a in asserts if a not in layout[hit][1]]
                            if best is None or len(missing) < len(best):
                                best = missing
                        if best is None:
                            best = [(v, a) for v, al in wanted for a in al]
                        if best:
                            part.violation("every assertion attached to a test case appears, for the same statement, in an exported test function",
                                           "suite-export-drops-assertion:" + ("after-postprocessing" if postprocess is True else str(postprocess or "plain")),
                                           {"suite": list(combo), "postprocessing": postprocess, "test_case_index": idx,
                                            "assertions_in_no_exported_function": best, "exported_functions": len(funcs)},
                                           target=f"{EX}:TestSuiteWriter.write")
    finally:
        sys.path.remove(str(tmp))
        sys.modules.pop(_BANK, None)
        shutil.rmtree(tmp, ignore_errors=True)


def bounded_suite_export(tier, seed):
    p = Part("C19", "suite-export", [f"{EX}:TestSuiteWriter.write", f"{TC}:TestCase.remove_unused_variables",
                                     "pynguin.ga.postprocess:AssertionMinimization", "pynguin.ga.postprocess:UnusedStatementsTestCaseVisitor"],
             scope="the real TestSuiteWriter.write (with and without AssertionMinimization + UnusedStatementsTestCaseVisitor before it) on "
                   "every ordered selection of <= 2 (thorough 3) of 6 test cases over a small class: results used later, results "
                   "never read (three of them identical once the unused binding is stripped, with different assertions), a result "
                   "that is only asserted, a test case without assertions; the written file is parsed and every attached assertion "
                   "must follow the statement it belongs to in some exported function",
             bound="suites of <= 2 (3) test cases out of 8 templates; the forward and backward statement minimizers (with a coverage "
                   "function no statement contributes to) on every single template and on the suites that contain the five-statement chain")
    return guarded(p, _check_suite_export, tier, seed)


BOUNDED = [bounded_export, bounded_suite_export]
META = {"rule": "obligations: one per contract clause/site of TestCase.remove_unused_variables; bounded part: one case "
                "per enumerated (test case, exception pattern); non-trivial = at least one renderable assertion"}


def witness_dropped():
    """var_0 = 1 with an ObjectAssertion on var_0, variable unused later."""
    import libcst as cst
    import pynguin.assertion.assertion as ass
    from pynguin.testcase.testcase import Statement, TestCase
    tc = TestCase()
    a = ass.ObjectAssertion("var_0", 1)
    tc.add_statement(Statement(node=cst.parse_statement("var_0 = 1"), bound_variable="var_0", bound_type=int,
                               assertions=[a]))
    before = list(tc.statements()[0].assertions)
    tc.remove_unused_variables()
    after = list(tc.statements()[0].assertions)
    return {"fails": before != after, "scenario": "TestCase: `var_0 = 1` carrying ObjectAssertion('var_0', 1); "
            "remove_unused_variables()", "assertions_before": repr(before), "assertions_after": repr(after),
            "code_after": tc.to_code()}


WITNESS = {"TestCase.remove_unused_variables/inv-step": witness_dropped,
           "TestCase.remove_unused_variables/post": witness_dropped}


def classify(g):
    return "assertions-dropped-on-rebuild" if "remove_unused_variables" in g["oid"] else ""
