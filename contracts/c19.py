"""C19 — generated regression assertions are kept in the exported file."""
from pyvc.contracts import assumption, contract, for_property, klass, loop, predicate

for_property("C19")
TC = "pynguin.testcase.testcase"
EX = "pynguin.testcase.export"

klass("pynguin.assertion.assertion:Assertion", fields={})
klass(f"{TC}:Statement", fields={
    "node": "CstNode", "bound_variable": "Optional[str]", "bound_type": "Optional[PyType]",
    "assertions": "list[Assertion]", "accessible": "Optional[GenericAccessibleObject]",
    "ml_info": "Optional[MLStatementInfo]", "local_search_applied": "bool", "_used_vars": "Optional[frozenset[str]]"})
klass(f"{TC}:TestCase", fields={
    "_statements": "list[Statement]", "_code_cache": "Optional[str]", "_var_counter": "int"})

# the oracle payload of a statement: its assertions (same objects, same order) and what they are attached to
predicate("same_oracles(s_new, s_old_assertions, s_old_accessible, s_old_ml)",
          "same(s_new.assertions, s_old_assertions) and same(s_new.accessible, s_old_accessible) and "
          "same(s_new.ml_info, s_old_ml)")

contract(f"{TC}:TestCase.remove_unused_variables",
         modifies=["self._statements", "self._code_cache", "Statement._used_vars['*']"],
         ensures=[
             "len(self._statements) == len(old(self._statements))",
             # every statement keeps exactly its assertions, accessible object and ML info
             "all(same(self._statements[j].assertions, old(self._statements[j].assertions)) "
             "    for j in range(len(self._statements)))",
             "all(same(self._statements[j].accessible, old(self._statements[j].accessible)) and "
             "    same(self._statements[j].ml_info, old(self._statements[j].ml_info)) "
             "    for j in range(len(self._statements)))",
             # a binding is never invented, and the node changes only where the binding was dropped
             "all(self._statements[j].bound_variable is None or "
             "    same(self._statements[j].bound_variable, old(self._statements[j].bound_variable)) "
             "    for j in range(len(self._statements)))",
         ])
loop(f"{TC}:TestCase.remove_unused_variables", 0, invariant=[
    "len(self._statements) == len(old(self._statements))",
    "all(same(self._statements[j].assertions, old(self._statements[j].assertions)) "
    "    for j in range(len(self._statements)))",
    "all(same(self._statements[j].accessible, old(self._statements[j].accessible)) "
    "    for j in range(len(self._statements)))",
    "all(same(self._statements[j].ml_info, old(self._statements[j].ml_info)) "
    "    for j in range(len(self._statements)))",
    "all(self._statements[j].bound_variable is None or "
    "    same(self._statements[j].bound_variable, old(self._statements[j].bound_variable)) "
    "    for j in range(len(self._statements)))",
    # statements not yet visited (the loop runs from the end) are untouched
    "all(self._statements[j] is old(self._statements[j]) for j in range(len(self._statements) - _i))",
])


def witness_dropped():
    """var_0 = 1 with an ObjectAssertion on var_0, variable unused later."""
    import libcst as cst
    import pynguin.assertion.assertion as ass
    from pynguin.testcase.testcase import Statement, TestCase
    tc = TestCase()
    a = ass.ObjectAssertion("var_0", 1)
    tc.add_statement(Statement(node=cst.parse_statement("var_0 = 1"), bound_variable="var_0", bound_type=int,
                               assertions=[a]))
    before = list(tc.statements()[0].assertions)
    tc.remove_unused_variables()
    after = list(tc.statements()[0].assertions)
    return {"fails": before != after, "scenario": "TestCase: `var_0 = 1` carrying ObjectAssertion('var_0', 1); "
            "remove_unused_variables()", "assertions_before": repr(before), "assertions_after": repr(after),
            "code_after": tc.to_code()}


WITNESS = {"TestCase.remove_unused_variables/inv-step": witness_dropped,
           "TestCase.remove_unused_variables/post": witness_dropped}


def classify(g):
    return "assertions-dropped-on-rebuild" if "remove_unused_variables" in g["oid"] else ""
