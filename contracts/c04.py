"""C04 — branch distances are non-negative, not NaN, and zero exactly for the outcome taken."""
from pyvc.contracts import assumption, auto_inline, contract, for_property, klass, loop, predicate

for_property("C04")
TR = "pynguin.instrumentation.tracer"
TU = "pynguin.utils.type_utils"
auto_inline(f"{TU}:is_numeric", f"{TU}:is_string", f"{TU}:is_bytes")     # one-line isinstance tests

assumption("floats are IEEE-754 binary64 with round-to-nearest-even (z3 FP theory); ints are mathematical; float(int) and "
           "int-float arithmetic convert the int with correct rounding and raise OverflowError beyond 2**1024 - 2**970; "
           "int-float comparisons are exact (CPython)")

# ---- numbers: the same real functions under every pairing of int / bool / float operands -----------------------------
NUM = [("int", "int"), ("fp", "fp"), ("int", "fp"), ("fp", "int"), ("bool", "fp"), ("int", "bool")]
DIST = ["not isnan(result)", "result >= 0"]
for a, b in NUM:
    v = f"@{a}_{b}"
    sig = {"val1": a, "val2": b}
    contract(f"{TR}:_numeric_gap{v}", sig=sig, returns="fp", fp=True,
             ensures=["not isnan(result)", "result > 0"])                    # and: raises nothing
    contract(f"{TR}:_eq{v}", sig=sig, returns="fp", fp=True, ensures=DIST + ["(result == 0) == (val1 == val2)"])
    contract(f"{TR}:_neq{v}", sig=sig, returns="fp", fp=True, ensures=DIST + ["(result == 0) == (val1 != val2)"])
    contract(f"{TR}:_lt{v}", sig=sig, returns="fp", fp=True, ensures=DIST + ["(result == 0) == (val1 < val2)"])
    contract(f"{TR}:_le{v}", sig=sig, returns="fp", fp=True, ensures=DIST + ["(result == 0) == (val1 <= val2)"])

# ---- strings: the character-distance helpers of type_utils are assumed here and checked by the bounded part below ---------
contract(f"{TU}:string_distance", mode="assume", sig={"string1": "str", "string2": "str"}, returns="fp",
         ensures=DIST + ["(result == 0) == (string1 == string2)"])
contract(f"{TU}:string_lt_distance", mode="assume", sig={"string1": "str", "string2": "str"}, returns="int",
         ensures=["result >= 0", "(result == 0) == (string1 < string2)"])
contract(f"{TU}:string_le_distance", mode="assume", sig={"string1": "str", "string2": "str"}, returns="int",
         ensures=["result >= 0", "(result == 0) == (string1 <= string2)"])
SS = {"val1": "str", "val2": "str"}
contract(f"{TR}:_eq@str_str", sig=SS, returns="fp", fp=True, ensures=DIST + ["(result == 0) == (val1 == val2)"])
contract(f"{TR}:_neq@str_str", sig=SS, returns="fp", fp=True, ensures=DIST + ["(result == 0) == (val1 != val2)"])
contract(f"{TR}:_lt@str_str", sig=SS, returns="fp", fp=True, ensures=DIST + ["(result == 0) == (val1 < val2)"])
contract(f"{TR}:_le@str_str", sig=SS, returns="fp", fp=True, ensures=DIST + ["(result == 0) == (val1 <= val2)"])
# operands of different kinds: == is False, ordering raises TypeError (the comparison itself raises)
for a, b in (("int", "str"), ("str", "fp")):
    sig = {"val1": a, "val2": b}
    contract(f"{TR}:_eq@{a}_{b}", sig=sig, returns="fp", fp=True, ensures=DIST + ["result > 0"])
    contract(f"{TR}:_neq@{a}_{b}", sig=sig, returns="fp", fp=True, ensures=["result == 0"])

# ---- membership in a list of ints: the minimum over the element distances ---------------------------------------------------
IL = {"val1": "int", "val2": "list[int]"}
contract(f"{TR}:_in@int_list", sig=IL, returns="fp", fp=True, ensures=DIST + ["(result == 0) == (val1 in val2)"])
contract(f"{TR}:_nin@int_list", sig=IL, returns="fp", fp=True, ensures=DIST + ["(result == 0) == (val1 not in val2)"])

# ---- arbitrary values of the module under test: every operation on them has an unknown result and may raise ---------------
SV = "SutValue"
ANY = {"val1": SV, "val2": SV}
for fn_ in ("_eq", "_neq", "_lt", "_le", "_in", "_nin", "_is", "_isn"):
    # the un-suffixed contract: what the recorders may rely on for values of unknown type; verified on the same code
    contract(f"{TR}:{fn_}", sig=ANY, returns="fp", fp=True, opaque_raise=True, raises={"*": "True"}, ensures=DIST)
contract(f"{TR}:_numeric_gap", sig=ANY, returns="fp", fp=True, opaque_raise=True, raises={"*": "True"},
         ensures=["not isnan(result)", "result > 0"])
# the opposite outcome: 0.0 exactly when the evaluated comparison's distance is positive
klass("pyvc.ghost:DistanceFn", fields={})
contract("pyvc.ghost:DistanceFn.__call__", mode="assume", sig={"self": "DistanceFn", "a": SV, "b": SV}, returns="fp",
         raises={"*": "True"}, ensures=DIST)
contract(f"{TR}:_opposite", sig={"distance": "fp", "opposite": "DistanceFn", "val1": SV, "val2": SV}, returns="fp", fp=True,
         requires=["not isnan(distance)", "distance >= 0"], raises={"*": "True"},
         ensures=DIST + ["(result == 0) == (distance > 0)"])

# ---- the recorders: what reaches the trace obeys the laws (they are the precondition of _update_metrics) -----------------
AET, ET = "AbstractExecutionTracer", "ExecutionTracer"
klass("pynguin.instrumentation:PynguinCompare")
klass(f"{TR}:ExecutionTrace", fields={})
klass(f"{TR}:TracerLocalState", fields={"enabled": "bool", "trace": "ExecutionTrace"})
klass(f"{TR}:{AET}", fields={})
klass(f"{TR}:{ET}", fields={"_thread_local_state": "TracerLocalState", "_current_thread_identifier": "Optional[int]"}, bases=[AET],
      ghost={"g_dt": "fp", "g_df": "fp"})        # ghost: the distances last handed to _update_metrics
auto_inline("pynguin.utils.typetracing:unwrap")
loop("pynguin.utils.typetracing:unwrap", 0, invariant=["True"])
contract(f"{TR}:{AET}.temporarily_disable", mode="assume", modifies=["TracerLocalState.enabled['*']"], raises={"*": "True"},
         note="context manager, verified under C05")
contract(f"{TR}:ExecutionTrace.update_predicate_distances", mode="assume",
         sig={"self": "ExecutionTrace", "distance_true": "fp", "distance_false": "fp", "predicate": "int"},
         modifies=["self.ALL"], note="min-merge into the trace, verified under C11")
LAWS = ["not isnan(distance_true) and not isnan(distance_false)", "distance_true >= 0 and distance_false >= 0",
        "(distance_true == 0) != (distance_false == 0)"]
contract(f"{TR}:{ET}._update_metrics", sig={"distance_false": "fp", "distance_true": "fp", "predicate": "int"}, fp=True,
         requires=LAWS, modifies=["self._thread_local_state.trace.ALL", "self.g_dt", "self.g_df"],
         ghost_updates={"self.g_dt": "distance_true", "self.g_df": "distance_false"},
         ensures=["self.g_dt == distance_true", "self.g_df == distance_false"])          # its own assertions never fire
NOASSERT = {"AssertionError": "False", "*": "True"}     # user operators may raise; the tracer's own assertions must not
CALLBACKS = {
    "executed_compare_predicate": {"value1": SV, "value2": SV, "predicate": "int", "cmp_op": "PynguinCompare"},
    "executed_bool_predicate": {"value": SV, "predicate": "int"},
    "executed_in_presence_predicate": {"value1": SV, "value2": SV, "predicate": "int"},
    "executed_exception_match": {"err": SV, "exc": SV, "predicate": "int"},
}
for m_, sig_ in CALLBACKS.items():
    contract(f"{TR}:{ET}.{m_}", sig=sig_, fp=True, opaque_raise=True,
             # (exception matches have their own recorder: the instrumentation never passes EXC_MATCH here)
             raises=({"AssertionError": "cmp_op == PynguinCompare.EXC_MATCH", "*": "True"} if "cmp_op" in sig_ else NOASSERT),
             modifies=["TracerLocalState.enabled['*']", "self._thread_local_state.trace.ALL", "self.g_dt", "self.g_df"])
# typed operands: the distance recorded as 0.0 is the outcome of Python's own operator, for every comparison kind
PC_ = "PynguinCompare"
OUTCOME = [f"implies(cmp_op == {PC_}.{n}, (self.g_dt == 0) == (value1 {o} value2))"
           for n, o in (("LT", "<"), ("LE", "<="), ("EQ", "=="), ("NE", "!="), ("GT", ">"), ("GE", ">="))]
for a, b in (("int", "int"), ("fp", "fp"), ("int", "fp"), ("fp", "int"), ("str", "str")):
    contract(f"{TR}:{ET}.executed_compare_predicate@{a}_{b}", fp=True,
             sig={"value1": a, "value2": b, "predicate": "int", "cmp_op": PC_},
             requires=[f"cmp_op != {PC_}.EXC_MATCH and cmp_op != {PC_}.IN and cmp_op != {PC_}.NOT_IN"],
             raises={"*": "True"},       # (_opposite / temporarily_disable are used through their general contracts)
             modifies=["TracerLocalState.enabled['*']", "self._thread_local_state.trace.ALL", "self.g_dt", "self.g_df"],
             ensures=OUTCOME + ["(self.g_dt == 0) != (self.g_df == 0)"])
contract(f"{TR}:{ET}.executed_compare_predicate@int_list", fp=True,
         sig={"value1": "int", "value2": "list[int]", "predicate": "int", "cmp_op": PC_},
         requires=[f"cmp_op == {PC_}.IN or cmp_op == {PC_}.NOT_IN"], raises={"*": "True"},
         modifies=["TracerLocalState.enabled['*']", "self._thread_local_state.trace.ALL", "self.g_dt", "self.g_df"],
         ensures=[f"implies(cmp_op == {PC_}.IN, (self.g_dt == 0) == (value1 in value2))",
                  f"implies(cmp_op == {PC_}.NOT_IN, (self.g_dt == 0) == (value1 not in value2))",
                  "(self.g_dt == 0) != (self.g_df == 0)"])


# ==== bounded stand-in for the assumed string helpers (never counted as proved) =========================================
import itertools  # noqa: E402
import math  # noqa: E402

from pyvc.bounded import Part, guarded  # noqa: E402


def _check_strings(part: Part, tier, seed):
    from pynguin.instrumentation.tracer import _eq, _le, _lt, _neq
    from pynguin.utils.type_utils import string_distance, string_le_distance, string_lt_distance
    alpha = ["a", "b", "\x00", "\xff"] + (["Z", "é"] if tier == "thorough" else [])
    n = 3 if tier == "thorough" else 2
    words = [""] + ["".join(w) for k in range(1, n + 1) for w in itertools.product(alpha, repeat=k)]
    laws = [("string_distance", string_distance, lambda a, b: a == b), ("string_lt_distance", string_lt_distance, lambda a, b: a < b),
            ("string_le_distance", string_le_distance, lambda a, b: a <= b), ("_eq", _eq, lambda a, b: a == b),
            ("_neq", _neq, lambda a, b: a != b), ("_lt", _lt, lambda a, b: a < b), ("_le", _le, lambda a, b: a <= b)]
    for a, b in itertools.product(words, repeat=2):
        for conv, kind in ((lambda s: s, "str"), (lambda s: s.encode("iso-8859-1"), "bytes")):
            if kind == "bytes" and any(ord(c) > 255 for c in a + b):
                continue
            x, y = conv(a), conv(b)
            for name, fn, truth_ in laws:
                if kind == "bytes" and name.startswith("string_"):
                    continue
                part.case(a != b)
                try:
                    d = fn(x, y)
                except Exception as ex:  # noqa: BLE001
                    part.violation(f"{name} raises although the comparison does not", f"{name}-raises",
                                   {"args": [repr(x), repr(y)], "exception": repr(ex)}, target=f"{TU}:{name}")
                    continue
                ok = (not (isinstance(d, float) and math.isnan(d))) and d >= 0 and ((d == 0) == bool(truth_(x, y)))
                if not ok:
                    part.violation(f"{name}: distance is >= 0, not NaN, and 0 exactly when the comparison holds", f"{name}-law",
                                   {"args": [repr(x), repr(y)], "distance": repr(d), "python_says": bool(truth_(x, y))},
                                   target=(f"{TU}:{name}" if name.startswith("string_") else f"{TR}:{name}"))


def bounded_strings(tier, seed):
    p = Part("C04", "string-distance-helpers", [f"{TU}:string_distance", f"{TU}:string_lt_distance", f"{TU}:string_le_distance"],
             scope="all pairs of strings (and their iso-8859-1 bytes) of length <= %d over {a, b, NUL, 0xff%s}: the three "
                   "helpers assumed by the proof, and _eq/_neq/_lt/_le on str and bytes operands" % (
                       (3, ", Z, é") if tier == "thorough" else (2, "")),
             bound="length <= %d" % (3 if tier == "thorough" else 2))
    return guarded(p, _check_strings, tier, seed)


BOUNDED = [bounded_strings]

# ==== native replay =====================================================================================================
from pyvc.enumerate import sampler  # noqa: E402
from pyvc.replay import NATIVE_HELPERS, builder  # noqa: E402

_BIG = [0, 1, -1, 2, 2 ** 53, 2 ** 53 + 1, -(2 ** 53) - 1, 2 ** 1024, 10 ** 400]
_FLO = [0.0, -0.0, 1.0, -1.0, 0.5, 2.0 ** 53, 5e-324, 1e308, -1e308, math.inf, -math.inf, math.nan]
SCOPE = {t: {"ints": _BIG, "floats": _FLO} for t in list(__import__("pyvc.contracts", fromlist=["REG"]).REG.contracts)
         if t.startswith(TR)}


class _TruthyEmpty:
    def __bool__(self):
        return True

    def __len__(self):
        return 0

    def __repr__(self):
        return "<truthy object of size 0>"


class _Raiser:
    def __eq__(self, other):
        raise ValueError("user __eq__ raises")

    __lt__ = __le__ = __gt__ = __ge__ = __ne__ = __contains__ = __eq__
    __hash__ = None

    def __bool__(self):
        raise ValueError("user __bool__ raises")

    def __repr__(self):
        return "<Raiser>"


@sampler("opaque:SutValue")
def _s_sut(sc):
    r = sc.rnd
    return r.choice([r.choice(_BIG), r.choice(_FLO), r.choice(["", "a", "b", "ab"]), r.choice([b"", b"a"]), {1}, {1, 2}, frozenset(),
                     [1], [math.nan], (), None, True, 1 + 2j, _TruthyEmpty(), _Raiser(), ValueError, ValueError("x"), KeyError,
                     # one-shot iterators (a membership test consumes them up to the hit)
                     iter([0, 1]), iter([1]), (x for x in (2, 0, -1)), iter("ab"), reversed([1, 0])])


@builder("ExecutionTrace")
def _b_etrace(f, ctx):
    from pynguin.instrumentation.tracer import ExecutionTrace
    return ExecutionTrace()


@builder("TracerLocalState")
def _b_tls(f, ctx):
    from pynguin.instrumentation.tracer import ExecutionTracer
    return ExecutionTracer.TracerLocalState()


@builder("ExecutionTracer")
def _b_tracer(f, ctx):
    import threading
    from pynguin.instrumentation.tracer import ExecutionTracer
    t_ = ExecutionTracer()
    t_._current_thread_identifier = threading.current_thread().ident     # noqa: SLF001
    return t_


NATIVE_HELPERS["PynguinCompare"] = __import__("pynguin.instrumentation", fromlist=["x"]).PynguinCompare
NATIVE_HELPERS["$enum:PynguinCompare"] = lambda m: NATIVE_HELPERS["PynguinCompare"][m]


def _native_recorder(name):
    """Run the real recorder on a fresh trace and give the ghost fields g_dt / g_df their native meaning: the distances
    that reached the trace for the predicate."""
    def run(self, **kw):
        from pynguin.instrumentation.tracer import ExecutionTrace
        self._thread_local_state.trace = ExecutionTrace()                      # noqa: SLF001
        self._thread_local_state.enabled = True                                # noqa: SLF001
        getattr(self, name)(**kw)
        tr_ = self._thread_local_state.trace                                   # noqa: SLF001
        self.g_dt = tr_.true_distances.get(kw["predicate"])
        self.g_df = tr_.false_distances.get(kw["predicate"])
    return run


NATIVE = {t: _native_recorder("executed_compare_predicate") for t in list(SCOPE) if "executed_compare_predicate@" in t}
