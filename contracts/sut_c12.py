"""A tiny module under test: the native replay / bounded checks of C12 build real test cases against it."""


def triangle(a: int, b: int, c: int) -> str:
    if a == b == c:
        return "equilateral"
    if a == b or b == c or a == c:
        return "isosceles"
    return "scalene"


def half(x: float) -> float:
    return x / 2


class Counter:
    def __init__(self, start: int) -> None:
        self.value = start

    def bump(self, by: int) -> int:
        self.value += by
        return self.value
