"""C12 — cached fitness and coverage values are never stale."""
from pyvc.contracts import assumption, auto_inline, contract, for_property, global_var, klass, loop, predicate, ufun

for_property("C12")
CC = "pynguin.ga.computation_cache"
CO = "pynguin.ga.operators.crossover"
CP = "pynguin.ga.computations"

klass("pynguin.testcase.testcase:TestCase", fields={}, ghost={"g_code": "int"})       # abstract content of a test case
klass(f"{CP}:FitnessFunction", fields={})
klass(f"{CP}:CoverageFunction", fields={})
klass("pynguin.ga.chromosome:Chromosome", fields={"changed": "bool", "computation_cache": "ComputationCache"},
      ghost={"g_content": "int"})                                                     # abstract content of a suite
klass("pynguin.ga.testcasechromosome:TestCaseChromosome", fields={"_test_case": "TestCase", "_test_factory": "Optional[TestFactory]",
                                                                      "_last_execution_result": "Optional[ExecutionResult]", "_num_mutations": "int"},
      bases=["Chromosome"])
klass("pynguin.ga.testsuitechromosome:TestSuiteChromosome", fields={"test_case_chromosomes": "list[TestCaseChromosome]",
                                                                        "test_case_chromosome_factory": "Optional[ChromosomeFactory]"},
      bases=["Chromosome"])
klass(f"{CC}:ComputationCache", fields={
    "_chromosome": "Chromosome", "_fitness_functions": "list[FitnessFunction]", "_coverage_functions": "list[CoverageFunction]",
    "_fitness_cache": "dict[FitnessFunction,float]", "_is_covered_cache": "dict[FitnessFunction,bool]",
    "_coverage_cache": "dict[CoverageFunction,float]"})

# deterministic fitness / coverage functions of the chromosome's *content* (the property's own assumption)
ufun("F", ["FitnessFunction", "int"], "float")
ufun("COV", ["CoverageFunction", "int"], "float")
assumption("fitness and coverage functions are deterministic functions of the chromosome's tests (F, COV); a goal is "
           "covered exactly when its fitness is 0 (C10) and fitness values are finite and >= 0, coverage in [0,1] (C10)")
predicate("content(c)", "ite(typeis(c, 'TestCaseChromosome'), c._test_case.g_code, c.g_content)")
predicate("vals_ok(k)",
          "all(k._fitness_cache[f] == F(f, content(k._chromosome)) for f in keys(k._fitness_cache)) and "
          "all(k._is_covered_cache[f] == (F(f, content(k._chromosome)) == 0) for f in keys(k._is_covered_cache)) and "
          "all(k._coverage_cache[g] == COV(g, content(k._chromosome)) for g in keys(k._coverage_cache))")
predicate("cache_ok(k)", "k._chromosome.changed or vals_ok(k)")
# the caches only hold registered functions and no function is registered twice
predicate("reg_ok(k)",
          "all(any(k._fitness_functions[i] is f for i in range(len(k._fitness_functions))) for f in keys(k._fitness_cache)) and "
          "all(any(k._fitness_functions[i] is f for i in range(len(k._fitness_functions))) for f in keys(k._is_covered_cache)) and "
          "all(any(k._coverage_functions[i] is g for i in range(len(k._coverage_functions))) for g in keys(k._coverage_cache)) and "
          # (tautologies: they name |set(funcs)| so that the finite-set facts relate it to |keys(cache)|; a function may
          #  well be registered twice - then len(cache) < len(funcs) for ever and every query recomputes)
          "len(set(k._fitness_functions)) <= len(k._fitness_functions) and "
          "len(set(k._coverage_functions)) <= len(k._coverage_functions)")

FVAL = ["not isnan(result) and not isinf(result) and result >= 0"]
contract(f"{CP}:FitnessFunction.compute_fitness", mode="assume", sig={"self": "FitnessFunction", "individual": "Chromosome"},
         returns="float", ensures=["result == F(self, content(individual))"] + FVAL)
contract(f"{CP}:FitnessFunction.compute_is_covered", mode="assume", sig={"self": "FitnessFunction", "individual": "Chromosome"},
         returns="bool", ensures=["result == (F(self, content(individual)) == 0)"])
contract(f"{CP}:FitnessFunction.is_maximisation_function", mode="assume", sig={"self": "FitnessFunction"}, returns="bool",
         ensures=["not result"])
contract(f"{CP}:CoverageFunction.compute_coverage", mode="assume", sig={"self": "CoverageFunction", "individual": "Chromosome"},
         returns="float", ensures=["result == COV(self, content(individual))", "not isnan(result) and 0 <= result and result <= 1"])

CACHES = ["self._fitness_cache", "self._is_covered_cache", "self._coverage_cache"]
FILL_REQ = ["vals_ok(self)",
            "only is None or any(self._fitness_functions[i] is only for i in range(len(self._fitness_functions)))", "reg_ok(self)"]
contract(f"{CC}:ComputationCache._compute_fitness", sig={"only": "Optional[FitnessFunction]"},
         requires=FILL_REQ, modifies=CACHES,
         ensures=["vals_ok(self)", "reg_ok(self)", "implies(only is not None, only in self._fitness_cache)",
                  "implies(only is None, all(self._fitness_functions[i] in self._fitness_cache for i in range(len(self._fitness_functions))))",
                  "keys(old(self._fitness_cache)) <= keys(self._fitness_cache)"])
contract(f"{CC}:ComputationCache._compute_is_covered", sig={"only": "Optional[FitnessFunction]"},
         requires=FILL_REQ, modifies=CACHES,
         ensures=["vals_ok(self)", "reg_ok(self)", "implies(only is not None, only in self._is_covered_cache)",
                  "keys(old(self._is_covered_cache)) <= keys(self._is_covered_cache)"])
contract(f"{CC}:ComputationCache._compute_coverage", sig={"only": "Optional[CoverageFunction]"},
         requires=["vals_ok(self)", "reg_ok(self)",
                   "only is None or any(self._coverage_functions[i] is only for i in range(len(self._coverage_functions)))"],
         modifies=CACHES,
         ensures=["vals_ok(self)", "reg_ok(self)", "implies(only is not None, only in self._coverage_cache)",
                  "keys(old(self._coverage_cache)) <= keys(self._coverage_cache)"])
for fn_ in ("_compute_fitness", "_compute_is_covered", "_compute_coverage"):
    loop(f"{CC}:ComputationCache.{fn_}", 0, invariant=[
        "vals_ok(self)", "reg_ok(self)",
        "keys(old(self._fitness_cache)) <= keys(self._fitness_cache)",
        "keys(old(self._is_covered_cache)) <= keys(self._is_covered_cache)",
        "keys(old(self._coverage_cache)) <= keys(self._coverage_cache)",
        "all(_seq[j] in " + {"_compute_fitness": "self._fitness_cache", "_compute_is_covered": "self._is_covered_cache",
                             "_compute_coverage": "self._coverage_cache"}[fn_] + " for j in range(_i))"])
contract(f"{CC}:ComputationCache.invalidate_cache", modifies=CACHES,
         ensures=["self._fitness_cache == {} and self._is_covered_cache == {} and self._coverage_cache == {}"])


# -- the public queries: the returned value is the recomputed one, the flag is cleared, no KeyError -----------------
auto_inline(f"{CC}:ComputationCache._check_cache")
Q_REQ = ["cache_ok(self)", "reg_ok(self)"]
contract(f"{CC}:ComputationCache.get_fitness_for",
         requires=Q_REQ + ["any(self._fitness_functions[i] is fitness_function for i in range(len(self._fitness_functions)))"],
         modifies=CACHES + ["self._chromosome.changed"],
         ensures=["result == F(fitness_function, content(self._chromosome))", "not self._chromosome.changed",
                  "vals_ok(self)", "reg_ok(self)"])
contract(f"{CC}:ComputationCache.get_is_covered",
         requires=Q_REQ + ["any(self._fitness_functions[i] is fitness_function for i in range(len(self._fitness_functions)))"],
         modifies=CACHES + ["self._chromosome.changed"],
         ensures=["result == (F(fitness_function, content(self._chromosome)) == 0)", "not self._chromosome.changed",
                  "vals_ok(self)", "reg_ok(self)"])
contract(f"{CC}:ComputationCache.get_coverage_for",
         requires=Q_REQ + ["any(self._coverage_functions[i] is coverage_function for i in range(len(self._coverage_functions)))"],
         modifies=CACHES + ["self._chromosome.changed"],
         ensures=["result == COV(coverage_function, content(self._chromosome))", "not self._chromosome.changed",
                  "vals_ok(self)", "reg_ok(self)"])


# ==== chromosome level: whatever changes the tests of a chromosome raises its `changed` flag ========================
OP = "pynguin.ga.operators"
TCM = "pynguin.testcase.testcase:TestCase"
TF = "pynguin.testcase.testfactory:TestFactory"
TCC = "pynguin.ga.testcasechromosome:TestCaseChromosome"
TSC = "pynguin.ga.testsuitechromosome:TestSuiteChromosome"
klass("pynguin.configuration:SearchAlgorithmConfiguration", fields={
    "chromosome_length": "int", "chop_max_length": "bool", "test_delete_probability": "float",
    "test_change_probability": "float", "test_insert_probability": "float", "statement_insertion_probability": "float",
    "change_statement_type_probability": "float", "test_insertion_probability": "float"})
klass("pynguin.configuration:TestCreationConfiguration", fields={"max_size": "int"})
klass("pynguin.configuration:Configuration", fields={"search_algorithm": "SearchAlgorithmConfiguration",
                                                      "test_creation": "TestCreationConfiguration"})
global_var("pynguin.configuration.configuration", "Configuration")
klass(f"{OP}.mutation:TestCaseMutation", fields={})
klass(f"{OP}.mutation:TestSuiteMutation", fields={})
global_var(f"{OP}.mutation._TEST_CASE_MUTATION", "TestCaseMutation")
global_var(f"{OP}.mutation._TEST_SUITE_MUTATION", "TestSuiteMutation")
klass("pynguin.testcase.testfactory:TestFactory", fields={})
klass("pynguin.testcase.execution_result:ExecutionResult", fields={})
klass("pynguin.testcase.testcase:Statement", fields={"bound_variable": "Optional[str]", "accessible": "Optional[GenericAccessibleObject]"})
klass("pynguin.utils.generic.genericaccessibleobject:GenericAccessibleObject", fields={})
klass("pynguin.utils.generic.genericaccessibleobject:GenericField", fields={}, bases=["GenericAccessibleObject"])

contract("pynguin.utils.randomness:next_float", mode="assume", sig={}, returns="float",
         ensures=["isfinite(result) and 0 <= result and result <= 1"])
# the libcst-based test case and the test factory are outside the verifier's reach: assumed contracts over the abstract
# content g_code.  A mutator that reports "nothing done" (False / -1) must have left the test case as it was.
assumption("TestCase.clone copies the content; TestCase/TestFactory mutators that return False (or an out-of-range position) "
           "leave the test case unchanged; has_call_on_sut/size/get_statement are pure (assumed contracts, see bounded check)")
contract(f"{TCM}.clone", mode="assume", sig={"self": "TestCase"}, returns="TestCase", fresh_result=True,
         ensures=["result.g_code == self.g_code"])
ufun("SIZE", ["int"], "int")
contract(f"{TCM}.size", mode="assume", sig={"self": "TestCase"}, returns="int", ensures=["result >= 0", "result == SIZE(self.g_code)"])
contract(f"{TCM}.__eq__", mode="assume", sig={"self": "TestCase", "other": "TestCase"}, returns="bool",
         ensures=["implies(result, self.g_code == other.g_code)"])      # equal statements => equal content
contract(f"{TCM}.get_statement", mode="assume", sig={"self": "TestCase", "position": "int"}, returns="Statement")
contract(f"{TCM}.remove_statements_batch", mode="assume", sig={"self": "TestCase", "indices": "set[int]"},
         modifies=["self.g_code"])
contract(f"{TCM}.append_test_case_from", mode="assume", sig={"self": "TestCase", "other": "TestCase", "start": "int"},
         modifies=["self.g_code"])
contract(f"{TF}.has_call_on_sut", mode="assume", sig={"self": "TestFactory", "test_case": "TestCase"}, returns="bool")
for m_ in ("delete_statement_gracefully", "change_statement_type", "mutate_value", "change_random_field_call", "mutate_call",
           "change_random_call"):
    contract(f"{TF}.{m_}", mode="assume",
             sig=({"test_case": "TestCase", "position": "int"} if m_ == "delete_statement_gracefully"
                  else {"self": "TestFactory", "test_case": "TestCase", "position": "int"}),
             returns="bool", modifies=["test_case.g_code"],
             ensures=["implies(not result, test_case.g_code == old(test_case.g_code))"])
contract(f"{TF}.insert_random_statement", mode="assume", sig={"self": "TestFactory", "test_case": "TestCase", "position": "int"},
         returns="int", modifies=["test_case.g_code"],
         ensures=["implies(result < 0, test_case.g_code == old(test_case.g_code))", "result < SIZE(test_case.g_code)"])
ufun("HASEXC", ["ExecutionResult"], "bool")
contract("pynguin.testcase.execution_result:ExecutionResult.has_test_exceptions", mode="assume",
         sig={"self": "ExecutionResult"}, returns="bool", ensures=["result == HASEXC(self)"])
contract("pynguin.testcase.execution_result:ExecutionResult.get_first_position_of_thrown_exception", mode="assume",
         sig={"self": "ExecutionResult"}, returns="Optional[int]",     # min of the recorded statement indices
         ensures=["(result is not None) == HASEXC(self)", "implies(result is not None, result >= 0)"])

# crossover ---------------------------------------------------------------------------------------------------------
KEEP = ["implies(old({c}.changed), {c}.changed)", "implies({c}._test_case.g_code != old({c}._test_case.g_code), {c}.changed)",
        "{c}._test_case is old({c}._test_case) or fresh_ref({c}._test_case)"]      # never somebody else's test case
contract(f"{OP}.crossover:splice_test_case_chromosomes",
         globals_in={"pynguin.configuration.configuration": "Configuration"},
         modifies=["parent._test_case", "parent.changed"],
         raises={"AssertionError": "parent._test_factory is None"},
         ensures=[k.format(c="parent") for k in KEEP])
contract(f"{TCC}.cross_over", sig={"other": "Chromosome"},
         globals_in={"pynguin.configuration.configuration": "Configuration"},
         modifies=["self._test_case", "self.changed"],
         raises={"AssertionError": "not typeis(other, 'TestCaseChromosome') or self._test_factory is None"},
         ensures=[k.format(c="self") for k in KEEP])

# mutation of a test case -----------------------------------------------------------------------------------------------
GC = "chromosome._test_case.g_code"
SAME = f"{GC} == old({GC})"
CFG = {"pynguin.configuration.configuration": "Configuration"}
MUTG = {**CFG, f"{OP}.mutation._TEST_CASE_MUTATION": "TestCaseMutation"}
contract(f"{TCC}.size", returns="int", ensures=["result == SIZE(self._test_case.g_code)", "result >= 0"])
contract(f"{TCC}.get_last_mutatable_statement", returns="Optional[int]",
         ensures=["implies(SIZE(self._test_case.g_code) == 0, result is None)",
                  "implies(result is not None, 0 <= result and result < SIZE(self._test_case.g_code))"])
NOFACT = {"AssertionError": "chromosome._test_factory is None"}
for m_, sig_ in (("_delete_statement", {"chromosome": "TestCaseChromosome", "idx": "int"}),
                 ("_mutate_statement", {"chromosome": "TestCaseChromosome", "position": "int", "statement": "Statement"}),
                 ("_mutation_delete", {"chromosome": "TestCaseChromosome"}),
                 ("_mutation_change", {"chromosome": "TestCaseChromosome"}),
                 ("_mutation_insert", {"chromosome": "TestCaseChromosome"})):
    # (the insertion mutation may put a clone taken before an over-long insertion back: a fresh test case with the old content)
    swaps_ = m_ == "_mutation_insert"
    contract(f"{OP}.mutation:TestCaseMutation.{m_}", sig=sig_, returns="bool", globals_in=MUTG,
             modifies=[GC] + (["chromosome._test_case"] if swaps_ else []), raises={"AssertionError": "chromosome._test_factory is None"},
             ensures=[f"implies(not result, {SAME})"] +
                     (["chromosome._test_case is old(chromosome._test_case) or fresh_ref(chromosome._test_case)"] if swaps_ else []))
    # the chromosome's own trampolines to the module-level operator object
    sig2 = {("self" if k == "chromosome" else k): v for k, v in sig_.items()}
    contract(f"{TCC}.{m_}", sig={k: v for k, v in sig2.items() if k != "self"}, returns="bool", globals_in=MUTG,
             modifies=["self._test_case.g_code"] + (["self._test_case"] if swaps_ else []),
             raises={"AssertionError": "self._test_factory is None"},
             ensures=["implies(not result, self._test_case.g_code == old(self._test_case.g_code))"] +
                     (["self._test_case is old(self._test_case) or fresh_ref(self._test_case)"] if swaps_ else []))
for m_ in ("_mutation_delete", "_mutation_change", "_mutation_insert"):
    loop(f"{OP}.mutation:TestCaseMutation.{m_}", 0,
         invariant=[f"changed or {SAME}"] + (["chromosome._test_case is old(chromosome._test_case) or fresh_ref(chromosome._test_case)"]
                                             if m_ == "_mutation_insert" else []),
         modifies=[GC] + (["chromosome._test_case"] if m_ == "_mutation_insert" else []))
contract(f"{OP}.mutation:TestCaseMutation.mutate", sig={"chromosome": "TestCaseChromosome"}, globals_in=MUTG,
         modifies=["chromosome._test_case", GC, "chromosome.changed", "chromosome._num_mutations"],
         raises={"AssertionError": "chromosome._test_factory is None"},
         ensures=[k.format(c="chromosome") for k in KEEP])
contract(f"{TCC}.mutate", globals_in=MUTG,
         modifies=["self._test_case", "self._test_case.g_code", "self.changed", "self._num_mutations"],
         raises={"AssertionError": "self._test_factory is None"},
         ensures=[k.format(c="self") for k in KEEP])

# test suites: the content of a suite is the set of its non-empty tests and their contents ---------------------------------
TCS = "{c}.test_case_chromosomes"
# "if the flag is down afterwards, it was down before and the tests are what they were"
def suite_same(c, filt=False):
    new, old = TCS.format(c=c), f"old({TCS.format(c=c)})"
    keep = (f"all(implies(SIZE({old}[j]._test_case.g_code) > 0, any({new}[i] is {old}[j] for i in range(len({new})))) "
            f"for j in range(len({old})))") if filt else f"{new} == {old}"
    return [f"implies(old({c}.changed), {c}.changed)",
            f"implies(not {c}.changed, all(any({new}[i] is {old}[j] for j in range(len({old}))) for i in range(len({new}))))",
            f"implies(not {c}.changed, {keep})",
            f"implies(not {c}.changed, all({old}[j]._test_case.g_code == old({old}[j]._test_case.g_code) for j in range(len({old}))))"]
SMOD = ["self.test_case_chromosomes", "self.changed"]
contract(f"{TSC}.add_test_case_chromosome", modifies=SMOD,
         ensures=["self.changed", "self.test_case_chromosomes == old(self.test_case_chromosomes) + [test]"])
contract(f"{TSC}.add_test_case_chromosomes", sig={"tests": "list[TestCaseChromosome]"}, modifies=SMOD,
         ensures=suite_same("self") + ["len(self.test_case_chromosomes) == len(old(self.test_case_chromosomes)) + len(tests)"])
contract(f"{TSC}.set_test_case_chromosome", modifies=SMOD, raises={"IndexError": "not (-len(self.test_case_chromosomes) <= index and index < len(self.test_case_chromosomes))"},
         ensures=["self.changed"])
contract(f"{TSC}.size", returns="int", ensures=["result == len(self.test_case_chromosomes)"])
contract(f"{OP}.crossover:splice_test_suite_chromosomes", modifies=["parent.test_case_chromosomes", "parent.changed"],
         ensures=["parent.changed"])

klass("pynguin.ga.chromosomefactory:ChromosomeFactory", fields={})
contract("pynguin.ga.chromosomefactory:ChromosomeFactory.get_chromosome", mode="assume", sig={"self": "ChromosomeFactory"},
         returns="TestCaseChromosome", fresh_result=True)
# ownership: no two tests of a suite share a TestCase object (clone() always copies it)
OWN = "all(all(implies(i != j, {l}[i]._test_case is not {l}[j]._test_case) for j in range(len({l}))) for i in range(len({l})))"
SUITE_G = {**CFG, f"{OP}.mutation._TEST_SUITE_MUTATION": "TestSuiteMutation", f"{OP}.mutation._TEST_CASE_MUTATION": "TestCaseMutation"}
ANYCHILD = ["TestCaseChromosome._test_case['*']", "TestCase.g_code['*']", "Chromosome.changed['*']",
            "TestCaseChromosome._num_mutations['*']"]
contract(f"{OP}.mutation:TestSuiteMutation.mutate", sig={"chromosome": "TestSuiteChromosome"}, globals_in=SUITE_G,
         requires=["all(chromosome.test_case_chromosomes[i]._test_factory is not None for i in range(len(chromosome.test_case_chromosomes)))",
                   OWN.format(l="chromosome.test_case_chromosomes")],
         modifies=["chromosome.test_case_chromosomes"] + ANYCHILD,
         raises={"AssertionError": "chromosome.test_case_chromosome_factory is None",
                 "ZeroDivisionError": "len(chromosome.test_case_chromosomes) == 0 and False"},
         ensures=suite_same("chromosome", filt=True))
OLDL = "old(chromosome.test_case_chromosomes)"
loop(f"{OP}.mutation:TestSuiteMutation.mutate", 0, modifies=ANYCHILD, invariant=[
    "chromosome.changed == old(chromosome.changed)", f"chromosome.test_case_chromosomes == {OLDL}",
    OWN.format(l=OLDL),
    f"changed or all({OLDL}[j]._test_case.g_code == old({OLDL}[j]._test_case.g_code) for j in range(len({OLDL})))"])
loop(f"{OP}.mutation:TestSuiteMutation.mutate", 1, modifies=["chromosome.test_case_chromosomes", "chromosome.changed"], invariant=[
    "implies(not changed, chromosome.changed == old(chromosome.changed))",
    f"implies(not changed, chromosome.test_case_chromosomes == {OLDL})",
    f"implies(not changed, all({OLDL}[j]._test_case.g_code == old({OLDL}[j]._test_case.g_code) for j in range(len({OLDL}))))"])
contract(f"{TSC}.mutate", globals_in=SUITE_G,
         requires=["all(self.test_case_chromosomes[i]._test_factory is not None for i in range(len(self.test_case_chromosomes)))",
                   OWN.format(l="self.test_case_chromosomes")],
         modifies=["self.test_case_chromosomes"] + ANYCHILD,
         raises={"AssertionError": "self.test_case_chromosome_factory is None"},
         ensures=suite_same("self", filt=True))

# cloning and registering functions ---------------------------------------------------------------------------------------
CACHE_EQ = ["{a}._fitness_functions == {b}._fitness_functions", "{a}._coverage_functions == {b}._coverage_functions",
            "{a}._fitness_cache == {b}._fitness_cache", "{a}._is_covered_cache == {b}._is_covered_cache",
            "{a}._coverage_cache == {b}._coverage_cache"]
contract(f"{CC}:ComputationCache.__init__",
         sig={"chromosome": "Chromosome", "fitness_functions": "Optional[list[FitnessFunction]]",
              "coverage_functions": "Optional[list[CoverageFunction]]", "fitness_cache": "Optional[dict[FitnessFunction,float]]",
              "is_covered_cache": "Optional[dict[FitnessFunction,bool]]", "coverage_cache": "Optional[dict[CoverageFunction,float]]"},
         modifies=["self.ALL"],
         ensures=["self._chromosome is chromosome",
                  "self._fitness_functions == (fitness_functions if fitness_functions is not None else [])",
                  "self._coverage_functions == (coverage_functions if coverage_functions is not None else [])",
                  "self._fitness_cache == (fitness_cache if fitness_cache is not None else {})",
                  "self._is_covered_cache == (is_covered_cache if is_covered_cache is not None else {})",
                  "self._coverage_cache == (coverage_cache if coverage_cache is not None else {})"])
contract(f"{CC}:ComputationCache.clone", sig={"new_chromosome": "Chromosome"}, returns="ComputationCache", fresh_result=True,
         ensures=["result._chromosome is new_chromosome", "fresh_ref(result)"] + [c.format(a="result", b="self") for c in CACHE_EQ])
contract("pynguin.ga.chromosome:Chromosome.__init__", sig={"orig": "Optional[Chromosome]"},
         requires=["orig is not self"], modifies=["self.ALL"],
         ensures=["self.computation_cache._chromosome is self", "fresh_ref(self.computation_cache)",
                  "implies(orig is not None, self.changed == orig.changed)", "implies(orig is None, self.changed)",
                  "implies(orig is not None, " + " and ".join(c.format(a="self.computation_cache", b="orig.computation_cache") for c in CACHE_EQ) + ")",
                  "implies(orig is None, self.computation_cache._fitness_cache == {} and self.computation_cache._is_covered_cache == {} "
                  "and self.computation_cache._coverage_cache == {} and self.computation_cache._fitness_functions == [] "
                  "and self.computation_cache._coverage_functions == [])"])
contract(f"{TCC}.__init__", sig={"test_case": "Optional[TestCase]", "test_factory": "Optional[TestFactory]",
                                 "orig": "Optional[TestCaseChromosome]"},
         requires=["orig is not self", "orig is None or orig.computation_cache._chromosome is orig"],
         modifies=["self.ALL"], raises={"AssertionError": "orig is None and test_case is None"},
         ensures=["implies(orig is not None, self.changed == orig.changed and self._test_case.g_code == orig._test_case.g_code "
                  "and fresh_ref(self._test_case))",
                  "implies(orig is None, self.changed and self._test_case is test_case)",
                  "self.computation_cache._chromosome is self", "fresh_ref(self.computation_cache)",
                  "implies(orig is not None, " + " and ".join(c.format(a="self.computation_cache", b="orig.computation_cache") for c in CACHE_EQ) + ")",
                  # the clone's cache is as good as the original's
                  "implies(orig is not None and old(cache_ok(orig.computation_cache)), cache_ok(self.computation_cache))",
                  "implies(orig is not None and old(reg_ok(orig.computation_cache)), reg_ok(self.computation_cache))"])
contract(f"{CC}:ComputationCache.add_fitness_function", modifies=["self._fitness_functions"],
         raises={"AssertionError": "False"},
         ensures=["any(self._fitness_functions[i] is fitness_function for i in range(len(self._fitness_functions)))",
                  "self._fitness_functions == old(self._fitness_functions) + [fitness_function]",
                  "implies(old(reg_ok(self)), reg_ok(self))", "implies(old(vals_ok(self)), vals_ok(self))"])
contract(f"{CC}:ComputationCache.add_coverage_function", modifies=["self._coverage_functions"],
         ensures=["any(self._coverage_functions[i] is coverage_function for i in range(len(self._coverage_functions)))",
                  "self._coverage_functions == old(self._coverage_functions) + [coverage_function]",
                  "implies(old(reg_ok(self)), reg_ok(self))", "implies(old(vals_ok(self)), vals_ok(self))"])

# the chromosome's own query methods: what a user calls ------------------------------------------------------------------
CHQ = "pynguin.ga.chromosome:Chromosome"
KC = "self.computation_cache"
CH_REQ = [f"{KC}._chromosome is self", f"cache_ok({KC})", f"reg_ok({KC})"]
CH_MOD = [f"{KC}._fitness_cache", f"{KC}._is_covered_cache", f"{KC}._coverage_cache", "self.changed"]
CH_ENS = ["not self.changed", f"vals_ok({KC})", f"reg_ok({KC})"]
contract(f"{CHQ}.get_fitness_for",
         requires=CH_REQ + [f"any({KC}._fitness_functions[i] is fitness_function for i in range(len({KC}._fitness_functions)))"],
         modifies=CH_MOD, ensures=["result == F(fitness_function, content(self))"] + CH_ENS)
contract(f"{CHQ}.get_is_covered",
         requires=CH_REQ + [f"any({KC}._fitness_functions[i] is fitness_function for i in range(len({KC}._fitness_functions)))"],
         modifies=CH_MOD, ensures=["result == (F(fitness_function, content(self)) == 0)"] + CH_ENS)
contract(f"{CHQ}.get_coverage_for",
         requires=CH_REQ + [f"any({KC}._coverage_functions[i] is coverage_function for i in range(len({KC}._coverage_functions)))"],
         modifies=CH_MOD, ensures=["result == COV(coverage_function, content(self))"] + CH_ENS)
# (registering a function only appends to the list of functions: caches and flag untouched - frame; that appending keeps
#  reg_ok/vals_ok is proved on ComputationCache.add_*_function above)
contract(f"{CHQ}.add_fitness_function", modifies=[f"{KC}._fitness_functions"], raises={"AssertionError": "False"},
         ensures=[f"{KC}._fitness_functions == old({KC}._fitness_functions) + [fitness_function]"])
contract(f"{CHQ}.add_coverage_function", modifies=[f"{KC}._coverage_functions"],
         ensures=[f"{KC}._coverage_functions == old({KC}._coverage_functions) + [coverage_function]"])


# ==== native side: real chromosomes for replaying counterexamples and for the bounded history check ==================
from pyvc.enumerate import sampler  # noqa: E402
from pyvc.replay import NATIVE_HELPERS  # noqa: E402

_NATIVE = {}


def native_world():
    """One real test cluster / test factory over contracts/sut_c12.py; ghost fields get their native meaning:
    TestCase.g_code is the exported code, the content of a suite is the tuple of its non-empty tests' code."""
    if _NATIVE:
        return _NATIVE
    import pynguin.configuration as config
    import pynguin.ga.computations as ff
    from pynguin.analyses.module import generate_test_cluster
    from pynguin.ga.chromosome import Chromosome
    from pynguin.testcase.testcase import TestCase
    from pynguin.testcase.testfactory import TestFactory
    config.configuration.module_name = "contracts.sut_c12"
    cluster = generate_test_cluster("contracts.sut_c12")
    TestCase.g_code = property(lambda self: self.to_code())
    from pynguin.ga.testcasechromosome import TestCaseChromosome
    TestCaseChromosome.__repr__ = lambda self: (                       # (so that replay files show the failing input)
        f"<TestCaseChromosome changed={self.changed} code={self.test_case.to_code()!r} "
        f"cached={dict(self.computation_cache._fitness_cache)!r}>")    # noqa: SLF001
    Chromosome.g_content = property(lambda self: tuple(sorted(
        t.test_case.to_code() for t in getattr(self, "test_case_chromosomes", []) if t.size() > 0)))

    class CodeFitness(ff.FitnessFunction):
        """A deterministic fitness function of the chromosome's code (what the property assumes)."""

        def __init__(self, salt):
            self.salt = salt

        def of(self, content):
            # (values include a tiny positive one and a denormal: "covered" means exactly 0.0, not "close to 0")
            return [0.0, 1e-12, 2.0, 5e-324, 0.5][(len(str(content)) * 7 + self.salt) % 5]

        def compute_fitness(self, individual):
            return self.of(_content(individual))

        def compute_is_covered(self, individual):
            return self.compute_fitness(individual) == 0.0

        def is_maximisation_function(self):
            return False

        def __repr__(self):
            return f"CodeFitness({self.salt})"

    class CodeCoverage(ff.CoverageFunction):
        def __init__(self, salt):
            self.salt = salt

        def of(self, content):
            return ((len(str(content)) * 3 + self.salt) % 4) / 4.0

        def compute_coverage(self, individual):
            return self.of(_content(individual))

        def __repr__(self):
            return f"CodeCoverage({self.salt})"

    def _content(c):
        return c.test_case.to_code() if hasattr(c, "test_case") else c.g_content

    _NATIVE.update(cluster=cluster, factory=TestFactory(cluster), fitness=[CodeFitness(i) for i in range(3)],
                   coverage=[CodeCoverage(i) for i in range(2)], content=_content)
    NATIVE_HELPERS["F"] = lambda f, content: f.of(content)
    NATIVE_HELPERS["COV"] = lambda g, content: g.of(content)
    NATIVE_HELPERS["typeis"] = lambda o, name: any(k.__name__ == name for k in type(o).__mro__)
    NATIVE_HELPERS["fresh_ref"] = lambda o: True          # (allocation order has no native counterpart)
    return _NATIVE


def native_test_chromosome(r, n_statements=None):
    """A real TestCaseChromosome with up to three statements over the SUT, functions registered, flag random."""
    from pynguin.ga.testcasechromosome import TestCaseChromosome
    from pynguin.testcase.testcase import TestCase
    from pynguin.utils import randomness
    w = native_world()
    randomness.RNG.seed(r.randrange(1 << 30))
    tc = TestCase()
    for _ in range(r.choice([0, 1, 1, 2, 3]) if n_statements is None else n_statements):
        if r.random() < 0.3:
            w["factory"]._emit_primitive_statement(tc, r.choice([int, float]), tc.size())  # noqa: SLF001
        else:
            w["factory"].insert_random_statement(tc, tc.size())
    c = TestCaseChromosome(tc, w["factory"])
    for f in w["fitness"][:r.choice([1, 2, 3])]:
        c.add_fitness_function(f)
    for g in w["coverage"][:r.choice([1, 2])]:
        c.add_coverage_function(g)
    return c


def native_history(r, c, steps):
    """Apply a random history of the operations the property names to chromosome c (and clones of it)."""
    from pynguin.utils import randomness
    w = native_world()
    pool = [c]
    for _ in range(steps):
        x = r.choice(pool)
        op = r.choice(["mutate", "crossover", "clone", "query_f", "query_c", "query_cov", "selfcross"])
        randomness.RNG.seed(r.randrange(1 << 30))
        if op == "mutate":
            x.mutate()
        elif op == "crossover":
            o = r.choice(pool).clone()
            x.cross_over(o, r.randint(0, x.size()), r.randint(0, o.size()))
        elif op == "selfcross":
            o = x.clone()
            k = r.choice([x.size(), r.randint(0, x.size())])
            x.cross_over(o, k, k if k <= o.size() else o.size())
        elif op == "clone" and len(pool) < 4:
            pool.append(x.clone())
        elif op == "query_f":
            x.get_fitness_for(r.choice(x.get_fitness_functions()))
        elif op == "query_c":
            x.get_is_covered(r.choice(x.get_fitness_functions()))
        elif op == "query_cov":
            x.get_coverage_for(r.choice(x.get_coverage_functions()))
    return pool


@sampler("TestCaseChromosome")
def _s_tcc(sc, cls):
    r = sc.rnd
    last = getattr(sc, "_c12_last", None)
    if last is not None and r.random() < 0.5:
        return ("$py", last.clone())          # a clone of an earlier argument (crossover with one's own clone)
    c = native_test_chromosome(r)
    c = r.choice(native_history(r, c, r.choice([0, 0, 2, 4])))
    sc._c12_last = c                          # noqa: SLF001
    return ("$py", c)


@sampler("Chromosome")
def _s_chrom12(sc, cls):
    return _s_tcc(sc, cls)


@sampler("ComputationCache")
def _s_cache(sc, cls):
    return ("$py", _s_tcc(sc, cls)[1].computation_cache)


@sampler("FitnessFunction")
def _s_ff12(sc, cls):
    return ("$py", sc.rnd.choice(native_world()["fitness"]))


@sampler("CoverageFunction")
def _s_cf12(sc, cls):
    return ("$py", sc.rnd.choice(native_world()["coverage"]))


@sampler("Configuration")
def _s_cfg12(sc, cls):
    import pynguin.configuration as config
    native_world()
    config.configuration.search_algorithm.chromosome_length = sc.rnd.choice([2, 5, 40])
    return ("$py", config.configuration)


@sampler("TestCaseMutation")
def _s_tcm(sc, cls):
    from pynguin.ga.operators.mutation import _TEST_CASE_MUTATION
    return ("$py", _TEST_CASE_MUTATION)


@sampler("TestSuiteMutation")
def _s_tsm(sc, cls):
    from pynguin.ga.operators.mutation import _TEST_SUITE_MUTATION
    return ("$py", _TEST_SUITE_MUTATION)


SCOPE = {t: {"ints": [0, 1, 2, 3, 4]} for t in (f"{OP}.crossover:splice_test_case_chromosomes", f"{TCC}.cross_over")}
SEARCH_BUDGET = 400


# ==== bounded stand-in: the two cache layers (values in the ComputationCache, execution result on the chromosome) on real
#      executions, including queries during which the executor raises (TestCaseExecutor.execute documents RuntimeError) ==========
import itertools  # noqa: E402

from pyvc.bounded import Part, guarded  # noqa: E402


def _check_faulty(part: Part, tier, seed):
    import importlib, logging, shutil, sys, tempfile  # noqa: E401
    from pathlib import Path
    import libcst as cst
    import pynguin.configuration as config
    import pynguin.ga.computations as ff
    import pynguin.ga.testcasechromosome as tcc
    import pynguin.ga.testsuitechromosome as tsc
    import pynguin.testcase.testcase as tc
    from pynguin.instrumentation.machinery import install_import_hook
    from pynguin.instrumentation.tracer import SubjectProperties
    from pynguin.testcase.execution import TestCaseExecutor
    from pynguin.utils.naming import get_module_alias
    from .c10 import _C10_MODULE, _C10_SOURCE, _C10_TESTS
    logging.disable(logging.CRITICAL)
    workdir = Path(tempfile.mkdtemp(prefix="c12_"))
    (workdir / f"{_C10_MODULE}.py").write_text(_C10_SOURCE)
    sys.path.insert(0, str(workdir))
    saved = config.configuration.module_name
    config.configuration.module_name = _C10_MODULE
    sp = SubjectProperties()
    hook = install_import_hook(_C10_MODULE, sp, coverage_metrics={config.CoverageMetric.BRANCH, config.CoverageMetric.LINE})
    hook.__enter__()

    class Faulty(TestCaseExecutor):
        """the real executor; execute() raises RuntimeError when the countdown reaches zero"""
        countdown = -1

        def execute(self, test_case):
            Faulty.countdown -= 1          # (countdown k > 0: the k-th execution from now raises; 0 or negative: none does)
            if Faulty.countdown == 0:
                raise RuntimeError("injected: something went wrong inside the executor")
            return super().execute(test_case)
    try:
        with sp.instrumentation_tracer:
            sys.modules.pop(_C10_MODULE, None)
            importlib.import_module(_C10_MODULE)
        sp.instrumentation_tracer.store_import_trace()
        executor = Faulty(sp, maximum_test_execution_timeout=2, test_execution_time_per_statement=2)
        m = get_module_alias(_C10_MODULE)
        names = ["pos", "neg", "spin3", "raise", "calm"]

        def test_case(name):
            t = tc.TestCase()
            for var, rhs in _C10_TESTS[name]:
                t.add_statement(tc.Statement(node=cst.parse_module(f"{var} = {rhs.format(m=m)}\n").body[0], bound_variable=var, bound_type=None))
            return t
        import pynguin.ga.coveragegoals as bg
        goals_ff = list(bg.create_branch_coverage_fitness_functions(executor, bg.BranchGoalPool(sp)))     # one per branch goal
        cov_case = [ff.TestCaseBranchCoverageFunction(executor), ff.TestCaseLineCoverageFunction(executor)]
        suite_ff = [ff.BranchDistanceTestSuiteFitnessFunction(executor), ff.LineTestSuiteFitnessFunction(executor)]
        cov_suite = [ff.TestSuiteBranchCoverageFunction(executor), ff.TestSuiteLineCoverageFunction(executor)]

        def observe(c, fns, covs):
            return ([c.get_fitness_for(f) for f in fns], [c.get_is_covered(f) for f in fns], [c.get_coverage_for(g) for g in covs], c.get_fitness())

        def fresh_case(name):
            c = tcc.TestCaseChromosome(test_case=test_case(name))
            for f in goals_ff:
                c.add_fitness_function(f)
            for g in cov_case:
                c.add_coverage_function(g)
            return c

        def fresh_suite(ns):
            s = tsc.TestSuiteChromosome()
            for n in ns:
                s.add_test_case_chromosome(tcc.TestCaseChromosome(test_case=test_case(n)))
            for f in suite_ff:
                s.add_fitness_function(f)
            for g in cov_suite:
                s.add_coverage_function(g)
            return s
        queries = {"get_fitness": lambda c, fns, covs: c.get_fitness(), "get_fitness_for": lambda c, fns, covs: c.get_fitness_for(fns[0]),
                   "get_is_covered": lambda c, fns, covs: c.get_is_covered(fns[-1]), "get_coverage_for": lambda c, fns, covs: c.get_coverage_for(covs[-1])}
        Faulty.countdown = -1
        reference = {n: observe(fresh_case(n), goals_ff, cov_case) for n in names}
        # test case chromosomes: evaluate, change the test (as crossover / mutation do: new test case, flag up), query with a
        # fault at the k-th execution, query everything again, compare with a chromosome built from scratch
        for a, b in itertools.permutations(names, 2):
            for qn, q in queries.items():
                for fault_at in (0, 1):
                    part.case()
                    c = fresh_case(a)
                    observe(c, goals_ff, cov_case)
                    c.test_case = test_case(b)
                    c.changed = True
                    Faulty.countdown = fault_at
                    failed = False
                    try:
                        q(c, goals_ff, cov_case)
                    except RuntimeError:
                        failed = True
                    Faulty.countdown = -1
                    got = observe(c, goals_ff, cov_case)
                    if got != reference[b]:
                        part.violation("every fitness, covered verdict and coverage value returned for a chromosome equals the value "
                                       "recomputed from scratch on the chromosome's current tests",
                                       "stale-after-" + ("failed-query" if failed else "query") + ":test-case",
                                       {"history": [f"evaluate {a}", f"replace the test by {b} (changed = True)",
                                                    f"{qn}() " + ("during which executor.execute raised RuntimeError" if failed else "(no fault)"),
                                                    "query all values"], "returned": repr(got)[:300], "from_scratch": repr(reference[b])[:300]},
                                       target=f"{CC}:ComputationCache._check_cache")
        # suites: the same with one member replaced
        pairs = [("pos", "neg"), ("spin3", "calm"), ("raise", "pos")]
        for (x, y), repl in itertools.product(pairs, ("neg", "spin3", "raise")):
            for qn, q in queries.items():
                for fault_at in (0, 1, 2):
                    part.case()
                    s = fresh_suite([x, y])
                    observe(s, suite_ff, cov_suite)
                    s.set_test_case_chromosome(1, tcc.TestCaseChromosome(test_case=test_case(repl)))
                    Faulty.countdown = fault_at
                    failed = False
                    try:
                        q(s, suite_ff, cov_suite)
                    except RuntimeError:
                        failed = True
                    Faulty.countdown = -1
                    got = observe(s, suite_ff, cov_suite)
                    want = observe(fresh_suite([x, repl]), suite_ff, cov_suite)
                    if got != want:
                        part.violation("every fitness, covered verdict and coverage value returned for a chromosome equals the value "
                                       "recomputed from scratch on the chromosome's current tests",
                                       "stale-after-" + ("failed-query" if failed else "query") + ":suite",
                                       {"history": [f"evaluate suite [{x}, {y}]", f"replace member 1 by {repl}",
                                                    f"{qn}() " + ("during which executor.execute raised RuntimeError" if failed else "(no fault)"),
                                                    "query all values"], "returned": repr(got)[:300], "from_scratch": repr(want)[:300]},
                                       target=f"{CC}:ComputationCache._check_cache")
    finally:
        hook.__exit__(None, None, None)
        sys.modules.pop(_C10_MODULE, None)
        sys.path.remove(str(workdir))
        shutil.rmtree(workdir, ignore_errors=True)
        config.configuration.module_name = saved
        logging.disable(logging.NOTSET)


def bounded_faulty(tier, seed):
    p = Part("C12", "real-executions-with-faults",
             [f"{CC}:ComputationCache._check_cache", "pynguin.ga.computations:TestCaseChromosomeComputation._run_test_case_chromosome",
              "pynguin.ga.computations:TestSuiteChromosomeComputation._run_test_suite_chromosome"],
             scope="real execution-based fitness / coverage functions on a real instrumented executor: test case chromosomes (20 ordered "
                   "pairs of 5 test cases) and two-member suites (9) are evaluated, changed, queried through each of the 4 query "
                   "methods with executor.execute raising RuntimeError at the 1st / 2nd (3rd) execution or not at all, then every "
                   "value is queried again and compared with a chromosome built from scratch",
             bound="5 test cases, one change, one fault per history")
    return guarded(p, _check_faulty, tier, seed)


BOUNDED = [bounded_faulty]
