"""C08 — coverage exclusions remove exactly the excluded code from the goals."""
from pyvc.contracts import assumption, contract, for_property, klass, lemma, loop, predicate, ufun

for_property("C08")
TF = "pynguin.instrumentation.transformer"

# ---- proved: the line-level decision of AstInfo against its three-line specification -----------------------------------------
# an AST node is seen through three ghost fields: its first and last line and (for a module) the list of its definitions
klass("ast:AST", fields={}, ghost={"lo": "int", "hi": "int", "defs": "list[AST]"})
klass(f"{TF}:ModuleAstInfo", fields={"only_cover_lines": "set[int]", "no_cover_lines": "set[int]", "module_ast": "AST"})
klass(f"{TF}:AstInfo", fields={"module": "ModuleAstInfo", "ast": "AST"})
contract("pynguin.analyses.ast_utils:scope_line_range", mode="assume", sig={"node": "AST"}, returns="tuple[int,int]",
         ensures=["result[0] == node.lo", "result[1] == node.hi"])
contract("pynguin.analyses.ast_utils:nodes_of_class", mode="assume", sig={"tree": "AST", "types": "SutValue"},
         returns="list[AST]", ensures=["result == tree.defs"])
assumption("scope_line_range(node) is the pair (lo, hi) of first and last line of an AST node and nodes_of_class(module_ast, "
           "(FunctionDef, AsyncFunctionDef, ClassDef)) the list defs of the module's definitions (ast walks, assumed; the native "
           "replay builds real ast nodes with these line numbers and runs the real functions)")
predicate("contains_only(a)", "any(c in a.module.only_cover_lines and c not in a.module.no_cover_lines "
                              "for c in range(a.ast.lo, a.ast.hi + 1))")
predicate("parent_only(a, n)", "any(a.module.module_ast.defs[i].lo in a.module.only_cover_lines and "
                               "a.module.module_ast.defs[i].lo <= n and n <= a.module.module_ast.defs[i].hi "
                               "for i in range(len(a.module.module_ast.defs)))")
# no-cover wins; an empty only-cover list means everything; otherwise the line, some line of the scope, or an enclosing
# definition must be named by only_cover
contract(f"{TF}:AstInfo._in_cover", sig={"self": "AstInfo", "lineno": "int"}, returns="bool",
         # line ranges of real AST nodes: 1 <= first line <= last line
         requires=["1 <= self.ast.lo and self.ast.lo <= self.ast.hi", "lineno >= 0",
                   "all(1 <= d.lo and d.lo <= d.hi for d in self.module.module_ast.defs)"],
         ensures=["implies(lineno in self.module.no_cover_lines, not result)",
                  "implies(lineno not in self.module.no_cover_lines, result == (len(self.module.only_cover_lines) == 0 or "
                  "lineno in self.module.only_cover_lines or contains_only(self) or parent_only(self, lineno)))"])
contract(f"{TF}:ModuleAstInfo.__post_init__", sig={"self": "ModuleAstInfo"},
         raises={"ValueError": "not disjoint(self.only_cover_lines, self.no_cover_lines)"}, ensures=[
             "disjoint(self.only_cover_lines, self.no_cover_lines)"])

# ---- native replay: real ast nodes with the model's line numbers, real AstInfo / ModuleAstInfo ---------------------------------
from pyvc.replay import builder  # noqa: E402


class _NodeSpec:
    def __init__(self, lo, hi, defs):
        self.lo, self.hi, self.defs = lo, hi, defs


def _as_def(n):
    import ast
    if not isinstance(n, _NodeSpec):
        return n
    hi = max(n.hi, n.lo)

    class _Def(ast.FunctionDef):
        def __repr__(self):
            return f"<def at lines {self.lineno}..{self.end_lineno}>"
    node = _Def(name=f"f{n.lo}", args=ast.arguments(posonlyargs=[], args=[], kwonlyargs=[], kw_defaults=[], defaults=[]),
                           body=[ast.Pass(lineno=hi, end_lineno=hi, col_offset=4, end_col_offset=8)], decorator_list=[],
                           lineno=n.lo, end_lineno=hi, col_offset=0, end_col_offset=8)
    node.lo, node.hi, node.defs = n.lo, hi, [node]
    return node


@builder("AST")
def _b_ast(f, ctx):
    return _NodeSpec(f.get("lo", 1), f.get("hi", 1), list(f.get("defs") or []))


@builder("ModuleAstInfo")
def _b_mai(f, ctx):
    import ast
    from pynguin.instrumentation.transformer import ModuleAstInfo
    spec = f["module_ast"]
    defs = [_as_def(d) for d in (spec.defs if isinstance(spec, _NodeSpec) else [])]
    class _Mod(ast.Module):
        def __repr__(self):
            return f"<module with definitions {self.body!r}>"
    mod = _Mod(body=defs, type_ignores=[])
    mod.lo, mod.hi, mod.defs = 0, (defs[-1].end_lineno if defs else 0), defs
    obj = ModuleAstInfo.__new__(ModuleAstInfo)      # (the dataclass is frozen and validates in __post_init__: bypassed here,
    object.__setattr__(obj, "module_ast", mod)     #  the function under replay does not rely on the validation)
    object.__setattr__(obj, "only_cover_lines", frozenset(f.get("only_cover_lines") or ()))
    object.__setattr__(obj, "no_cover_lines", frozenset(f.get("no_cover_lines") or ()))
    return obj


@builder("AstInfo")
def _b_ai(f, ctx):
    from pynguin.instrumentation.transformer import AstInfo
    return AstInfo(ast=_as_def(f["ast"]), module=f["module"])


# ==== bounded stand-in: the real import hook on a template module with every placement of markers and name lists ================
import itertools  # noqa: E402

from pyvc.bounded import Part, guarded  # noqa: E402

_SUBJECT = '''
from typing import TYPE_CHECKING
if TYPE_CHECKING:
    import os
def f(a, b):
    if a:
        b += 1
    elif b:
        b -= 1
    else:
        b = 0
    for i in range(a):
        if i % 2:
            continue
        b += i
    else:
        b += 10
    try:
        b = 1 / b
    except ZeroDivisionError:
        b = -1
    finally:
        a = 0
    return b
def g(x):
    while x > 0:
        x -= 1
        if x == 3:
            break
    with open(__file__) as fh:
        x += len(fh.readline())
    return [y for y in range(x) if y]
class K:
    attr = 1
    def m(self, v):
        if v:
            return lambda w: w if w else v
        return None
    def n(self):
        def inner(z):
            if z:
                return 1
            return 2
        return inner
if __name__ == "__main__":
    print(f(1, 2))
'''


def _goals(source, name, to_cover, ignore_methods=()):
    """Import the module through the real import hook; returns (line goals, predicate lines, code objects (name, first line))."""
    import importlib, os, shutil, sys, tempfile  # noqa: E401
    import pynguin.configuration as config
    from pynguin.instrumentation.machinery import install_import_hook
    from pynguin.instrumentation.tracer import SubjectProperties
    d = tempfile.mkdtemp(prefix="c08_")
    old_ignore = config.configuration.ignore_methods
    try:
        with open(os.path.join(d, name + ".py"), "w", encoding="utf-8") as f:
            f.write(source)
        sys.path.insert(0, d)
        sys.modules.pop(name, None)
        config.configuration.ignore_methods = [f"{name}.{m}" for m in ignore_methods]
        sp = SubjectProperties()
        with install_import_hook(name, sp, coverage_metrics={config.CoverageMetric.BRANCH, config.CoverageMetric.LINE},
                                 to_cover_config=to_cover):
            with sp.instrumentation_tracer:
                importlib.import_module(name)
        lines = {m.line_number for m in sp.existing_lines.values()}
        preds = {m.line_no for m in sp.existing_predicates.values()}
        cos = {(m.code_object.co_name, m.code_object.co_firstlineno) for m in sp.existing_code_objects.values()}
        return lines, preds, cos
    finally:
        config.configuration.ignore_methods = old_ignore
        sys.modules.pop(name, None)
        if d in sys.path:
            sys.path.remove(d)
        shutil.rmtree(d, ignore_errors=True)


def _regions(source):
    """Syntactic regions of the module: scopes by qualified name, compound statements by header line, special blocks."""
    import ast
    tree = ast.parse(source)
    scopes, compounds, special = {}, {}, []

    def walk(node, prefix):
        for ch in ast.iter_child_nodes(node):
            if isinstance(ch, (ast.FunctionDef, ast.AsyncFunctionDef, ast.ClassDef)):
                q = f"{prefix}.{ch.name}" if prefix else ch.name
                first = min([ch.lineno] + [d.lineno for d in ch.decorator_list])
                scopes[q] = (first, ch.end_lineno, ch.lineno)
                walk(ch, q)
            else:
                walk(ch, prefix)
    walk(tree, "")
    for n in ast.walk(tree):
        if isinstance(n, ast.If):
            t = ast.unparse(n.test)
            if t in ('__name__ == "__main__"', "__name__ == '__main__'", "TYPE_CHECKING", "typing.TYPE_CHECKING"):
                special.append((n.lineno, n.end_lineno))
        # conditional statements: a marked header excludes the header and its first suite; a marked else / except /
        # finally line excludes that clause.  ('with' is not conditional: only the marked line itself is excluded.)
        if isinstance(n, (ast.If, ast.For, ast.While, ast.Try)):
            compounds[n.lineno] = (n.lineno, n.body[-1].end_lineno)
            prev_end = n.body[-1].end_lineno
            if isinstance(n, ast.Try):
                for h in n.handlers:
                    compounds[h.lineno] = (h.lineno, h.body[-1].end_lineno)
                    prev_end = h.body[-1].end_lineno
                if n.orelse:
                    for ln in range(prev_end + 1, n.orelse[0].lineno):
                        compounds[ln] = (ln, n.orelse[-1].end_lineno)
                    prev_end = n.orelse[-1].end_lineno
                if n.finalbody:
                    for ln in range(prev_end + 1, n.finalbody[0].lineno):
                        compounds[ln] = (ln, n.finalbody[-1].end_lineno)
            elif n.orelse and not (isinstance(n, ast.If) and len(n.orelse) == 1 and isinstance(n.orelse[0], ast.If)
                                   and n.orelse[0].lineno == n.orelse[0].col_offset + n.orelse[0].lineno and False):
                first = n.orelse[0]
                if isinstance(n, ast.If) and len(n.orelse) == 1 and isinstance(first, ast.If) and source.split("\n")[first.lineno - 1].lstrip().startswith("elif"):
                    continue          # an elif is its own If node
                for ln in range(prev_end + 1, first.lineno):
                    compounds[ln] = (ln, n.orelse[-1].end_lineno)
    return scopes, compounds, special


def exclusion_problems(source, name, markers, no_cover, only_cover, ignore_methods, baseline):
    import pynguin.configuration as config
    lines_src = source.split("\n")
    for ln, text in markers:
        lines_src[ln - 1] = lines_src[ln - 1] + "  " + text
    marked = "\n".join(lines_src)
    scopes, compounds, special = _regions(source)
    try:
        got_lines, got_preds, got_cos = _goals(marked, name, config.ToCoverConfiguration(only_cover=list(only_cover), no_cover=list(no_cover)),
                                              ignore_methods)
    except ValueError as e:
        # only_cover and no_cover naming the same lines is rejected by design
        if set(only_cover) & (set(no_cover) | set(ignore_methods)) or (only_cover and markers):
            return []
        return [("a consistent exclusion configuration is accepted", "config-rejected", {"error": str(e)[:200]})]
    excluded = set()
    for a, b in special:
        excluded |= set(range(a, b + 1))
    for q in list(no_cover) + list(ignore_methods):
        if q in scopes:
            excluded |= set(range(scopes[q][0], scopes[q][1] + 1))
    for ln, _t in markers:
        excluded.add(ln)
        for q, (first, last, defline) in scopes.items():
            if ln == defline:
                excluded |= set(range(first, last + 1))
        if ln in compounds:
            excluded |= set(range(compounds[ln][0], compounds[ln][1] + 1))
    out = []
    label = {"markers": [(ln, t) for ln, t in markers], "no_cover": list(no_cover), "only_cover": list(only_cover),
             "ignore_methods": list(ignore_methods)}
    bad_l, bad_p = sorted(got_lines & excluded), sorted(got_preds & excluded)
    bad_c = sorted(c for c in got_cos if c[1] in excluded and c[0] != "<module>")
    if bad_l:
        out.append(("no line goal lies inside excluded code", "line-goal-in-excluded", {**label, "lines": bad_l}))
    if bad_p:
        out.append(("no branch goal lies inside excluded code", "branch-goal-in-excluded", {**label, "predicate_lines": bad_p}))
    if bad_c:
        out.append(("no code-object goal lies inside excluded code", "code-object-goal-in-excluded", {**label, "code_objects": bad_c}))
    base_lines, _bp, _bc = baseline
    inside = set(base_lines)
    if only_cover:
        keep = set()
        for q in only_cover:
            if q in scopes:
                keep |= set(range(scopes[q][0], scopes[q][1] + 1))
        inside &= keep
    missing = sorted((inside - excluded) - got_lines)
    if missing:
        out.append(("every executable line outside excluded code (inside only-cover scopes, when given) is a line goal",
                    "line-goal-missing", {**label, "lines": missing}))
    return out


def _check_c08(part: Part, tier, seed):
    src = _SUBJECT
    import pynguin.configuration as config
    baseline = _goals(src, "c08_base", config.ToCoverConfiguration(enable_inline_pragma_no_cover=False, enable_inline_pynguin_no_cover=False))
    # the baseline itself must already respect the two special blocks
    n_lines = len(src.split("\n"))
    code_lines = [i + 1 for i, ln in enumerate(src.split("\n")) if ln.strip() and not ln.strip().startswith(("#", "'''"))]
    texts = ["# pragma: no cover", "# pynguin: no cover"]
    cases = [((), (), (), ())]
    cases += [(((ln, texts[k % 2]),), (), (), ()) for k, ln in enumerate(code_lines)]
    names = ["f", "g", "K", "K.m", "K.n", "K.n.inner"]
    cases += [((), (q,), (), ()) for q in names] + [((), (), (q,), ()) for q in names] + [((), (), (), (q,)) for q in names]
    cases += [((), (a,), (), (b,)) for a in names for b in names if a != b][:: (1 if tier == "thorough" else 3)]
    cases += [((), (a,), (b,), ()) for a in ("K.m", "K.n.inner") for b in ("K", "f")]
    cases += [(((ln, texts[0]),), (), ("f",), ()) for ln in code_lines[2:22:3]]
    # the marker syntax allows several blanks between the words (the patterns are "# +?pragma: +?no +?cover")
    wide = ["#  pragma:  no  cover", "#   pynguin:   no    cover", "# pragma:  no cover", "# pynguin: no  cover"]
    cases += [(((ln, wide[k % 4]),), (), (), ()) for k, ln in enumerate(code_lines[:: (2 if tier == "thorough" else 4)])]
    if tier == "thorough":
        cases += [(((a, texts[0]), (b, texts[1])), (), (), ()) for a, b in itertools.combinations(code_lines, 2)][::5]
    k = 0
    for markers, no_cover, only_cover, ignore in cases:
        k += 1
        part.case(bool(markers or no_cover or only_cover or ignore))
        try:
            probs = exclusion_problems(src, f"c08_case_{k}", markers, no_cover, only_cover, ignore, baseline)
        except Exception as e:  # noqa: BLE001
            part.error(f"{(markers, no_cover, only_cover, ignore)}: {type(e).__name__}: {e}")
            continue
        for clause, cls, detail in probs:
            part.violation(clause, cls, detail, target=f"{TF}:ModuleAstInfo.from_path")
    # one-line definitions, also as the last statement of their enclosing scope (line ranges of length one)
    baseline2 = _goals(_SUBJECT_ONELINERS, "c08_base2", config.ToCoverConfiguration(enable_inline_pragma_no_cover=False,
                                                                                   enable_inline_pynguin_no_cover=False))
    names2 = ["Rect", "Rect.__init__", "Rect.area", "small", "Wide", "Wide.area"]
    cases2 = [((), (), (q,), ()) for q in names2] + [((), (q,), (), ()) for q in names2]
    cases2 += [((), (a,), (b,), ()) for a, b in (("Rect.area", "Rect"), ("Rect.__init__", "Rect"), ("Wide.area", "Wide"))]
    for markers, no_cover, only_cover, ignore in cases2:
        k += 1
        part.case()
        try:
            probs = exclusion_problems(_SUBJECT_ONELINERS, f"c08_case_{k}", markers, no_cover, only_cover, ignore, baseline2)
        except Exception as e:  # noqa: BLE001
            part.error(f"one-liners {(markers, no_cover, only_cover, ignore)}: {type(e).__name__}: {e}")
            continue
        for clause, cls, detail in probs:
            part.violation(clause, cls + ":one-line-scope", {**detail, "module": "one-line definitions"},
                           target=f"{TF}:AstInfo._in_cover")


    # all four clauses of a try statement (also nested in a loop), a marker on every single code line
    src3 = _SUBJECT_TRY
    baseline3 = _goals(src3, "c08_base3", config.ToCoverConfiguration(enable_inline_pragma_no_cover=False, enable_inline_pynguin_no_cover=False))
    lines3 = [i + 1 for i, ln in enumerate(src3.split("\n")) if ln.strip()]
    for j, ln in enumerate(lines3):
        k += 1
        part.case()
        try:
            probs = exclusion_problems(src3, f"c08_case_{k}", ((ln, texts[j % 2]),), (), (), (), baseline3)
        except Exception as e:  # noqa: BLE001
            part.error(f"try-clauses marker on line {ln}: {type(e).__name__}: {e}")
            continue
        for clause, cls, detail in probs:
            part.violation(clause, cls + ":try-clauses", {**detail, "module": "try/except/else/finally module", "source": src3},
                           target=f"{TF}:AstInfo.should_cover_line")


_SUBJECT_TRY = '''
def convert(text, log):
    try:
        value = int(text)
    except ValueError:
        if log:
            log.append(text)
        value = 0
    else:
        if value < 0:
            value = -value
        value += 1
    finally:
        if log is not None:
            log.append("done")
        text = None
    return value
def drain(items, log):
    total = 0
    for item in items:
        try:
            total += 10 // item
        except ZeroDivisionError:
            total -= 1
        except TypeError:
            break
        else:
            if total > 100:
                total = 100
        finally:
            if log:
                log.append(item)
    return total
'''


_SUBJECT_ONELINERS = '''
class Rect:
    def __init__(self, w, h): self.w, self.h = w, h

    def area(self): return self.w * self.h if self.w else 0
class Wide:
    def area(self): return 2
    tag = 1
def other(y):
    if y:
        return 1
    return 2
def small(x): return x + 1 if x else 0
'''


def bounded_c08(tier, seed):
    p = Part("C08", "exclusions-on-template-module", [f"{TF}:ModuleAstInfo.from_path", f"{TF}:AstInfo.should_cover_line",
                                                     f"{TF}:AstInfo.should_be_covered", f"{TF}:AstInfo.should_cover_conditional_statement",
                                                     "pynguin.instrumentation.machinery:install_import_hook"],
             scope="a 45-line template module (TYPE_CHECKING and __main__ blocks, if/elif/else, for/else, try/except/finally, while, "
                   "with, comprehension, class with methods, lambda, nested function) imported through the real install_import_hook "
                   "with branch and line instrumentation: no marker; '# pragma: no cover' / '# pynguin: no cover' on every single "
                   "code line (thorough: a fifth of all pairs); every scope name as no_cover, as only_cover and as ignore_methods "
                   "entry; pairs of no_cover x ignore_methods; no_cover inside only_cover; marker plus only_cover. Excluded code = "
                   "the marked line, the whole scope whose def/class line is marked or named, the header and first suite of a "
                   "marked compound statement, the two special blocks; 'executable line' = line goal of the unexcluded module",
             bound="one module, <= 1 (2) markers, <= 2 names; plus a 12-line module of one-line definitions (also as last statement "
                   "of their class / of the module) with every scope as only_cover and as no_cover entry")
    return guarded(p, _check_c08, tier, seed)


BOUNDED = [bounded_c08]
META = {"rule": "obligations: one per contract clause/site; bounded part: one case per configuration"}


def classify(g):
    return g.get("class", "")
