"""C15 — variation operators keep every test case well-formed."""
from pyvc.contracts import assumption, contract, for_property, klass, lemma, loop, predicate, ufun

for_property("C15")
TC = "pynguin.testcase.testcase"


# ==== bounded stand-in: the data structure operations and single-point crossover on enumerated well-formed test cases ==========
import itertools  # noqa: E402

from pyvc.bounded import Part, guarded  # noqa: E402


def wf_problems(tc, max_len=None):
    """The statement's well-formedness, natively: valid Python, reads bound earlier, fresh names, registry == statements."""
    import ast as _ast
    out = []
    stmts = tc.statements()
    bound = [s.bound_variable for s in stmts if s.bound_variable is not None]
    if len(bound) != len(set(bound)):
        out.append(("bound variable names are pairwise distinct", "duplicate-name", repr(bound)))
    seen = set()
    for i, s in enumerate(stmts):
        for x in sorted(s.used_variables()):
            if x.startswith("var_") and x not in seen:
                out.append(("every variable a statement reads is bound by an earlier statement", "dangling-read",
                            f"statement {i} reads {x}"))
        if s.bound_variable is not None:
            seen.add(s.bound_variable)
    reg = {}
    for s in stmts:
        if s.bound_variable is not None and s.bound_type is not None:
            reg.setdefault(s.bound_type, []).append(s.bound_variable)
    if reg != tc._type_registry:   # noqa: SLF001
        out.append(("the type registry matches the statements", "registry", f"{tc._type_registry!r} vs {reg!r}"))   # noqa: SLF001
    for b in bound:
        if b.startswith("var_") and b[4:].isdigit() and int(b[4:]) >= tc._var_counter:   # noqa: SLF001
            out.append(("fresh names are never reused: every bound var_N has N below the counter", "counter",
                        f"{b} counter={tc._var_counter}"))   # noqa: SLF001
    try:
        _ast.parse(tc.to_code())
    except SyntaxError as e:
        out.append(("the test case is valid Python", "syntax", str(e)))
    if max_len is not None and tc.size() > max_len:
        out.append(("the test case stays within the configured maximum length", "too-long", f"{tc.size()} > {max_len}"))
    return out


_TEMPLATES = [   # (source with {k} = bound name and {a}/{b} = read variables, number of reads, binds?, bound_type)
    ("{k} = 7", 0, True, int), ("{k} = module_0.f({a})", 1, True, int), ("{k} = module_0.u({a})", 1, True, None),
    ("module_0.h({a})", 1, False, None), ("{k} = [{a}, {b}]", 2, True, list), ("{k} = module_0.g()", 0, True, str),
    ("{k} = module_0.v()", 0, True, None),
]


def _all_test_cases(max_len):
    """Every well-formed test case of 0..max_len statements over the templates (reads range over all earlier variables)."""
    import libcst as cst
    from pynguin.testcase.testcase import Statement, TestCase

    def build(spec):
        tc = TestCase()
        for (ti, reads) in spec:
            src, _n, binds, bt = _TEMPLATES[ti]
            k = tc.next_var_name() if binds else None
            code = src.format(k=k, a=reads[0] if reads else "", b=reads[1] if len(reads) > 1 else "")
            tc.add_statement(Statement(node=cst.parse_statement(code), bound_variable=k, bound_type=bt))
        return tc

    def rec(spec, names, nbound):
        yield spec
        if len(spec) == max_len:
            return
        for ti, (src, n, binds, bt) in enumerate(_TEMPLATES):
            if n > 0 and not names:
                continue
            for reads in itertools.product(names, repeat=n):
                new = names + ([f"var_{nbound}"] if binds else [])
                yield from rec(spec + [(ti, reads)], new, nbound + (1 if binds else 0))
    for spec in rec([], [], 0):
        yield spec, build(spec)


def _shard_c15(args):
    idx, nshards, tier, seed = args
    import pynguin.configuration as config
    import pynguin.ga.testcasechromosome as tcc
    from pynguin.ga.operators.crossover import splice_test_case_chromosomes
    from pynguin.utils import randomness
    la, lb = (3, 3) if tier == "thorough" else (2, 3)
    As = list(_all_test_cases(la))
    Bs = list(_all_test_cases(lb))
    old_len = config.configuration.search_algorithm.chromosome_length
    res, n = [], 0
    try:
        for ai, (sa, A) in enumerate(As):
            if ai % nshards != idx:
                continue
            # single test case operations
            for i in range(A.size()):
                n += 1
                t = A.clone()
                removed = t.remove_statement_with_forward_dependencies(i)
                for p in wf_problems(t):
                    res.append(("remove_statement_with_forward_dependencies", p, {"test": A.to_code(), "index": i, "after": t.to_code()}))
                t2 = A.clone()
                dep = t2.forward_dependencies(i)
                bound_in = {A.get_statement(j).bound_variable for j in dep} - {None}
                for j in range(A.size()):
                    if j not in dep and j > i and A.get_statement(j).used_variables() & bound_in:
                        res.append(("forward_dependencies", ("the forward closure contains every later reader of a name it binds",
                                                             "closure", f"statement {j}"), {"test": A.to_code(), "index": i, "closure": sorted(dep)}))
                if removed != dep:
                    res.append(("remove_statement_with_forward_dependencies",
                                ("the removed set is the forward closure", "closure", repr(removed)), {"test": A.to_code(), "index": i}))
            for pos in range(-1, A.size()):
                n += 1
                t = A.clone()
                t.chop(pos)
                for p in wf_problems(t):
                    res.append(("chop", p, {"test": A.to_code(), "position": pos, "after": t.to_code()}))
            t = A.clone()
            if t.to_code() != A.to_code() or t._var_counter != A._var_counter:   # noqa: SLF001
                res.append(("clone", ("a clone has the same content and name counter", "clone", ""), {"test": A.to_code()}))
            t.remove_unused_variables()
            for p in wf_problems(t):
                res.append(("remove_unused_variables", p, {"test": A.to_code(), "after": t.to_code()}))
            # single-point crossover through the real operator
            for (sb, B) in Bs:
                for p1 in range(A.size() + 1):
                    for p2 in range(B.size() + 1):
                        for maxlen in (3, 40):
                            n += 1
                            config.configuration.search_algorithm.chromosome_length = maxlen
                            randomness.RNG.seed(seed + p1 * 7 + p2)
                            pa = tcc.TestCaseChromosome(test_case=A.clone(), test_factory=object())
                            pb = tcc.TestCaseChromosome(test_case=B.clone(), test_factory=object())
                            before_b = pb.test_case.to_code()
                            splice_test_case_chromosomes(pa, pb, p1, p2)
                            for p in wf_problems(pa.test_case, max_len=max(maxlen, A.size())):
                                res.append(("splice_test_case_chromosomes", p,
                                            {"parent": A.to_code(), "other": B.to_code(), "position1": p1, "position2": p2,
                                             "chromosome_length": maxlen, "offspring": pa.test_case.to_code()}))
                            if pb.test_case.to_code() != before_b:
                                res.append(("splice_test_case_chromosomes", ("crossover leaves the other parent unchanged", "other-changed", ""),
                                            {"parent": A.to_code(), "other": B.to_code()}))
                            if len(res) > 50:
                                return n, res
    finally:
        config.configuration.search_algorithm.chromosome_length = old_len
    return n, res


def _check_c15(part: Part, tier, seed):
    import multiprocessing as mp
    nsh = 16
    with mp.get_context("fork").Pool(nsh) as pool:
        out = pool.map(_shard_c15, [(i, nsh, tier, seed) for i in range(nsh)])
    for n, res in out:
        part.inputs_run += n
        part.nontrivial += n
        for op, (clause, cls, what), detail in res:
            part.violation(clause, f"{op}:{cls}", {"operation": op, "what": what, **detail},
                           target=f"{TC}:TestCase.{op}" if op != "splice_test_case_chromosomes"
                           else "pynguin.ga.operators.crossover:splice_test_case_chromosomes")


def bounded_c15(tier, seed):
    p = Part("C15", "testcase-operations-and-crossover",
             [f"{TC}:TestCase.append_test_case_from", f"{TC}:TestCase.remove_statement_with_forward_dependencies",
              f"{TC}:TestCase.forward_dependencies", f"{TC}:TestCase.chop", f"{TC}:TestCase.clone",
              f"{TC}:TestCase.remove_unused_variables", "pynguin.ga.operators.crossover:splice_test_case_chromosomes"],
             scope="every well-formed test case of <= 2 (thorough 3) statements as first parent and of <= 3 statements as second "
                   "parent over 7 statement templates (int literal, typed call, untyped call, call without binding, list of two "
                   "variables, typed and untyped nullary call; reads range over all earlier variables), every pair of cut points, "
                   "chromosome_length 3 and 40, through the real splice_test_case_chromosomes; plus chop / remove-with-forward-"
                   "dependencies / forward_dependencies / clone / remove_unused_variables at every index of the first parent",
             bound="first parent <= 2 (3) statements, second parent <= 3 statements")
    return guarded(p, _check_c15, tier, seed)


BOUNDED = [bounded_c15]
META = {"level": "other", "explanation": "bounded contract check of the real TestCase operations and the crossover operator over "
                                         "an exhaustively enumerated small scope of well-formed test cases",
        "rule": "one case per (operation, test case(s), positions)"}


def classify(g):
    return g.get("class", "")
