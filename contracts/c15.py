"""C15 — variation operators keep every test case well-formed."""
from pyvc.contracts import assumption, contract, for_property, klass, lemma, loop, predicate, ufun

for_property("C15")
TC = "pynguin.testcase.testcase"

# ==== proved: crossover's building block keeps 'every variable a statement reads is bound by an earlier statement' =============
# Statements are abstract: bound name, bound type and the set USED(node) of names the libcst node reads.
klass("libcst:CSTNode", fields={})
klass("libcst:SimpleStatementLine", fields={}, bases=["CSTNode"])
klass("libcst:BaseCompoundStatement", fields={}, bases=["CSTNode"])
klass("pynguin.assertion.assertion:Assertion", fields={})
klass(f"{TC}:Statement", fields={
    "node": "CSTNode", "bound_variable": "Optional[str]", "bound_type": "Optional[PyType]", "assertions": "list[Assertion]",
    "accessible": "Optional[GenericAccessibleObject]", "ml_info": "Optional[MLStatementInfo]"})
klass(f"{TC}:TestCase", fields={"_statements": "list[Statement]", "_var_counter": "int", "_code_cache": "Optional[str]",
                                "_type_registry": "dict[PyType,list[str]]"})
klass(f"{TC}:_VariableRenamer", fields={"_rename": "dict[str,str]"})
ufun("USED", ["CSTNode"], "set[str]")            # names read by a statement node (Statement.used_variables)
ufun("ISVAR", ["str"], "bool")                    # the name is a test-case variable (as opposed to a module alias, builtin ...)
assumption("Statement.used_variables() is a pure function USED of the node (libcst visitor, cached); node.visit(_VariableRenamer(m)) "
           "yields a node whose reads are the images of the original reads under m (names outside m unchanged) - the libcst "
           "transformer is assumed, its table is exercised by the bounded part")
contract(f"{TC}:Statement.used_variables", mode="assume", sig={"self": "Statement"}, returns="set[str]",
         ensures=["result == USED(self.node)"])
contract(f"{TC}:_VariableRenamer.__init__", sig={"self": "_VariableRenamer", "rename": "dict[str,str]"}, modifies=["self.ALL"],
         ensures=["self._rename == rename"])
REN = "(m[x] if x in m else x)"
contract("libcst:CSTNode.visit", mode="assume", sig={"self": "CSTNode", "visitor": "_VariableRenamer"}, returns="CSTNode",
         fresh_result=True,
         ensures=["all((visitor._rename[x] if x in visitor._rename else x) in USED(result) for x in USED(self))",
                  "all(any((visitor._rename[x] if x in visitor._rename else x) == y for x in USED(self)) for y in USED(result))",
                  # only Name leaves are rewritten: the top-level statement node keeps its kind
                  "isinstance(result, SimpleStatementLine) == isinstance(self, SimpleStatementLine)",
                  "isinstance(result, BaseCompoundStatement) == isinstance(self, BaseCompoundStatement)"])
predicate("stmt_nodes(t)", "all(isinstance(t._statements[i].node, SimpleStatementLine) or "
                           "isinstance(t._statements[i].node, BaseCompoundStatement) for i in range(len(t._statements)))")
contract("pynguin.utils.randomness:choice", mode="assume", sig={"sequence": "list[str]"}, returns="str",
         raises={"IndexError": "len(sequence) == 0"}, ensures=["any(sequence[i] == result for i in range(len(sequence)))"])

predicate("bound_in(t, nm)", "any(t._statements[j].bound_variable is not None and t._statements[j].bound_variable == nm "
                             "for j in range(len(t._statements)))")
# W1: def-before-use;  W2: the type registry only lists bound names;  D: bound names pairwise distinct
predicate("w1(t)", "all(all(implies(ISVAR(x), any(t._statements[j].bound_variable is not None and "
                   "t._statements[j].bound_variable == x for j in range(i))) for x in USED(t._statements[i].node)) "
                   "for i in range(len(t._statements)))")
# w1 as a *hypothesis* about a test case that does not change (the other parent), with the binder named by a Skolem function:
# equivalent to w1 where it is assumed (never used where it has to be proved)
ufun("BINDER", ["TestCase", "int", "str"], "int")
predicate("w1_given(t)", "all(all(implies(ISVAR(x), 0 <= BINDER(t, i, x) and BINDER(t, i, x) < i and "
                         "t._statements[BINDER(t, i, x)].bound_variable is not None and "
                         "t._statements[BINDER(t, i, x)].bound_variable == x) for x in USED(t._statements[i].node)) "
                         "for i in range(len(t._statements)))")
predicate("w2(t)", "all(all(bound_in(t, t._type_registry[ty][k]) for k in range(len(t._type_registry[ty]))) "
                   "for ty in keys(t._type_registry))")
predicate("distinct(t)", "all(all(implies(i != j and t._statements[i].bound_variable is not None and "
                         "t._statements[j].bound_variable is not None, "
                         "t._statements[i].bound_variable != t._statements[j].bound_variable) "
                         "for j in range(len(t._statements))) for i in range(len(t._statements)))")

contract(f"{TC}:TestCase.statements", sig={"self": "TestCase"}, returns="list[Statement]",
         ensures=["len(result) == len(self._statements)",
                  "all(result[i] is self._statements[i] for i in range(len(result)))"])
contract(f"{TC}:TestCase.variables_of_type", sig={"self": "TestCase", "t": "PyType"}, returns="list[str]",
         requires=["w2(self)"], ensures=["all(bound_in(self, result[k]) for k in range(len(result)))"])
contract(f"{TC}:TestCase.next_var_name", sig={"self": "TestCase"}, returns="str", modifies=["self._var_counter"],
         ensures=["self._var_counter == old(self._var_counter) + 1"])
assumption("TestCase._register (three lines: setdefault(bound_type, []).append(bound_variable), a list nested in a dict - outside "
           "the verifier's value model of containers) only ever adds the statement's own bound variable to the registry (assumed)")
contract(f"{TC}:TestCase._register", mode="assume", sig={"self": "TestCase", "stmt": "Statement"}, modifies=["self._type_registry"],
         ensures=["all(all((ty in old(self._type_registry) and any(old(self._type_registry)[ty][q] == self._type_registry[ty][k] "
                  "             for q in range(len(old(self._type_registry)[ty])))) "
                  "        or (stmt.bound_variable is not None and self._type_registry[ty][k] == stmt.bound_variable) "
                  "    for k in range(len(self._type_registry[ty]))) for ty in keys(self._type_registry))"])
RENAME_OK = "all(bound_in(self, rename[x]) for x in keys(rename))"       # every remapped name is bound in this test case
contract(f"{TC}:TestCase._resolve_head_references",
         sig={"self": "TestCase", "stmt": "Statement", "head_types": "dict[str,Optional[PyType]]", "rename": "dict[str,str]",
              "dropped": "set[str]"}, returns="bool",
         requires=["w2(self)", RENAME_OK], modifies=["rename"],
         ensures=["keys(old(rename)) <= keys(rename)", "all(rename[x] == old(rename)[x] for x in keys(old(rename)))", RENAME_OK,
                  "all(x in keys(old(rename)) or x in keys(head_types) for x in keys(rename))",
                  # a True answer: no read is dropped, and every read into the other parent's head has been remapped
                  "implies(result, all(x not in dropped and (x in keys(rename) or x not in keys(head_types)) "
                  "for x in USED(stmt.node)))"])
loop(f"{TC}:TestCase._resolve_head_references", 0, invariant=[
    "keys(old(rename)) <= keys(rename)", "all(rename[x] == old(rename)[x] for x in keys(old(rename)))", RENAME_OK,
    "all(x in keys(old(rename)) or x in keys(head_types) for x in keys(rename))",
    "all(x not in dropped and (x in keys(rename) or x not in keys(head_types)) for x in _done)"])

TAIL = "other._statements[start + {k}]"
contract(f"{TC}:TestCase.append_test_case_from", sig={"self": "TestCase", "other": "TestCase", "start": "int"},
         requires=["self is not other", "0 <= start", "w1(self)", "w2(self)", "w1_given(other)", "distinct(other)", "stmt_nodes(other)",
                   # the names statements bind are test-case variables
                   "all(implies(other._statements[i].bound_variable is not None, ISVAR(other._statements[i].bound_variable)) "
                   "for i in range(len(other._statements)))"],
         modifies=["self._statements", "self._code_cache", "self._type_registry", "self._var_counter"],
         raises={"IndexError": "False"},
         ensures=["w1(self)", "w2(self)",
                  "len(self._statements) >= len(old(self._statements))",
                  "all(self._statements[i] is old(self._statements)[i] for i in range(len(old(self._statements))))"])
loop(f"{TC}:TestCase.append_test_case_from", 0,
     # frame of the loop: objects that exist at loop entry (all statements of both parents) keep their fields
     modifies=["self._statements", "self._code_cache", "self._type_registry", "self._var_counter"],
     invariant=[
    "w1(self)", "w2(self)", RENAME_OK,
    "len(self._statements) >= len(old(self._statements))",
    "all(self._statements[i] is old(self._statements)[i] for i in range(len(old(self._statements))))",
    # the head of the other parent: every bound name is a key of head_types
    "all(implies(other._statements[j].bound_variable is not None, other._statements[j].bound_variable in keys(head_types)) "
    "for j in range(min(start, len(other._statements))))",
    # every name bound by an already processed tail statement has been renamed or dropped
    "all(implies(_seq[k].bound_variable is not None, _seq[k].bound_variable in keys(rename) or _seq[k].bound_variable in dropped) "
    "for k in range(_i))",
    "all(_seq[k] is other._statements[start + k] for k in range(len(_seq)))", "len(_seq) == max(len(other._statements) - start, 0)",
    # def-before-use of the other parent, restated along the progress of the loop: a variable read by a not yet processed tail
    # statement is bound by the head, has been renamed or dropped, or is bound by a not yet processed earlier tail statement
    # (the same fact as three lines above, indexed by positions of the other parent)
    "all(implies(other._statements[q].bound_variable is not None, other._statements[q].bound_variable in keys(rename) or "
    "other._statements[q].bound_variable in dropped) for q in range(start, min(start + _i, len(other._statements))))",
    "all(all(implies(ISVAR(x), 0 <= BINDER(other, p, x) and BINDER(other, p, x) < p and "
    "        other._statements[BINDER(other, p, x)].bound_variable is not None and "
    "        other._statements[BINDER(other, p, x)].bound_variable == x) "
    "    for x in USED(other._statements[p].node)) for p in range(start + _i, len(other._statements)))"],
     derived=[
    # ... hence (a cut proved from the invariants at the loop head): a variable the statement being processed reads is bound
    # by the head, or has been renamed or dropped
    "all(all(implies(ISVAR(x), x in keys(head_types) or x in keys(rename) or x in dropped or "
    "        BINDER(other, p, x) >= start + _i) "
    "    for x in USED(other._statements[p].node)) for p in range(start + _i, len(other._statements)))"])
contract(f"{TC}:TestCase.add_statement", sig={"self": "TestCase", "stmt": "Statement"},
         requires=["w2(self)"], modifies=["self._statements", "self._code_cache", "self._type_registry"],
         ensures=["len(self._statements) == len(old(self._statements)) + 1",
                  "all(self._statements[i] is old(self._statements)[i] for i in range(len(old(self._statements))))",
                  "self._statements[len(self._statements) - 1] is stmt", "w2(self)"])


# ==== bounded stand-in: the data structure operations and single-point crossover on enumerated well-formed test cases ==========
import itertools  # noqa: E402

from pyvc.bounded import Part, guarded  # noqa: E402


def wf_problems(tc, max_len=None):
    """The statement's well-formedness, natively: valid Python, reads bound earlier, fresh names, registry == statements."""
    import ast as _ast
    out = []
    stmts = tc.statements()
    bound = [s.bound_variable for s in stmts if s.bound_variable is not None]
    if len(bound) != len(set(bound)):
        out.append(("bound variable names are pairwise distinct", "duplicate-name", repr(bound)))
    seen = set()
    for i, s in enumerate(stmts):
        for x in sorted(s.used_variables()):
            if x.startswith("var_") and x not in seen:
                out.append(("every variable a statement reads is bound by an earlier statement", "dangling-read",
                            f"statement {i} reads {x}"))
        if s.bound_variable is not None:
            seen.add(s.bound_variable)
    reg = {}
    for s in stmts:
        if s.bound_variable is not None and s.bound_type is not None:
            reg.setdefault(s.bound_type, []).append(s.bound_variable)
    if reg != tc._type_registry:   # noqa: SLF001
        out.append(("the type registry matches the statements", "registry", f"{tc._type_registry!r} vs {reg!r}"))   # noqa: SLF001
    for b in bound:
        if b.startswith("var_") and b[4:].isdigit() and int(b[4:]) >= tc._var_counter:   # noqa: SLF001
            out.append(("fresh names are never reused: every bound var_N has N below the counter", "counter",
                        f"{b} counter={tc._var_counter}"))   # noqa: SLF001
    try:
        _ast.parse(tc.to_code())
    except SyntaxError as e:
        out.append(("the test case is valid Python", "syntax", str(e)))
    if max_len is not None and tc.size() > max_len:
        out.append(("the test case stays within the configured maximum length", "too-long", f"{tc.size()} > {max_len}"))
    return out


_TEMPLATES = [   # (source with {k} = bound name and {a}/{b} = read variables, number of reads, binds?, bound_type)
    ("{k} = 7", 0, True, int), ("{k} = module_0.f({a})", 1, True, int), ("{k} = module_0.u({a})", 1, True, None),
    ("module_0.h({a})", 1, False, None), ("{k} = [{a}, {b}]", 2, True, list), ("{k} = module_0.g()", 0, True, str),
    ("{k} = module_0.v()", 0, True, None),
]


def _all_test_cases(max_len):
    """Every well-formed test case of 0..max_len statements over the templates (reads range over all earlier variables)."""
    import libcst as cst
    from pynguin.testcase.testcase import Statement, TestCase

    def build(spec):
        tc = TestCase()
        for (ti, reads) in spec:
            src, _n, binds, bt = _TEMPLATES[ti]
            k = tc.next_var_name() if binds else None
            code = src.format(k=k, a=reads[0] if reads else "", b=reads[1] if len(reads) > 1 else "")
            tc.add_statement(Statement(node=cst.parse_statement(code), bound_variable=k, bound_type=bt))
        return tc

    def rec(spec, names, nbound):
        yield spec
        if len(spec) == max_len:
            return
        for ti, (src, n, binds, bt) in enumerate(_TEMPLATES):
            if n > 0 and not names:
                continue
            for reads in itertools.product(names, repeat=n):
                new = names + ([f"var_{nbound}"] if binds else [])
                yield from rec(spec + [(ti, reads)], new, nbound + (1 if binds else 0))
    for spec in rec([], [], 0):
        yield spec, build(spec)


def _shard_c15(args):
    idx, nshards, tier, seed = args
    import pynguin.configuration as config
    import pynguin.ga.testcasechromosome as tcc
    from pynguin.ga.operators.crossover import splice_test_case_chromosomes
    from pynguin.utils import randomness
    la, lb = (3, 3) if tier == "thorough" else (2, 3)
    As = list(_all_test_cases(la))
    Bs = list(_all_test_cases(lb))
    old_len = config.configuration.search_algorithm.chromosome_length
    res, n = [], 0
    try:
        for ai, (sa, A) in enumerate(As):
            if ai % nshards != idx:
                continue
            # single test case operations
            for i in range(A.size()):
                n += 1
                t = A.clone()
                removed = t.remove_statement_with_forward_dependencies(i)
                for p in wf_problems(t):
                    res.append(("remove_statement_with_forward_dependencies", p, {"test": A.to_code(), "index": i, "after": t.to_code()}))
                t2 = A.clone()
                dep = t2.forward_dependencies(i)
                bound_in = {A.get_statement(j).bound_variable for j in dep} - {None}
                for j in range(A.size()):
                    if j not in dep and j > i and A.get_statement(j).used_variables() & bound_in:
                        res.append(("forward_dependencies", ("the forward closure contains every later reader of a name it binds",
                                                             "closure", f"statement {j}"), {"test": A.to_code(), "index": i, "closure": sorted(dep)}))
                if removed != dep:
                    res.append(("remove_statement_with_forward_dependencies",
                                ("the removed set is the forward closure", "closure", repr(removed)), {"test": A.to_code(), "index": i}))
            for pos in range(-1, A.size()):
                n += 1
                t = A.clone()
                t.chop(pos)
                for p in wf_problems(t):
                    res.append(("chop", p, {"test": A.to_code(), "position": pos, "after": t.to_code()}))
            t = A.clone()
            if t.to_code() != A.to_code() or t._var_counter != A._var_counter:   # noqa: SLF001
                res.append(("clone", ("a clone has the same content and name counter", "clone", ""), {"test": A.to_code()}))
            t.remove_unused_variables()
            for p in wf_problems(t):
                res.append(("remove_unused_variables", p, {"test": A.to_code(), "after": t.to_code()}))
            # single-point crossover through the real operator
            for (sb, B) in Bs:
                for p1 in range(A.size() + 1):
                    for p2 in range(B.size() + 1):
                        for maxlen in (3, 40):
                            n += 1
                            config.configuration.search_algorithm.chromosome_length = maxlen
                            randomness.RNG.seed(seed + p1 * 7 + p2)
                            pa = tcc.TestCaseChromosome(test_case=A.clone(), test_factory=object())
                            pb = tcc.TestCaseChromosome(test_case=B.clone(), test_factory=object())
                            before_b = pb.test_case.to_code()
                            splice_test_case_chromosomes(pa, pb, p1, p2)
                            for p in wf_problems(pa.test_case, max_len=max(maxlen, A.size())):
                                res.append(("splice_test_case_chromosomes", p,
                                            {"parent": A.to_code(), "other": B.to_code(), "position1": p1, "position2": p2,
                                             "chromosome_length": maxlen, "offspring": pa.test_case.to_code()}))
                            if pb.test_case.to_code() != before_b:
                                res.append(("splice_test_case_chromosomes", ("crossover leaves the other parent unchanged", "other-changed", ""),
                                            {"parent": A.to_code(), "other": B.to_code()}))
                            if len(res) > 50:
                                return n, res
    finally:
        config.configuration.search_algorithm.chromosome_length = old_len
    return n, res


def _check_c15(part: Part, tier, seed):
    import multiprocessing as mp
    nsh = 16
    with mp.get_context("fork").Pool(nsh) as pool:
        out = pool.map(_shard_c15, [(i, nsh, tier, seed) for i in range(nsh)])
    for n, res in out:
        part.inputs_run += n
        part.nontrivial += n
        for op, (clause, cls, what), detail in res:
            part.violation(clause, f"{op}:{cls}", {"operation": op, "what": what, **detail},
                           target=f"{TC}:TestCase.{op}" if op != "splice_test_case_chromosomes"
                           else "pynguin.ga.operators.crossover:splice_test_case_chromosomes")


def bounded_c15(tier, seed):
    p = Part("C15", "testcase-operations-and-crossover",
             [f"{TC}:TestCase.append_test_case_from", f"{TC}:TestCase.remove_statement_with_forward_dependencies",
              f"{TC}:TestCase.forward_dependencies", f"{TC}:TestCase.chop", f"{TC}:TestCase.clone",
              f"{TC}:TestCase.remove_unused_variables", "pynguin.ga.operators.crossover:splice_test_case_chromosomes"],
             scope="every well-formed test case of <= 2 (thorough 3) statements as first parent and of <= 3 statements as second "
                   "parent over 7 statement templates (int literal, typed call, untyped call, call without binding, list of two "
                   "variables, typed and untyped nullary call; reads range over all earlier variables), every pair of cut points, "
                   "chromosome_length 3 and 40, through the real splice_test_case_chromosomes; plus chop / remove-with-forward-"
                   "dependencies / forward_dependencies / clone / remove_unused_variables at every index of the first parent",
             bound="first parent <= 2 (3) statements, second parent <= 3 statements")
    return guarded(p, _check_c15, tier, seed)


_FACTORY_SUT = "c15_factory_sut"
_FACTORY_SRC = '''
import enum


class Colour(enum.Enum):
    RED = 1
    GREEN = 2


class Account:
    limit = 100

    def __init__(self, owner: str, balance: int) -> None:
        self.owner = owner
        self.balance = balance

    def deposit(self, amount: int) -> int:
        self.balance += amount
        return self.balance

    def rename(self, owner: str) -> str:
        self.owner = owner
        return owner

    def peers(self, others: list["Account"]) -> int:
        return len(others)


class Ledger:
    def __init__(self, first: Account, limit: int) -> None:
        self.accounts = [first]
        self.limit = limit

    def add(self, account: Account) -> int:
        self.accounts.append(account)
        return len(self.accounts)

    def lookup(self, table: dict[str, Account], key: str):
        return table.get(key)


def scale(value: int, factor: float) -> float:
    return value * factor


def label(account: Account, tag: str, colour: Colour) -> str:
    return f"{account.owner}:{tag}:{colour.name}"


def total(values: list[int], start: int) -> int:
    return sum(values, start)


def pair(a, b):
    return (a, b)


def apply(fn, value: int):
    return fn(value)


def flags(items: set[str], pairs: tuple[int, str], data: bytes, flag: bool, ratio: complex) -> int:
    return len(items)
'''


def _shard_factory(args):
    """Random histories of the real variation operators (test factory, mutation operator, crossover, TestCase clean-ups)."""
    idx, nshards, trials, seed, max_len = args
    import importlib, os, shutil, sys, tempfile  # noqa: E401
    import pynguin.configuration as config
    import pynguin.ga.testcasechromosome as tcc
    import pynguin.testcase.testcase as tcm
    import pynguin.testcase.testfactory as tf
    from pynguin.analyses.module import generate_test_cluster
    from pynguin.ga.operators.crossover import SinglePointRelativeCrossOver, splice_test_case_chromosomes
    from pynguin.utils import randomness
    d = tempfile.mkdtemp(prefix="c15f_")
    with open(os.path.join(d, _FACTORY_SUT + ".py"), "w", encoding="utf-8") as f:
        f.write(_FACTORY_SRC)
    sys.path.insert(0, d)
    importlib.invalidate_caches()
    saved = (config.configuration.module_name, config.configuration.search_algorithm.chromosome_length)
    res, n = [], 0
    try:
        config.configuration.module_name = _FACTORY_SUT
        config.configuration.search_algorithm.chromosome_length = max_len
        cluster = generate_test_cluster(_FACTORY_SUT)
        factory = tf.TestFactory(cluster)
        crossover = SinglePointRelativeCrossOver()

        def fresh(k):
            ch = tcc.TestCaseChromosome(tcm.TestCase(), factory)
            for _ in range(30):
                if ch.size() >= k:
                    break
                factory.insert_random_statement(ch.test_case, ch.size())
            return ch

        def pos(ch):
            return randomness.next_int(0, max(1, ch.size()))
        ops = {
            "mutate": lambda a, b: a.mutate(),
            "insertion-mutation": lambda a, b: a._mutation_insert(),   # noqa: SLF001
            "crossover": lambda a, b: crossover.cross_over(a, b),
            "splice-at-end": lambda a, b: splice_test_case_chromosomes(a, b.clone(), a.size(), randomness.next_int(0, max(1, b.size()))),
            "insert_random_statement": lambda a, b: factory.insert_random_statement(a.test_case, pos(a)),
            "delete_statement_gracefully": lambda a, b: a.size() and factory.delete_statement_gracefully(a.test_case, pos(a)),
            # (TestFactory.delete_statement, the raw removal of one statement, is a primitive with the precondition that the
            #  bound variable is unused; the variation operators delete through delete_statement_gracefully)
            "change_random_call": lambda a, b: a.size() and factory.change_random_call(a.test_case, pos(a)),
            "change_statement_type": lambda a, b: a.size() and factory.change_statement_type(a.test_case, pos(a)),
            "change_random_field_call": lambda a, b: a.size() and factory.change_random_field_call(a.test_case, pos(a)),
            "mutate_value": lambda a, b: a.size() and factory.mutate_value(a.test_case, pos(a)),
            "mutate_call": lambda a, b: a.size() and factory.mutate_call(a.test_case, pos(a)),
            "chop": lambda a, b: a.size() and a.test_case.chop(pos(a)),
            "remove_unused_variables": lambda a, b: a.test_case.remove_unused_variables(),
            "remove_statement_with_forward_dependencies": lambda a, b: a.size() and a.test_case.remove_statement_with_forward_dependencies(pos(a)),
            "clone-and-replace": lambda a, b: setattr(a, "test_case", a.test_case.clone()),
        }
        names = sorted(ops)
        # the operations the length bound is stated for ("crossover and insertion"); the change mutation inside mutate() may
        # regenerate arguments and is not named by the statement
        limited = {"insertion-mutation", "crossover", "splice-at-end"}
        for t in range(trials):
            if t % nshards != idx:
                continue
            randomness.RNG.seed(seed * 100003 + t)
            pop = {"a": fresh(3), "b": fresh(5), "c": fresh(2)}
            pop["copy-of-a"] = pop["a"].clone()
            history = []
            bad = False
            for step in range(14):
                op = names[randomness.next_int(0, len(names))]
                x, y = randomness.choice(sorted(pop)), randomness.choice(sorted(pop))
                before = {k: v.size() for k, v in pop.items()}
                history.append(f"{op}({x}, {y})")
                n += 1
                try:
                    ops[op](pop[x], pop[y])
                except Exception as e:  # noqa: BLE001
                    res.append(("a variation operator applied to well-formed test cases does not fail", f"raises:{op}:{type(e).__name__}",
                                {"history": list(history), "error": f"{type(e).__name__}: {e}"[:300], "test_case": pop[x].test_case.to_code()[:800]}))
                    bad = True
                    break
                for k, ch in pop.items():
                    lim = max_len if (op in limited and ch.size() > before[k]) else None
                    for clause, kind, what in wf_problems(ch.test_case, lim):
                        res.append((clause, f"{kind}:after-{op}", {"history": list(history), "test_case_name": k, "what": what,
                                                                   "test_case": ch.test_case.to_code()[:1200]}))
                        bad = True
                if bad:
                    break
            if len(res) > 40:
                break
    finally:
        config.configuration.module_name, config.configuration.search_algorithm.chromosome_length = saved
        sys.modules.pop(_FACTORY_SUT, None)
        if d in sys.path:
            sys.path.remove(d)
        shutil.rmtree(d, ignore_errors=True)
    return n, res


def _check_factory(part: Part, tier, seed):
    import multiprocessing as mp
    nsh = 16
    trials = 4000 if tier == "thorough" else 800
    with mp.get_context("fork").Pool(nsh) as pool:
        out = pool.map(_shard_factory, [(i, nsh, trials, seed, 12) for i in range(nsh)])
    seen = set()
    for n, res in out:
        part.inputs_run += n
        part.nontrivial += n
        for clause, cls, detail in res:
            if cls in seen:
                continue
            seen.add(cls)
            part.violation(clause, cls, detail, target="pynguin.testcase.testfactory:TestFactory")


def bounded_factory(tier, seed):
    p = Part("C15", "factory-histories", ["pynguin.testcase.testfactory:TestFactory.insert_random_statement",
                                          "pynguin.testcase.testfactory:TestFactory.delete_statement_gracefully",
                                          "pynguin.testcase.testfactory:TestFactory.change_random_call",
                                          "pynguin.testcase.testfactory:TestFactory.change_statement_type",
                                          "pynguin.testcase.testfactory:TestFactory.mutate_value", "pynguin.testcase.testfactory:TestFactory.mutate_call",
                                          "pynguin.ga.testcasechromosome:TestCaseChromosome.mutate",
                                          "pynguin.ga.operators.crossover:SinglePointRelativeCrossOver.cross_over",
                                          f"{TC}:TestCase.chop", f"{TC}:TestCase.remove_unused_variables", f"{TC}:TestCase.clone"],
             scope="800 (thorough 4000) seeded random histories of 14 operations out of 15 (mutation operator, relative and boundary "
                   "crossover, the test factory's insert / delete / change-call / change-type / field / value / call mutations, chop, "
                   "unused-variable removal, forward-dependency removal, clone) over 4 test cases (one a clone of another) built by the "
                   "real test factory for a generated cluster (classes, methods, a class attribute, enum, list/dict/set/tuple/bytes/"
                   "complex parameters, untyped and callable parameters), maximum length 12; after every operation every live test "
                   "case is checked: valid Python, reads bound earlier, distinct names below the counter, registry equal to the "
                   "statements, and (for mutation and crossover that grew it) length within the maximum",
             bound="sampled histories (not exhaustive), one module; local search is not driven")
    return guarded(p, _check_factory, tier, seed)


BOUNDED = [bounded_c15, bounded_factory]
META = {"level": "other", "explanation": "bounded contract check of the real TestCase operations and the crossover operator over "
                                         "an exhaustively enumerated small scope of well-formed test cases",
        "rule": "one case per (operation, test case(s), positions)"}


def classify(g):
    return g.get("class", "")
