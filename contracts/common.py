"""Class schemas and spec predicates shared by several properties."""
from pyvc.contracts import klass, predicate, ufun, type_alias, exception, assumption

T = "pynguin.instrumentation.tracer"

klass(f"{T}:ExecutionTrace", fields={
    "executed_code_objects": "set[int]",
    "executed_predicates": "dict[int,int]",
    "true_distances": "dict[int,float]",
    "false_distances": "dict[int,float]",
    "covered_line_ids": "set[int]",
    "checked_lines": "set[int]",
    "object_addresses": "set[int]",
    "executed_instructions": "list[ExecutedInstruction]",
    "executed_assertions": "list[ExecutedAssertion]",
})
klass(f"{T}:ExecutedAssertion", fields={"trace_position": "int", "assertion": "Assertion"}, record=True)
klass(f"{T}:PredicateMetaData", fields={"line_no": "int", "code_object_id": "int", "node": "BasicBlockNode"})
klass(f"{T}:LineMetaData", fields={"code_object_id": "int", "file_name": "str", "line_number": "int"})
klass("types:CodeType", fields={"co_firstlineno": "int"})
klass(f"{T}:CodeObjectMetaData", fields={"code_object": "CodeType"})
klass(f"{T}:SubjectProperties", fields={
    "existing_code_objects": "dict[int,CodeObjectMetaData]",
    "existing_predicates": "dict[int,PredicateMetaData]",
    "existing_lines": "dict[int,LineMetaData]",
})

klass("pynguin.testcase.execution_result:ExecutionResult", fields={
    "timeout": "bool",
    "exceptions": "dict[int,BaseException]",
    "execution_trace": "Optional[ExecutionTrace]",
    "num_executed_statements": "int",
    "assertion_trace": "AssertionTrace", "assertion_verification_trace": "AssertionVerificationTrace",
    "raw_return_types": "dict[int,type]", "raw_return_type_generic_args": "dict[int,typeargs]",
    "proper_return_type_trace": "dict[int,ProperType]", "proxy_knowledge": "ProxyKnowledge",
})

# distances are >= 0 and not NaN (may be +inf); counts >= 1; the three predicate maps share their keys
predicate("wf_dist(d)", "all(not isnan(d[k]) and d[k] >= 0 for k in keys(d))")
predicate("wf_trace(t)",
          "keys(t.true_distances) == keys(t.executed_predicates) and "
          "keys(t.false_distances) == keys(t.executed_predicates) and "
          "all(t.executed_predicates[k] >= 1 for k in keys(t.executed_predicates)) and "
          "wf_dist(t.true_distances) and wf_dist(t.false_distances)")
predicate("trace_in_registry(t, sp)",
          "keys(t.executed_predicates) <= keys(sp.existing_predicates) and "
          "t.executed_code_objects <= keys(sp.existing_code_objects) and "
          "t.covered_line_ids <= keys(sp.existing_lines) and t.checked_lines <= keys(sp.existing_lines)")


# ---------------------------------------------------------------------------------------
# builders of real objects for native replay
from pyvc.replay import builder  # noqa: E402


class _Stub:
    def __init__(self, **kw):
        self.__dict__.update(kw)

    def __repr__(self):
        return f"Stub({self.__dict__})"


@builder("ExecutionTrace")
def _b_trace(f, ctx):
    from pynguin.instrumentation.tracer import ExecutionTrace
    from pynguin.utils.orderedset import OrderedSet
    t = ExecutionTrace()
    t.executed_code_objects = OrderedSet(sorted(f.get("executed_code_objects", ())))
    t.executed_predicates = dict(f.get("executed_predicates", {}))
    t.true_distances = dict(f.get("true_distances", {}))
    t.false_distances = dict(f.get("false_distances", {}))
    t.covered_line_ids = OrderedSet(sorted(f.get("covered_line_ids", ())))
    t.checked_lines = OrderedSet(sorted(f.get("checked_lines", ())))
    t.object_addresses = OrderedSet(sorted(f.get("object_addresses", ())))
    t.executed_instructions = list(f.get("executed_instructions", []))
    t.executed_assertions = list(f.get("executed_assertions", []))
    return t


@builder("ExecutionResult")
def _b_er(f, ctx):
    from pynguin.testcase.execution_result import ExecutionResult
    r = ExecutionResult(timeout=bool(f.get("timeout", False)))
    r.execution_trace = f.get("execution_trace")
    r.exceptions = {k: RuntimeError("x") for k in f.get("exceptions", {})}
    r.num_executed_statements = f.get("num_executed_statements", 0)
    return r


@builder("PredicateMetaData")
def _b_pm(f, ctx):
    from pynguin.instrumentation.tracer import PredicateMetaData
    return PredicateMetaData(line_no=f.get("line_no", 1), code_object_id=f.get("code_object_id", 0), node=f.get("node"))


@builder("LineMetaData")
def _b_lm(f, ctx):
    from pynguin.instrumentation.tracer import LineMetaData
    return LineMetaData(code_object_id=f.get("code_object_id", 0), file_name=f.get("file_name", "f.py"), line_number=f.get("line_number", 1))


@builder("CodeObjectMetaData")
def _b_com(f, ctx):
    return _Stub(**f)


@builder("CodeType")
def _b_code(f, ctx):
    return _Stub(**f)


@builder("SubjectProperties")
def _b_sp(f, ctx):
    from pynguin.instrumentation.tracer import SubjectProperties
    sp = SubjectProperties()
    sp.existing_code_objects = dict(f.get("existing_code_objects", {}))
    sp.existing_predicates = dict(f.get("existing_predicates", {}))
    sp.existing_lines = dict(f.get("existing_lines", {}))
    return sp


# ---------------------------------------------------------------------------------------
# samplers of well-formed instances for the small-scope counterexample search
from pyvc.enumerate import sampler  # noqa: E402
from pyvc.replay import Obj  # noqa: E402


@sampler("ExecutionTrace")
def _s_trace(sc, cls):
    r = sc.rnd
    o = Obj(cls, sc.next_ref)
    sc.next_ref += 1
    keys = [k for k in sc.keys if r.random() < 0.6]
    dist = [0.0, 0.0, 0.5, 1.0, 3.0, float("inf")]
    o.fields = {
        "executed_code_objects": ("$set", [k for k in sc.keys if r.random() < 0.5]),
        "executed_predicates": ("$dict", [(k, r.choice([1, 1, 2, 3])) for k in keys]),
        "true_distances": ("$dict", [(k, r.choice(dist)) for k in keys]),
        "false_distances": ("$dict", [(k, r.choice(dist)) for k in keys]),
        "covered_line_ids": ("$set", [k for k in sc.keys if r.random() < 0.5]),
        "checked_lines": ("$set", [k for k in sc.keys if r.random() < 0.3]),
        "object_addresses": ("$set", []),
        "executed_instructions": [("$opaque", "ExecutedInstruction", f"i{j}") for j in range(r.randint(0, 2))],
        "executed_assertions": [(r.randint(0, 2), ("$opaque", "Assertion", f"a{j}")) for j in range(r.randint(0, 2))],
    }
    return o
