"""C22 — minimization never reduces coverage."""
from pyvc.contracts import assumption, contract, for_property, klass, lemma, loop, predicate, ufun

for_property("C22")
PP = "pynguin.ga.postprocess"


# ==== bounded stand-in: the real _minimize on enumerated suites over a small instrumented module ==============================
import itertools  # noqa: E402
import math  # noqa: E402

from pyvc.bounded import Part, guarded  # noqa: E402

_MODULE = "c22_subject"
_SOURCE = '''
def classify(x):
    if x > 0:
        return "positive"
    return "non-positive"


def increment(x):
    return x + 1


def pick(a, b):
    if a:
        return b
    return 0


class Box:
    def __init__(self, v):
        self.v = v

    def get(self):
        if self.v is None:
            return -1
        return self.v
'''

# building blocks of a test case: (lines [(name, rhs, type)], name of the variable that may carry an assertion)
_BLOCKS = [
    ([("int_{n}", "1", int), ("str_{n}", "{m}.classify(int_{n})", str)], "str_{n}"),
    ([("int_{n}", "-1", int), ("str_{n}", "{m}.classify(int_{n})", str)], "str_{n}"),
    ([("int_{n}", "2", int), ("res_{n}", "{m}.increment(int_{n})", int)], "res_{n}"),
    ([("bool_{n}", "True", bool), ("int_{n}", "4", int), ("res_{n}", "{m}.pick(bool_{n}, int_{n})", int)], "res_{n}"),
    ([("int_{n}", "9", int), ("box_{n}", "{m}.Box(int_{n})", None), ("res_{n}", "box_{n}.get()", int)], "res_{n}"),
    ([("int_{n}", "5", int)], None),
    # an asserted value three dependency levels below its first input (only the last statement carries the assertion)
    ([("int_{n}", "3", int), ("one_{n}", "{m}.increment(int_{n})", int), ("two_{n}", "{m}.increment(one_{n})", int),
      ("res_{n}", "{m}.increment(two_{n})", int)], "res_{n}"),
    # an object asserted only through its attribute, and an unbound call on it that carries an oracle
    ([("int_{n}", "9", int), ("box_{n}", "{m}.Box(int_{n})", None), (None, "box_{n}.get()", None)], None),
]


def _setup():
    import importlib, logging, sys, tempfile, types  # noqa: E401
    from pathlib import Path
    import pynguin.configuration as config
    import pynguin.ga.computations as ff
    from pynguin.instrumentation.machinery import install_import_hook
    from pynguin.instrumentation.tracer import SubjectProperties
    from pynguin.testcase.execution import TestCaseExecutor
    from pynguin.utils.orderedset import OrderedSet
    logging.disable(logging.CRITICAL)
    workdir = Path(tempfile.mkdtemp(prefix="c22_"))
    (workdir / f"{_MODULE}.py").write_text(_SOURCE)
    sys.path.insert(0, str(workdir))
    config.configuration.module_name = _MODULE
    config.configuration.statistics_output.coverage_metrics = [config.CoverageMetric.BRANCH, config.CoverageMetric.LINE]
    config.configuration.test_case_output.post_process = True
    sp = SubjectProperties()
    hook = install_import_hook(_MODULE, sp)
    hook.__enter__()
    with sp.instrumentation_tracer:
        module = importlib.import_module(_MODULE)
        importlib.reload(module)
    executor = TestCaseExecutor(sp)
    funcs = OrderedSet([ff.TestSuiteBranchCoverageFunction(executor), ff.TestSuiteLineCoverageFunction(executor)])
    return workdir, hook, funcs, types.SimpleNamespace(test_suite_coverage_functions=funcs)


def _mk_test(blocks, asserted, counter):
    import libcst as cst
    import pynguin.assertion.assertion as ass
    import pynguin.testcase.testcase as tc
    from pynguin.utils.naming import get_module_alias
    m = get_module_alias(_MODULE)
    t = tc.TestCase()
    for bi, with_assert in zip(blocks, asserted):
        lines, avar = _BLOCKS[bi]
        n = next(counter)
        for name, rhs, typ in lines:
            rhs = rhs.format(n=n, m=m)
            if name is None:
                # a statement without binding (what is left when an unused binding is stripped); when asserted, it carries an
                # oracle about the object it was called on
                st = tc.Statement(node=cst.parse_module(f"{rhs}\n").body[0], bound_variable=None, bound_type=None)
                if with_assert:
                    st.assertions.append(ass.ObjectAssertion(rhs.split(".")[0] + ".v", 9))
                t.add_statement(st)
                continue
            name = name.format(n=n)
            st = tc.Statement(node=cst.parse_module(f"{name} = {rhs}\n").body[0], bound_variable=name, bound_type=typ)
            if with_assert and avar is not None and name == avar.format(n=n):
                st.assertions.append(ass.IsInstanceAssertion(name, "builtins", "object"))
            if with_assert and name.startswith("box_"):
                st.assertions.append(ass.ObjectAssertion(f"{name}.v", 9))       # asserted through an attribute path
            t.add_statement(st)
    return t


def _suite_specs(tier):
    nb = len(_BLOCKS)
    tests = [(b,) for b in range(nb)] + [(a, b) for a in range(nb) for b in range(nb)]
    if tier == "thorough":
        tests += [(a, b, c) for a in range(nb - 1) for b in range(nb - 1) for c in range(nb - 1)]
    singles = [(t,) for t in tests]
    pairs = [(a, b) for a in tests for b in tests]
    return singles + pairs


def _rhs_codes(suite):
    import libcst as cst
    out = set()
    for ch in suite.test_case_chromosomes:
        for s in ch.test_case.statements():
            out.add(cst.Module(body=[s.node]).code.strip().split(" = ", 1)[-1])
    return out


def _shard_c22(args):
    idx, nshards, tier, seed = args
    import pynguin.configuration as config
    import pynguin.ga.testcasechromosome as tcc
    import pynguin.ga.testsuitechromosome as tsc
    import pynguin.generator as gen
    workdir, hook, funcs, algorithm = _setup()
    res, n = [], 0
    rnd = __import__("random").Random(seed)
    specs = _suite_specs(tier)
    rnd.shuffle(specs)
    cap = 4000 if tier == "thorough" else 320
    # always included: the deep assertion chain next to code that makes its coverage redundant (within one test and across tests)
    directed = [((6, 6),), ((6, 2),), ((2, 6),), ((6,), (6,)), ((6, 0), (2,)), ((6, 6), (6,)),
                # objects asserted through attributes / unbound asserted calls next to code that makes their coverage redundant
                ((7, 4),), ((4, 7),), ((7, 7),), ((4, 4),), ((7,), (4,))]
    specs = directed + [s for s in specs[:cap] if s not in directed]

    def fresh_cov(suite):
        f = tsc.TestSuiteChromosome()
        for ch in suite.test_case_chromosomes:
            f.add_test_case_chromosome(tcc.TestCaseChromosome(test_case=ch.test_case.clone()))
        return [fn.compute_coverage(f) for fn in funcs]
    try:
        for si, spec in enumerate(specs):
            if si % nshards != idx:
                continue
            for assert_mode in (0, 1):
                for strategy in (config.MinimizationStrategy.CASE, config.MinimizationStrategy.SUITE,
                                 config.MinimizationStrategy.COMBINED):
                    for direction in (config.MinimizationDirection.FORWARD, config.MinimizationDirection.BACKWARD):
                        mini = config.configuration.test_case_output.minimization
                        mini.test_case_minimization_strategy, mini.test_case_minimization_direction = strategy, direction
                        counter = itertools.count()
                        suite = tsc.TestSuiteChromosome()
                        for t in spec:
                            asserted = [bool(assert_mode) and (k % 2 == 0) for k in range(len(t))]
                            suite.add_test_case_chromosome(tcc.TestCaseChromosome(test_case=_mk_test(t, asserted, counter)))
                        for fn in funcs:
                            suite.add_coverage_function(fn)
                        before = fresh_cov(suite)
                        orig_codes = _rhs_codes(suite)
                        orig_text = [ch.test_case.to_code() for ch in suite.test_case_chromosomes]
                        asserted_rhs = set()
                        import libcst as cst
                        for ch in suite.test_case_chromosomes:
                            for s in ch.test_case.statements():
                                if s.assertions:
                                    asserted_rhs.add(cst.Module(body=[s.node]).code.strip())
                        n += 1
                        gen._minimize(suite, algorithm)   # noqa: SLF001
                        after = fresh_cov(suite)
                        label = {"strategy": strategy.value, "direction": direction.value, "suite": orig_text,
                                 "minimized": [ch.test_case.to_code() for ch in suite.test_case_chromosomes]}
                        if not all(map(math.isclose, before, after)):
                            # witness class: a suite minimized to *no test case at all* loses the import-time coverage that
                            # every executed test case carries (recorded as a known finding); anything else is a different class
                            kind = "coverage-empty-suite" if not suite.test_case_chromosomes else "coverage"
                            res.append(("the minimized suite achieves exactly the coverage of the unminimized suite",
                                        f"{kind}:{strategy.value}", {**label, "coverage_before": before, "coverage_after": after}))
                        if not _rhs_codes(suite) <= orig_codes:
                            res.append(("the minimized suite contains no statement that was not in the original",
                                        f"foreign:{strategy.value}", {**label, "foreign": sorted(_rhs_codes(suite) - orig_codes)}))
                        kept = {cst.Module(body=[s.node]).code.strip() for ch in suite.test_case_chromosomes
                                for s in ch.test_case.statements()}
                        lost = sorted(a for a in asserted_rhs if a not in kept)
                        if lost and strategy != config.MinimizationStrategy.SUITE and len(suite.test_case_chromosomes) == len(spec):
                            # (dropping a whole redundant test case is the SUITE strategy's purpose; within kept tests the
                            #  asserted statements must survive)
                            res.append(("every statement whose variable is asserted on is kept", f"asserted-lost:{strategy.value}",
                                        {**label, "lost": lost}))
                        if len(res) > 30:
                            return n, res
        # the safety net of _minimize: whatever a minimization step did to the test cases, a suite that lost coverage is replaced
        # by the unminimized one.  A combined visitor that, after its real run, removes the first statement of the first test
        # case in place (with everything that depends on it) stands for a step that loses coverage.
        if idx == 0:
            import pynguin.ga.postprocess as pp
            real_visit = pp.CombinedMinimizationVisitor.visit_test_suite_chromosome

            def lossy_visit(self, chromosome):
                real_visit(self, chromosome)
                if chromosome.size() == 0 or chromosome.get_test_case_chromosome(0).test_case.size() == 0:
                    return
                victim = chromosome.get_test_case_chromosome(0)
                removed = victim.test_case.remove_statement_with_forward_dependencies(0)
                self._removed_statements += len(removed)
                victim.remove_last_execution_result()
                victim.changed = True
                chromosome.changed = True
            pp.CombinedMinimizationVisitor.visit_test_suite_chromosome = lossy_visit
            try:
                mini = config.configuration.test_case_output.minimization
                for spec in directed + [((0,), (2, 3)), ((1, 3),), ((5,), (0, 1))]:
                    for direction in (config.MinimizationDirection.FORWARD, config.MinimizationDirection.BACKWARD):
                        mini.test_case_minimization_strategy, mini.test_case_minimization_direction = config.MinimizationStrategy.COMBINED, direction
                        counter = itertools.count()
                        suite = tsc.TestSuiteChromosome()
                        for t in spec:
                            suite.add_test_case_chromosome(tcc.TestCaseChromosome(test_case=_mk_test(t, [False] * len(t), counter)))
                        for fn in funcs:
                            suite.add_coverage_function(fn)
                        before = fresh_cov(suite)
                        orig_text = [ch.test_case.to_code() for ch in suite.test_case_chromosomes]
                        n += 1
                        gen._minimize(suite, algorithm)   # noqa: SLF001
                        after = fresh_cov(suite)
                        if not all(map(math.isclose, before, after)) and suite.test_case_chromosomes:
                            res.append(("a suite that lost coverage during minimization is replaced by the unminimized suite",
                                        "coverage-not-restored:combined",
                                        {"direction": direction.value, "suite": orig_text, "injected": "first statement of the first test case removed "
                                         "in place after the real combined minimization", "coverage_before": before, "coverage_after": after,
                                         "returned": [ch.test_case.to_code() for ch in suite.test_case_chromosomes]}))
            finally:
                pp.CombinedMinimizationVisitor.visit_test_suite_chromosome = real_visit
    finally:
        hook.__exit__(None, None, None)
        __import__("shutil").rmtree(workdir, ignore_errors=True)
    return n, res


def _check_c22(part: Part, tier, seed):
    import multiprocessing as mp
    nsh = 16
    with mp.get_context("fork").Pool(nsh) as pool:
        out = pool.map(_shard_c22, [(i, nsh, tier, seed) for i in range(nsh)])
    for n, res in out:
        part.inputs_run += n
        part.nontrivial += n
        for clause, cls, detail in res:
            part.violation(clause, cls, detail, target="pynguin.generator:_minimize")


def bounded_c22(tier, seed):
    p = Part("C22", "minimize-preserves-coverage",
             ["pynguin.generator:_minimize", f"{PP}:ForwardIterativeMinimizationVisitor.visit_default_test_case",
              f"{PP}:BackwardIterativeMinimizationVisitor.visit_default_test_case",
              f"{PP}:TestSuiteMinimizationVisitor.visit_test_suite_chromosome",
              f"{PP}:CombinedMinimizationVisitor._minimize_statements_across_test_suite",
              f"{PP}:get_assertion_protected_variables"],
             scope="real generator._minimize with a real instrumented executor on a 4-function module (branches, a class): suites of "
                   "1 and 2 test cases, each test a sequence of 1-2 (thorough: 3) call blocks out of 6 (covering different branches, "
                   "overlapping between tests, an unused literal), a seeded sample of 320 (thorough 4000) suites x {no assertions, "
                   "assertions on every other block} x {CASE, SUITE, COMBINED} x {FORWARD, BACKWARD}; coverage is re-measured by "
                   "executing the minimized tests in fresh chromosomes",
             bound="<= 2 test cases, <= 2 (3) blocks each; sample of the enumerated suites (VERIF_SEED)")
    return guarded(p, _check_c22, tier, seed)


BOUNDED = [bounded_c22]
META = {"level": "other", "explanation": "bounded contract check of the real minimization pipeline on enumerated small suites; "
                                         "coverage is re-measured by fresh execution",
        "rule": "one case per (suite, assertion mode, strategy, direction)"}


def classify(g):
    return g.get("class", "")
