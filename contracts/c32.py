"""C32 — non-terminating tests time out without polluting later executions."""
from pyvc.contracts import assumption, contract, for_property, klass, lemma, loop, predicate, ufun

for_property("C32")
EX = "pynguin.testcase.execution"
TR = "pynguin.instrumentation.tracer"


# ==== bounded stand-in: looping test cases followed by terminating ones on the real executor ==================================
import itertools  # noqa: E402

from pyvc.bounded import Part, guarded  # noqa: E402

_MODULE = "c32_subject"
_SOURCE = '''
import time


def spin():
    n = 0
    while True:
        n += 1


def nap_loop():
    while True:
        time.sleep(0.01)


def nap_slices(seconds):
    while True:
        time.sleep(seconds)


def long_nap(seconds):
    time.sleep(seconds)
    return mark("after nap")


def mark(tag):
    if tag:
        return len(tag)
    return 0


class Feed:
    """len() polls (uninstrumented sleep in a loop) until a deadline: the observers call it with tracing switched off."""

    def __init__(self, seconds):
        self.deadline = time.monotonic() + seconds

    def __len__(self):
        while time.monotonic() < self.deadline:
            time.sleep(0.01)
        return 3


def slow_then_raise(seconds):
    time.sleep(seconds)
    raise RuntimeError("late")


def compare_slow(seconds):
    import c32_dependency
    value = c32_dependency.Slow(seconds)
    while True:
        if value == 0:
            return 1


def classify(x):
    if x > 2:
        return "big"
    return "small"


def other(y):
    return y + 1
'''
_TIMEOUT = 0.25
_LOOPERS = {"spin": "var_0 = {m}.spin()", "nap_loop": "var_0 = {m}.nap_loop()", "long_nap": "var_0 = {m}.long_nap(0.9)",
            "feed": "var_0 = {m}.Feed(0.9)", "slow_then_raise": "var_0 = {m}.slow_then_raise(0.9)",
            "slow_operand": "var_0 = {m}.compare_slow(0.9)"}
_DEP = "c32_dependency"
_DEP_SOURCE = '''
import time


class Slow:
    """comparing it takes a while, in code that is not instrumented"""

    def __init__(self, seconds):
        self.seconds = seconds

    def __eq__(self, other):
        time.sleep(self.seconds)
        return False

    __hash__ = None
'''
_TERMINATING = {"classify": "var_0 = {m}.classify(3)", "other": "var_0 = {m}.other(1)"}


def _setup():
    import importlib, sys, tempfile  # noqa: E401
    from pathlib import Path
    import pynguin.configuration as config
    from pynguin.assertion.assertiontraceobserver import RemoteAssertionTraceObserver
    from pynguin.instrumentation.machinery import install_import_hook
    from pynguin.instrumentation.tracer import SubjectProperties
    from pynguin.testcase.execution import TestCaseExecutor
    workdir = Path(tempfile.mkdtemp(prefix="c32_"))
    (workdir / f"{_MODULE}.py").write_text(_SOURCE)
    (workdir / f"{_DEP}.py").write_text(_DEP_SOURCE)
    sys.path.insert(0, str(workdir))
    config.configuration.module_name = _MODULE
    sp = SubjectProperties()
    tracer = sp.instrumentation_tracer
    hook = install_import_hook(_MODULE, sp, coverage_metrics={config.CoverageMetric.BRANCH, config.CoverageMetric.LINE})
    hook.__enter__()
    with tracer:
        sys.modules.pop(_MODULE, None)
        importlib.import_module(_MODULE)
    tracer.store_import_trace()
    executor = TestCaseExecutor(sp, maximum_test_execution_timeout=_TIMEOUT, test_execution_time_per_statement=_TIMEOUT)
    executor.add_remote_observer(RemoteAssertionTraceObserver())
    return workdir, hook, executor, sp


def _tc(src):
    import libcst as cst
    import pynguin.testcase.testcase as tc
    from pynguin.utils.naming import get_module_alias
    t = tc.TestCase()
    t.add_statement(tc.Statement(node=cst.parse_module(src.format(m=get_module_alias(_MODULE)) + "\n").body[0],
                                 bound_variable="var_0", bound_type=None))
    return t


def _reference_overhead():
    """How much longer than asked two joins of _TIMEOUT on a busy pure-Python thread take on this machine right now."""
    import threading, time  # noqa: E401
    stop = time.monotonic() + 2 * _TIMEOUT + 0.05

    def busy():
        while time.monotonic() < stop:
            pass
    th = threading.Thread(target=busy, daemon=True)
    t0 = time.monotonic()
    th.start()
    th.join(timeout=_TIMEOUT)
    th.join(timeout=_TIMEOUT)
    over = time.monotonic() - t0 - 2 * _TIMEOUT
    th.join()
    return max(0.0, over)


def execute_terminating(executor, make_test_case, overloaded_above=0.15):
    """Execute a test case that terminates quickly.  On a loaded machine even such a test case may exceed a 0.25 s bound, which
    is lawful behaviour and says nothing about the property: a time-out is retried (fresh test case, up to three attempts); if
    it persists, the reference wait tells whether the machine is overloaded right now - then the case is inconclusive (None)."""
    res = None
    for _ in range(3):
        res = executor.execute(make_test_case())
        if not res.timeout:
            return res
    return None if _reference_overhead() > overloaded_above else res


def _sig(res, sp):
    tr = res.execution_trace
    return (res.timeout, sorted((k, type(v).__name__) for k, v in res.exceptions.items()),
            sorted(sp.existing_lines[i].line_number for i in tr.covered_line_ids),
            sorted((p, tr.true_distances.get(p), tr.false_distances.get(p)) for p in tr.executed_predicates),
            sorted(tr.executed_code_objects))


def _check_c32(part: Part, tier, seed):
    import shutil, sys, threading, time  # noqa: E401
    workdir, hook, executor, sp = _setup()
    try:
        # reference results of the terminating test cases on a quiet executor
        ref = {}
        for k, v in _TERMINATING.items():
            for _attempt in range(5):          # (a time-out of these test cases means: machine overloaded, wait and retry)
                r_ = execute_terminating(executor, lambda v=v: _tc(v))
                if r_ is not None and not r_.timeout:
                    break
                time.sleep(3)
            ref[k] = _sig(r_, sp) if r_ is not None else None
        for k, v in _TERMINATING.items():
            r_ = execute_terminating(executor, lambda v=v: _tc(v))
            again = _sig(r_, sp) if r_ is not None else ref[k]
            if again != ref[k]:
                part.error(f"terminating test case {k} is not deterministic on a quiet executor: {again} vs {ref[k]}")
                return
        def timed_execute(src):
            log = []
            me = threading.current_thread()
            orig_join = threading.Thread.join

            def join(self, timeout=None):
                if threading.current_thread() is me:
                    log.append(timeout)
                return orig_join(self, timeout)
            threading.Thread.join = join
            try:
                t0 = time.monotonic()
                res = executor.execute(_tc(src))
                return res, time.monotonic() - t0, log
            finally:
                threading.Thread.join = orig_join

        waits = [0.0, 0.1, 1.1] if tier == "quick" else [0.0, 0.05, 0.1, 0.3, 0.7, 1.1]
        for (lk, lsrc), wait, (tk, tsrc) in itertools.product(_LOOPERS.items(), waits, _TERMINATING.items()):
            part.case()
            ra, elapsed, waits_asked = timed_execute(lsrc)
            # (the over-long but finite test cases - 0.9 s - may lawfully run to completion when a loaded machine keeps the
            #  executor from looking at its watch for that long; the statement is about test cases that do not terminate)
            if not ra.timeout and (lk in ("spin", "nap_loop", "slow_operand") or elapsed < 0.85):
                part.violation("a test case that does not terminate within the bound is reported as a timeout", f"no-timeout:{lk}",
                               {"test": lsrc, "elapsed_s": round(elapsed, 2)}, target=f"{EX}:TestCaseExecutor.execute")
            # (a) what execute() asks for, independent of the machine's load: it waits for its worker thread only with finite
            #     time-outs, and these add up to at most the configured bound plus the grace period (one more bound)
            if any(w is None for w in waits_asked) or sum(w for w in waits_asked if w is not None) > 2 * _TIMEOUT + 1e-9:
                part.violation("a timeout is reported within the configured bound plus the grace period", f"late:{lk}",
                               {"test": lsrc, "join_timeouts_requested": waits_asked, "timeout_s": _TIMEOUT,
                                "allowed_total_s": 2 * _TIMEOUT}, target=f"{EX}:TestCaseExecutor.execute")
            # (b) the wall clock, judged against a reference wait of the same shape taken at the same moment (on a loaded machine
            #     both stretch alike): late only if every one of three attempts is late
            elif elapsed > 2 * _TIMEOUT + 1.0 and elapsed > 2 * _TIMEOUT + 1.0 + 3 * _reference_overhead():
                # (the reference wait is only taken when the execution looks late: it occupies the interpreter for half a
                #  second, which would otherwise delay the next test case of every scenario)
                attempts = [round(elapsed, 2)]
                for _ in range(2):
                    for th in threading.enumerate():
                        if th is not threading.current_thread() and th.daemon:
                            th.join(timeout=3)
                    _r, e2, _w = timed_execute(lsrc)
                    attempts.append(round(e2, 2))
                    if e2 <= 2 * _TIMEOUT + 1.0 + 3 * _reference_overhead():
                        break
                else:
                    part.violation("a timeout is reported within the configured bound plus the grace period", f"late:{lk}",
                                   {"test": lsrc, "elapsed_s_of_three_attempts": attempts, "timeout_s": _TIMEOUT,
                                    "reference_overhead_s": round(_reference_overhead(), 2)}, target=f"{EX}:TestCaseExecutor.execute")
            if ra.timeout and (ra.exceptions or ra.execution_trace.covered_line_ids or ra.execution_trace.executed_predicates):
                part.violation("a timed-out execution reports a fresh, empty result", f"timeout-result:{lk}",
                               {"test": lsrc, "result": repr(_sig(ra, sp))[:300]}, target=f"{EX}:TestCaseExecutor.execute")
            time.sleep(wait)         # the abandoned thread runs on (or has finished) while / before the next test case executes
            rb = execute_terminating(executor, lambda: _tc(tsrc))
            if rb is None:
                part.inconclusive = getattr(part, "inconclusive", 0) + 1     # overloaded machine: no verdict for this scenario
                continue
            sig = _sig(rb, sp)
            if sig != ref[tk]:
                part.violation("an abandoned execution never adds lines, branches or exceptions to the result of a later test case",
                               f"polluted:{lk}:wait={wait}",
                               {"abandoned": lsrc, "wait_before_next_s": wait, "next": tsrc, "result": repr(sig)[:400],
                                "expected": repr(ref[tk])[:400]}, target=f"{EX}:TestCaseExecutor.execute")
            # let the stragglers end before the next scenario so that scenarios do not interfere ...
            deadline = time.monotonic() + 3
            for th in threading.enumerate():
                if th is not threading.current_thread() and th.daemon:
                    th.join(timeout=max(0.0, deadline - time.monotonic()))
            # ... and look at the later test case's result once more: an abandoned thread that wakes up only now (it was
            # blocked in uninstrumented code, possibly inside the tracer's own evaluation of an operand) must not write into it
            settled = _sig(rb, sp)
            if settled != sig:
                part.violation("an abandoned execution never adds lines, branches or exceptions to the result of a later test case",
                               f"polluted-after-return:{lk}:wait={wait}",
                               {"abandoned": lsrc, "wait_before_next_s": wait, "next": tsrc, "result_when_returned": repr(sig)[:400],
                                "same_result_object_after_the_abandoned_thread_ended": repr(settled)[:400]},
                               target=f"{TR}:ExecutionTracer")
        # two non-terminating test cases in a row: the first one sleeps in slices longer than bound + grace, so its abandoned thread
        # wakes up (and is stopped by the tracer) while the second one runs; the second one never terminates either and must be
        # reported as a timeout with an empty result whatever the first one's thread does to the tracer in the meantime
        naps = [0.55, 0.65, 0.8] if tier == "quick" else [0.52, 0.55, 0.6, 0.65, 0.7, 0.8, 0.95]
        for nap, second in itertools.product(naps, ["spin()", "nap_loop()"]):
            part.case()
            first = f"nap_slices({nap})"
            ra, _el, _w = timed_execute(first)
            rb2, el2, _w2 = timed_execute(second)
            if not ra.timeout or not rb2.timeout:
                part.violation("a test case that does not terminate within the bound is reported as a timeout",
                               f"no-timeout-after-abandoned:{second}",
                               {"first": first, "first_reported_timeout": ra.timeout, "second": second, "second_reported_timeout": rb2.timeout,
                                "second_elapsed_s": round(el2, 2)}, target=f"{EX}:TestCaseExecutor.execute")
            elif rb2.exceptions or rb2.execution_trace.covered_line_ids or rb2.execution_trace.executed_predicates:
                part.violation("a timed-out execution reports a fresh, empty result", f"timeout-result-after-abandoned:{second}",
                               {"first": first, "second": second, "result": repr(_sig(rb2, sp))[:300]}, target=f"{EX}:TestCaseExecutor.execute")
            deadline = time.monotonic() + 3
            for th in threading.enumerate():
                if th is not threading.current_thread() and th.daemon:
                    th.join(timeout=max(0.0, deadline - time.monotonic()))
    finally:
        hook.__exit__(None, None, None)
        sys.modules.pop(_MODULE, None)
        shutil.rmtree(workdir, ignore_errors=True)


def bounded_c32(tier, seed):
    p = Part("C32", "timeouts-then-terminating-tests", [f"{EX}:TestCaseExecutor.execute", f"{EX}:TestCaseExecutor._execute_test_case",
                                                        f"{TR}:ExecutionTracer.check", f"{TR}:ExecutionTracer.stop",
                                                        f"{TR}:_early_return"],
             scope="real TestCaseExecutor (timeout 0.25 s, assertion-trace observer attached) on an instrumented module: 5 "
                   "non-terminating or over-long test cases (busy loop, sleeping loop, one long uninstrumented sleep followed by "
                   "instrumented code, an object whose __len__ polls while the observer has tracing switched off, a late "
                   "exception) x waits {0, 0.1, 1.1} s (thorough: 6 waits) before the next test case x 2 terminating test cases; "
                   "the timeout must be reported within 2 x timeout + 1 s with an empty result, and the terminating test case's "
                   "result (exceptions, lines, predicates with distances, code objects) must equal its result on a quiet executor",
             bound="30 (60) scenarios, plus 6 (14) scenarios of two non-terminating test cases in a row (the first sleeping in slices "
                   "of 0.52-0.95 s, so that its abandoned thread wakes up during the second one); schedules are whatever the OS produces for these waits (not enumerated)")
    return guarded(p, _check_c32, tier, seed)


BOUNDED = [bounded_c32]
META = {"level": "other", "explanation": "bounded scenario check of the real executor's timeout path; thread schedules are sampled by "
                                         "varying the delay before the next execution, not enumerated",
        "rule": "one case per (looping test case, wait, terminating test case)"}


def classify(g):
    return g.get("class", "")
