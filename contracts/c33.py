"""C33 — worker crashes never hang Pynguin and restarts are bounded."""
from pyvc.contracts import (assumption, contract, for_property, global_var, klass, loop, predicate)

for_property("C33")
M = "pynguin.master_worker.master"
W = "pynguin.master_worker.worker"
C = "pynguin.master_worker.client"

klass("pynguin.configuration:StoppingConfiguration", fields={"maximum_search_time": "int"})
klass("pynguin.configuration:Configuration", fields={
    "stopping": "StoppingConfiguration", "subprocess": "bool", "subprocess_if_recommended": "bool",
    "use_master_worker": "bool"})
global_var("pynguin.configuration.configuration", "Configuration")
klass(f"{W}:WorkerReturnCode")
klass("pynguin.generator:ReturnCode")
klass(f"{W}:WorkerError", fields={})
klass(f"{W}:WorkerTask", fields={"task_id": "str", "configuration": "Configuration"})
klass(f"{W}:WorkerResult", fields={
    "task_id": "str", "worker_return_code": "WorkerReturnCode", "return_code": "Optional[ReturnCode]",
    "error": "Optional[WorkerError]", "restart_count": "int"},
    ghost={"g_from_worker": "bool"})     # true for objects received from the pipe, false for objects the master builds
klass("multiprocess.connection:Connection", fields={})
klass("multiprocess:Process", fields={})
klass(f"{M}:RunningTask", fields={
    "_worker_process": "Process", "_task": "WorkerTask", "_receiving_connection": "Connection",
    "_start_time": "float", "_restart_count": "int", "_force_subprocess_mode": "bool"},
    ghost={"g_started": "int"})          # number of worker processes started through this object
klass(f"{M}:MasterProcess", fields={"_running_tasks": "dict[str,RunningTask]"})
klass(f"{C}:PynguinClient", fields={"configuration": "Configuration", "master": "MasterProcess"})

# ---- assumed library behaviour --------------------------------------------------------------------------------
# recv(): returns an object a worker sent, or raises (EOFError when the only writer died - the parent closed its
# copy of the sending end in _start_worker; any other failure is an exception as well).  It does not block forever
# once the worker is dead.  Nothing else is known about the received object.
contract("multiprocess.connection:Connection.recv", mode="assume", sig={"self": "Connection"},
         returns="WorkerResult", fresh_result=True, raises={"Exception": "True"},
         ensures=["result.g_from_worker"])
contract("multiprocess.connection:Connection.close", mode="assume", sig={"self": "Connection"})
contract("multiprocess:Process.start", mode="assume", sig={"self": "Process"})
assumption("Connection.recv returns a received object or raises; Process.start does not block; time.time() is "
           "non-decreasing and strictly larger than the recorded start time of a worker that has since died")

MST = "self._task.configuration.stopping.maximum_search_time"

contract(f"{M}:RunningTask._start_worker",
         modifies=["self._worker_process", "self._receiving_connection", "self._task", "self._start_time",
                   "self.g_started"],
         ghost_updates={"self.g_started": "old(self.g_started) + 1"},
         ensures=["self._task is task", "self.g_started == old(self.g_started) + 1",
                  "isfinite(self._start_time) and self._start_time <= now()"])

contract(f"{M}:RunningTask._adjust_search_time_after_crash",
         requires=["isfinite(elapsed_time)", "elapsed_time >= 0"],
         modifies=["self._task.configuration.stopping.maximum_search_time"],
         ensures=[f"implies(old({MST}) <= 0, {MST} == old({MST}))",
                  f"implies(old({MST}) > 0, {MST} == floor(max(old({MST}) - elapsed_time, 0.0)))",
                  f"implies(old({MST}) > 0, 0 <= {MST} and {MST} <= old({MST}))",
                  f"implies(old({MST}) > 0 and elapsed_time > 0, {MST} < old({MST}))"])

RESTART_MOD = ["self._task.configuration.stopping.maximum_search_time", "self._restart_count",
               "self._force_subprocess_mode", "self._task.configuration.subprocess",
               "self._task.configuration.subprocess_if_recommended", "self._worker_process",
               "self._receiving_connection", "self._task", "self._start_time", "self.g_started"]
contract(f"{M}:RunningTask._restart",
         requires=["isfinite(self._start_time)", "self._start_time <= now()"],    # recorded in the past
         modifies=RESTART_MOD,
         ensures=[f"implies(result, 0 < {MST} and {MST} < old({MST}))",
                  "implies(result, self.g_started == old(self.g_started) + 1)",
                  f"implies(not result, self.g_started == old(self.g_started) and {MST} <= 0)",
                  f"implies(old({MST}) <= 0, {MST} == old({MST}) and not result)",
                  f"implies(old({MST}) > 0, {MST} <= old({MST}))",
                  "implies(result, self._restart_count == old(self._restart_count) + 1)",
                  "self._task is old(self._task)",
                  "implies(result, isfinite(self._start_time) and self._start_time <= now())"])

contract(f"{M}:RunningTask.get_result",
         requires=["isfinite(self._start_time)", "self._start_time <= now()"],
         modifies=RESTART_MOD + ["WorkerResult.restart_count['*']"],
         terminates=f"ite({MST} > 0, {MST}, 0)",
         ensures=["implies(not result.g_from_worker, result.worker_return_code == WorkerReturnCode.ERROR and "
                  "result.return_code is None)",
                  # restarts happened only while search time remained, each one strictly reduced it
                  f"implies(self.g_started > old(self.g_started), {MST} < old({MST}) and old({MST}) > 0)",
                  f"implies(old({MST}) <= 0, self.g_started == old(self.g_started))",
                  f"implies(self.g_started == old(self.g_started), {MST} == old({MST}) or old({MST}) > 0)",
                  f"{MST} <= old({MST}) or old({MST}) <= 0"],
         note="clock progress: every time.time() reading is strictly larger than the previous one")

contract(f"{M}:MasterProcess.get_result",
         requires=["all(isfinite(self._running_tasks[k]._start_time) and self._running_tasks[k]._start_time <= now() "
                   "for k in keys(self._running_tasks))"],
         modifies=["WorkerResult.restart_count['*']", "self._running_tasks",
                                 "RunningTask._restart_count['*']", "RunningTask._force_subprocess_mode['*']",
                                 "RunningTask._worker_process['*']", "RunningTask._receiving_connection['*']",
                                 "RunningTask._task['*']", "RunningTask._start_time['*']", "RunningTask.g_started['*']",
                                 "StoppingConfiguration.maximum_search_time['*']", "Configuration.subprocess['*']",
                                 "Configuration.subprocess_if_recommended['*']"],
         ensures=["implies(not result.g_from_worker, result.worker_return_code == WorkerReturnCode.ERROR and "
                  "result.return_code is None)"])


# ---------------------------------------------------------------------------------------------------------------
# native replay: real objects, with the process/pipe replaced by stubs that follow the assumed library contracts
from pyvc.replay import NATIVE_HELPERS, builder  # noqa: E402
import time as _time  # noqa: E402


class _DeadConn:
    """A receiving end whose writer died: recv raises EOFError."""

    def recv(self):
        raise EOFError

    def close(self):
        pass


@builder("StoppingConfiguration")
def _b_stop(f, ctx):
    import pynguin.configuration as config
    s = config.StoppingConfiguration()
    s.maximum_search_time = f.get("maximum_search_time", 0)
    return s


@builder("Configuration")
def _b_conf(f, ctx):
    import pynguin.configuration as config
    c = config.Configuration(project_path="", module_name="", test_case_output=config.TestCaseOutputConfiguration(output_path=""))
    c.stopping = f.get("stopping") or config.StoppingConfiguration()
    c.subprocess = bool(f.get("subprocess", False))
    c.subprocess_if_recommended = bool(f.get("subprocess_if_recommended", False))
    c.use_master_worker = bool(f.get("use_master_worker", True))
    return c


@builder("WorkerTask")
def _b_task(f, ctx):
    from pynguin.master_worker.worker import WorkerTask
    return WorkerTask(task_id=f.get("task_id") or "t", configuration=f.get("configuration"))


@builder("RunningTask")
def _b_rt(f, ctx):
    from pynguin.master_worker.master import RunningTask
    rt = RunningTask.__new__(RunningTask)
    rt._task = f.get("_task")
    rt._receiving_connection = _DeadConn()
    rt._worker_process = None
    st = f.get("_start_time", 0.0)
    rt._start_time = _time.time() - (abs(st) % 3.0 if st == st and abs(st) != float("inf") else 0.5) - 0.25
    rt._restart_count = f.get("_restart_count", 0)
    rt._force_subprocess_mode = bool(f.get("_force_subprocess_mode", False))
    rt.g_started = 0
    def _start_worker(task, rt=rt):          # stub: a worker that dies immediately
        rt._task = task
        rt._receiving_connection = _DeadConn()
        rt._start_time = _time.time() - 0.6
        rt.g_started += 1
    rt._start_worker = _start_worker
    return rt


NATIVE_HELPERS["now"] = _time.time
NATIVE_HELPERS["WorkerReturnCode"] = __import__("pynguin.master_worker.worker", fromlist=["x"]).WorkerReturnCode


@builder("Process")
def _b_proc(f, ctx):
    return None


@builder("Connection")
def _b_connn(f, ctx):
    return _DeadConn()


@builder("WorkerError")
def _b_werr(f, ctx):
    from pynguin.master_worker.worker import WorkerError
    return WorkerError("x")


@builder("MasterProcess")
def _b_master(f, ctx):
    from pynguin.master_worker.master import MasterProcess
    m = MasterProcess()
    m._running_tasks = dict(f.get("_running_tasks", {}))
    return m
