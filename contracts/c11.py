"""C11 — adding tests never lowers coverage or raises fitness; merging traces is order independent."""
from pyvc.contracts import contract, for_property, lemma, loop, predicate
from . import common  # noqa: F401
from . import c10  # noqa: F401  (spec predicates pf, norm)

for_property("C11")
T = "pynguin.instrumentation.tracer"

# pointwise minimum-merge of two distance maps (the abstract view operation on distances)
predicate("is_min_merge(r, a, b)",
          "keys(r) == keys(a) | keys(b) and "
          "all(r[k] == ite(k in a, ite(k in b, ite(b[k] < a[k], b[k], a[k]), a[k]), b[k]) for k in keys(r))")
predicate("is_sum_merge(r, a, b)",
          "keys(r) == keys(a) | keys(b) and "
          "all(r[k] == ite(k in a, a[k], 0) + ite(k in b, b[k], 0) for k in keys(r))")

contract(f"{T}:ExecutionTrace._merge_min",
         requires=["wf_dist(target)", "wf_dist(source)"],
         modifies=["target"],
         ensures=["is_min_merge(target, old(target), source)", "wf_dist(target)"])
loop(f"{T}:ExecutionTrace._merge_min", 0, invariant=[
    "keys(target) == keys(old(target)) | _done",
    "all(target[k] == ite(k in old(target), ite(source[k] < old(target)[k], source[k], old(target)[k]), source[k]) "
    "    for k in _done)",
    "all(target[k] == old(target)[k] for k in keys(old(target)) - _done)",
])

contract(f"{T}:ExecutionTrace.update_predicate_distances",
         requires=["wf_trace(self)", "not isnan(distance_true) and distance_true >= 0",
                   "not isnan(distance_false) and distance_false >= 0"],
         modifies=["self.executed_predicates", "self.true_distances", "self.false_distances"],
         ensures=["wf_trace(self)",
                  "keys(self.executed_predicates) == keys(old(self.executed_predicates)) | {predicate}",
                  "self.executed_predicates[predicate] == "
                  "   ite(predicate in old(self.executed_predicates), old(self.executed_predicates)[predicate], 0) + 1",
                  "self.true_distances[predicate] == ite(predicate in old(self.true_distances) and "
                  "   not (distance_true < old(self.true_distances)[predicate]), old(self.true_distances)[predicate], distance_true)",
                  "self.false_distances[predicate] == ite(predicate in old(self.false_distances) and "
                  "   not (distance_false < old(self.false_distances)[predicate]), old(self.false_distances)[predicate], distance_false)",
                  "all(implies(k != predicate, self.executed_predicates[k] == old(self.executed_predicates)[k] and "
                  "    self.true_distances[k] == old(self.true_distances)[k] and "
                  "    self.false_distances[k] == old(self.false_distances)[k]) for k in keys(old(self.executed_predicates)))"])

ALLF = ["self.executed_code_objects", "self.executed_predicates", "self.true_distances", "self.false_distances",
        "self.covered_line_ids", "self.checked_lines", "self.executed_instructions", "self.object_addresses",
        "self.executed_assertions"]
contract(f"{T}:ExecutionTrace.merge",
         requires=["wf_trace(self)", "wf_trace(other)"],
         modifies=ALLF,
         ensures=[
             "self.executed_code_objects == old(self.executed_code_objects) | old(other.executed_code_objects)",
             "is_sum_merge(self.executed_predicates, old(self.executed_predicates), old(other.executed_predicates))",
             "is_min_merge(self.true_distances, old(self.true_distances), old(other.true_distances))",
             "is_min_merge(self.false_distances, old(self.false_distances), old(other.false_distances))",
             "self.covered_line_ids == old(self.covered_line_ids) | old(other.covered_line_ids)",
             "self.checked_lines == old(self.checked_lines) | old(other.checked_lines)",
             "self.object_addresses == old(self.object_addresses) | old(other.object_addresses)",
             "wf_trace(self)",
             "len(self.executed_instructions) == len(old(self.executed_instructions)) + len(old(other.executed_instructions))",
             "len(self.executed_assertions) == len(old(self.executed_assertions)) + len(old(other.executed_assertions))",
             "all(self.executed_assertions[len(old(self.executed_assertions)) + i].trace_position == "
             "    old(other.executed_assertions)[i].trace_position + len(old(self.executed_instructions)) "
             "    for i in range(len(old(other.executed_assertions))))",
             "all(self.executed_assertions[i] == old(self.executed_assertions)[i] "
             "    for i in range(len(old(self.executed_assertions))))",
         ])
loop(f"{T}:ExecutionTrace.merge", 0, invariant=[
    "keys(self.executed_predicates) == keys(old(self.executed_predicates)) | _done",
    "all(self.executed_predicates[k] == ite(k in old(self.executed_predicates), old(self.executed_predicates)[k], 0)"
    "    + old(other.executed_predicates)[k] for k in _done)",
    "all(self.executed_predicates[k] == old(self.executed_predicates)[k] "
    "    for k in keys(old(self.executed_predicates)) - _done)",
])

FM = "pynguin.ga.fitness_metrics"
contract(f"{FM}:analyze_results",
         requires=["all(r.execution_trace is not None and wf_trace(r.execution_trace) for r in results)"],
         fresh_result=False,
         ensures=[
             "wf_trace(result)",
             "forall(lambda x: (x in result.executed_code_objects) == "
             "   any(x in results[j].execution_trace.executed_code_objects for j in range(len(results))), 'int')",
             "forall(lambda x: (x in result.covered_line_ids) == "
             "   any(x in results[j].execution_trace.covered_line_ids for j in range(len(results))), 'int')",
             "forall(lambda x: (x in result.checked_lines) == "
             "   any(x in results[j].execution_trace.checked_lines for j in range(len(results))), 'int')",
             "forall(lambda p: (p in result.true_distances) == "
             "   any(p in results[j].execution_trace.true_distances for j in range(len(results))), 'int')",
             # a branch is covered by the merged trace iff some merged test covers it
             "forall(lambda p: (p in result.true_distances and result.true_distances[p] == 0) == "
             "   any(p in results[j].execution_trace.true_distances and results[j].execution_trace.true_distances[p] == 0 "
             "       for j in range(len(results))), 'int')",
             "forall(lambda p: (p in result.false_distances and result.false_distances[p] == 0) == "
             "   any(p in results[j].execution_trace.false_distances and results[j].execution_trace.false_distances[p] == 0 "
             "       for j in range(len(results))), 'int')",
             # merged distances are lower bounds of every merged test's distances, merged counts upper bounds
             "all(all(result.true_distances[p] <= results[j].execution_trace.true_distances[p] and "
             "        result.false_distances[p] <= results[j].execution_trace.false_distances[p] and "
             "        result.executed_predicates[p] >= results[j].execution_trace.executed_predicates[p] "
             "        for p in keys(results[j].execution_trace.executed_predicates)) for j in range(len(results)))",
         ])
loop(f"{FM}:analyze_results", 0, invariant=[
    "wf_trace(merged)",
    "forall(lambda x: (x in merged.executed_code_objects) == "
    "   any(x in results[j].execution_trace.executed_code_objects for j in range(_i)), 'int')",
    "forall(lambda x: (x in merged.covered_line_ids) == "
    "   any(x in results[j].execution_trace.covered_line_ids for j in range(_i)), 'int')",
    "forall(lambda x: (x in merged.checked_lines) == "
    "   any(x in results[j].execution_trace.checked_lines for j in range(_i)), 'int')",
    "forall(lambda p: (p in merged.true_distances) == "
    "   any(p in results[j].execution_trace.true_distances for j in range(_i)), 'int')",
    "forall(lambda p: (p in merged.true_distances and merged.true_distances[p] == 0) == "
    "   any(p in results[j].execution_trace.true_distances and results[j].execution_trace.true_distances[p] == 0 "
    "       for j in range(_i)), 'int')",
    "forall(lambda p: (p in merged.false_distances and merged.false_distances[p] == 0) == "
    "   any(p in results[j].execution_trace.false_distances and results[j].execution_trace.false_distances[p] == 0 "
    "       for j in range(_i)), 'int')",
    "all(all(merged.true_distances[p] <= results[j].execution_trace.true_distances[p] and "
    "        merged.false_distances[p] <= results[j].execution_trace.false_distances[p] and "
    "        merged.executed_predicates[p] >= results[j].execution_trace.executed_predicates[p] "
    "        for p in keys(results[j].execution_trace.executed_predicates)) for j in range(_i))",
])
