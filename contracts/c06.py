"""C06 — control-dependence graphs match the post-dominance definition."""
from pyvc.contracts import assumption, contract, for_property, klass, lemma, loop, predicate, ufun

for_property("C06")
CF = "pynguin.instrumentation.controlflow"


# ==== bounded stand-in: the Ferrante definition with an independent post-dominator computation as oracle =========================
import itertools  # noqa: E402

from pyvc.bounded import Part, guarded  # noqa: E402

_TEMPLATES = '''
def straight(a):
    b = a + 1
    return b
def one_if(a):
    if a:
        a = 1
    return a
def if_else(a):
    if a > 1:
        r = 1
    else:
        r = 2
    return r
def elif_chain(a):
    if a == 1:
        return "one"
    elif a == 2:
        return "two"
    elif a == 3:
        r = "three"
    else:
        r = "many"
    return r
def nested(a, b):
    if a:
        if b:
            return 1
        a = 2
    else:
        if not b:
            return 3
    return a
def and_or(a, b, c):
    if (a and b) or c:
        return 1
    return 0
def for_loop(xs):
    t = 0
    for x in xs:
        t += x
    return t
def for_break_else(xs):
    for x in xs:
        if x < 0:
            break
        if x == 0:
            continue
        x += 1
    else:
        return -1
    return x
def while_loop(n):
    while n > 0:
        n -= 1
        if n == 5:
            break
    return n
def while_true(n):
    while True:
        n += 1
        if n > 10:
            return n
def while_true_plain(q):
    while True:
        q.append(1)
def serve(q, handle):
    while True:
        job = q.get()
        for part in job:
            handle(part)
def serve_or_quit(q, handle):
    if q is None:
        return 0
    while True:
        job = q.get()
        if job:
            handle(job)
        for part in job:
            while part:
                part = handle(part)
def spin_two_ways(a):
    while True:
        if a:
            a -= 1
            continue
        a += 2
def counter():
    n = 0
    while True:
        n += 1
        yield n
def gen(xs):
    for x in xs:
        if x:
            yield x
    yield None
def try_except(a):
    try:
        r = 1 / a
    except ZeroDivisionError:
        r = 0
    except (TypeError, ValueError) as e:
        raise RuntimeError from e
    else:
        r += 1
    finally:
        a = None
    return r
def with_stmt(cm, a):
    with cm as c:
        if a:
            return c
    return None
def match_stmt(p):
    match p:
        case (0, y):
            return y
        case {"k": v} if v:
            return v
        case [a, *rest]:
            return a
        case _:
            return None
def ternary(a):
    return 1 if a else (2 if a is None else 3)
def comprehension(xs):
    return [x for x in xs if x if x > 1]
def early_return(a):
    if a:
        return 1
    if a is None:
        return 2
    raise ValueError(a)
def assert_stmt(a):
    assert a > 0, "positive"
    return a
def loop_in_try(xs):
    for x in xs:
        try:
            if x:
                continue
            x = 1 / x
        except ZeroDivisionError:
            break
        finally:
            x = None
    return xs
def handler_only_continues(items):
    out = []
    for it in items:
        try:
            out.append(int(it))
        except ValueError as exc:
            continue
    return out


def handler_only_breaks(items, conv):
    n = 0
    while items:
        try:
            n += conv(items.pop())
        except (KeyError, TypeError) as exc:
            break
    return n


def two_named_handlers(items, conv):
    for it in items:
        try:
            conv(it)
        except KeyError as e1:
            continue
        except ValueError as e2:
            break
    return items


async def coro(xs):
    async for x in xs:
        if x:
            await x
    return 0
class Klass:
    attr = 1
    def method(self):
        if self.attr:
            return lambda v: v if v else None
        return None
'''


def _code_objects(tier):
    import bisect, heapq, textwrap, dis, inspect, types  # noqa: E401

    def walk(co):
        yield co
        for c in co.co_consts:
            if isinstance(c, types.CodeType):
                yield from walk(c)
    out = []
    out += [("templates", c) for c in walk(compile(_TEMPLATES, "c06_templates", "exec"))]
    mods = [bisect, heapq] + ([textwrap, dis] if tier == "thorough" else [])
    for m in mods:
        out += [(m.__name__, c) for c in walk(compile(inspect.getsource(m), m.__name__, "exec"))]
    return out


def _postdom(nodes, succ, exit_node):
    """Set-based fixed point: pdom(n) = {n} | intersection of pdom over successors; pdom(exit) = {exit}."""
    pd = {n: set(nodes) for n in nodes}
    pd[exit_node] = {exit_node}
    changed = True
    while changed:
        changed = False
        for n in nodes:
            if n == exit_node:
                continue
            ss = succ[n]
            new = ({n} | set.intersection(*[pd[s] for s in ss])) if ss else {n}
            if new != pd[n]:
                pd[n], changed = new, True
    return pd


def cdg_problems(cfg, label):
    """Compare ControlDependenceGraph.compute(cfg) with the definition; returns [(clause, class, detail)]."""
    import networkx as nx
    from pynguin.instrumentation.controlflow import (EDGE_DATA_BRANCH_VALUE, ArtificialNode, BasicBlockNode,
                                                     ControlDependenceGraph)
    out = []
    g = cfg.graph
    ENTRY, EXIT, AUG = ArtificialNode.ENTRY, ArtificialNode.EXIT, ArtificialNode.AUGMENTED_ENTRY
    # structure of the CFG
    if ENTRY not in g or EXIT not in g or g.in_degree(ENTRY) != 0 or g.out_degree(EXIT) != 0:
        out.append(("the CFG has a single artificial entry (no predecessor) and exit (no successor)", "entry-exit", label))
        return out
    reach = nx.descendants(g, ENTRY) | {ENTRY}
    if set(g.nodes) - reach:
        out.append(("every block is reachable from the entry", "unreachable", {**label, "nodes": [str(n)[:40] for n in set(g.nodes) - reach]}))
    sinks = [n for n in g.nodes if g.out_degree(n) == 0 and n is not EXIT]
    if sinks:
        out.append(("the artificial exit is the only node without successor", "second-exit", {**label, "nodes": [str(n)[:40] for n in sinks]}))
    if set(g.nodes) - (nx.ancestors(g, EXIT) | {EXIT}):
        out.append(("every block reaches the exit (needed for post-dominance)", "no-exit-path", label))
        return out
    cdg = ControlDependenceGraph.compute(cfg)
    # the definition, on the augmented graph
    nodes = list(g.nodes) + [AUG]
    succ = {n: list(g.successors(n)) for n in g.nodes}
    succ[AUG] = [ENTRY, EXIT]
    pd = _postdom(nodes, succ, EXIT)
    want = {}
    for a in nodes:
        for s in succ[a]:
            lab = None if a is AUG else g.get_edge_data(a, s).get(EDGE_DATA_BRANCH_VALUE)
            for b in nodes:
                if b in pd[s] and not (b in pd[a] and b != a):
                    want.setdefault((a, b), set()).add(lab)
    want = {(a, b): labs for (a, b), labs in want.items() if ENTRY not in (a, b) and EXIT not in (a, b)}
    got = {(a, b): d.get(EDGE_DATA_BRANCH_VALUE) for a, b, d in cdg.graph.edges(data=True)}
    for e in set(want) - set(got):
        out.append(("the CDG contains an edge A -> B when B post-dominates a successor of A but does not strictly post-dominate A",
                    "missing-edge" + (":self-loop" if e[0] == e[1] else ""), {**label, "edge": f"{str(e[0])[:50]} -> {str(e[1])[:50]}"}))
    for e in set(got) - set(want):
        out.append(("the CDG contains only edges of the definition", "extra-edge", {**label, "edge": f"{str(e[0])[:50]} -> {str(e[1])[:50]}"}))
    for e in set(got) & set(want):
        if got[e] not in want[e]:
            out.append(("a CDG edge is labelled with the outcome of the branch that leads to the dependent node", "label",
                        {**label, "edge": f"{str(e[0])[:50]} -> {str(e[1])[:50]}", "label": repr(got[e]), "allowed": repr(sorted(map(repr, want[e])))}))
    # root dependence: a node depends on some branch outcome, or on the root
    for n in cdg.graph.nodes:
        if not isinstance(n, BasicBlockNode):
            continue
        deps = cdg.get_control_dependencies(n)
        root = cdg.is_control_dependent_on_root(n)
        if not deps and not root:
            out.append(("a node not dependent on any branch is dependent on the root", "no-dependence", {**label, "node": str(n)[:60]}))
        # oracle for root dependence: reachable from the augmented entry through unlabelled definition edges only
        unl = nx.DiGraph()
        unl.add_nodes_from(nodes)
        unl.add_edges_from((a, b) for (a, b), labs in want.items() if None in labs and a != b)
        want_root = n in nx.descendants(unl, AUG)
        if root != want_root:
            out.append(("is_control_dependent_on_root holds exactly for nodes reachable from the root without passing a branch outcome",
                        "root-dependence", {**label, "node": str(n)[:60], "got": root, "want": want_root}))
    return out


def _check_code_objects(part: Part, tier, seed):
    from bytecode import Bytecode
    from pynguin.instrumentation.controlflow import CFG
    for origin, code in _code_objects(tier):
        part.case()
        label = {"origin": origin, "code_object": f"{code.co_name}@{code.co_firstlineno}"}
        try:
            cfg = CFG.from_bytecode(Bytecode.from_code(code))
        except Exception as e:  # noqa: BLE001
            part.violation("a CFG can be built for every code object", "cfg-raises", {**label, "error": f"{type(e).__name__}: {e}"[:300]},
                           target=f"{CF}:CFG.from_bytecode")
            continue
        try:
            probs = cdg_problems(cfg, label)
        except Exception as e:  # noqa: BLE001
            part.violation("the CDG can be computed for every code object", "cdg-raises", {**label, "error": f"{type(e).__name__}: {e}"[:300]},
                           target=f"{CF}:ControlDependenceGraph.compute")
            continue
        for clause, cls, detail in probs:
            part.violation(clause, cls, detail, target=f"{CF}:ControlDependenceGraph.compute")


def _small_graphs(n_inner):
    """All control-flow shaped digraphs on n_inner blocks: out-degree <= 2, binary nodes labelled True/False, every block
    reachable from block 0 and reaching EXIT."""
    import networkx as nx
    targets = list(range(n_inner)) + ["X"]
    choices = []
    for i in range(n_inner):
        opts = [(t,) for t in targets] + [(a, b) for a in targets for b in targets if a != b]
        choices.append(opts)
    for combo in itertools.product(*choices):
        g = nx.DiGraph()
        g.add_nodes_from(list(range(n_inner)) + ["X"])
        for i, outs in enumerate(combo):
            for k, t in enumerate(outs):
                g.add_edge(i, t, **({"branch_value": k == 0} if len(outs) == 2 else {}))
        if set(g.nodes) - (nx.descendants(g, 0) | {0}) or set(g.nodes) - (nx.ancestors(g, "X") | {"X"}):
            continue
        yield combo, g


def _check_small_graphs(part: Part, tier, seed):
    import networkx as nx
    from bytecode import BasicBlock
    from pynguin.instrumentation.controlflow import CFG, ArtificialNode, BasicBlockNode
    sizes = (1, 2, 3) if tier != "thorough" else (1, 2, 3, 4)
    for n in sizes:
        for combo, g0 in _small_graphs(n):
            if n == 4 and hash(combo) % 7 != seed % 7:
                continue                       # a seeded seventh of the 4-block graphs
            part.case(n > 1)
            bbs = {i: BasicBlockNode(i, BasicBlock()) for i in range(n)}
            cfg = CFG.__new__(CFG)
            cfg._graph = nx.DiGraph()          # noqa: SLF001
            cfg._bytecode_cfg = None           # noqa: SLF001
            for i in range(n):
                cfg.add_node(bbs[i])
            cfg.add_node(ArtificialNode.ENTRY)
            cfg.add_node(ArtificialNode.EXIT)
            cfg.add_edge(ArtificialNode.ENTRY, bbs[0])
            for a, b, d in g0.edges(data=True):
                cfg.add_edge(bbs[a], ArtificialNode.EXIT if b == "X" else bbs[b], **d)
            label = {"graph": {i: combo[i] for i in range(n)}}
            try:
                probs = cdg_problems(cfg, label)
            except Exception as e:  # noqa: BLE001
                part.violation("the CDG can be computed for every well-formed CFG", "cdg-raises", {**label, "error": f"{type(e).__name__}: {e}"[:300]},
                               target=f"{CF}:ControlDependenceGraph.compute")
                continue
            for clause, cls, detail in probs:
                part.violation(clause, cls, detail, target=f"{CF}:ControlDependenceGraph.compute")


def bounded_code_objects(tier, seed):
    p = Part("C06", "cdg-of-code-objects", [f"{CF}:CFG.from_bytecode", f"{CF}:CFG._insert_dummy_nodes", f"{CF}:ControlDependenceGraph.compute",
                                            f"{CF}:ControlDependenceGraph.get_control_dependencies",
                                            f"{CF}:ControlDependenceGraph.is_control_dependent_on_root"],
             scope="all code objects of a template module (24 functions: nested/sequential branches, boolean operators, for/while "
                   "with break/continue/else, while True with and without exit, generators, try/except/else/finally, with, match, "
                   "conditional expressions, comprehensions, assert, coroutine, class body, lambda) and of bisect, heapq (thorough: "
                   "textwrap, dis) through the real CFG.from_bytecode and ControlDependenceGraph.compute; the oracle is a set-based "
                   "post-dominator fixed point over the same CFG",
             bound="the listed modules")
    return guarded(p, _check_code_objects, tier, seed)


def _check_stdlib_sweep(part: Part, tier, seed):
    """Every code object of the top-level modules of the standard library (quick: a seeded sample of the files)."""
    import glob, os, random, types  # noqa: E401
    from bytecode import Bytecode
    from pynguin.instrumentation.controlflow import CFG
    files = sorted(glob.glob(os.path.join(os.path.dirname(os.__file__), "*.py")))
    if tier != "thorough":
        files = sorted(random.Random(seed).sample(files, min(48, len(files))))

    def walk(co):
        yield co
        for c in co.co_consts:
            if isinstance(c, types.CodeType):
                yield from walk(c)
    for f in files:
        try:
            with open(f, encoding="utf-8") as fh:
                top = compile(fh.read(), f, "exec")
        except (SyntaxError, UnicodeDecodeError, ValueError):
            continue
        for code in walk(top):
            part.case()
            label = {"origin": os.path.basename(f), "code_object": f"{code.co_name}@{code.co_firstlineno}"}
            try:
                cfg = CFG.from_bytecode(Bytecode.from_code(code))
            except Exception as e:  # noqa: BLE001
                part.violation("a CFG can be built for every code object", "cfg-raises", {**label, "error": f"{type(e).__name__}: {e}"[:300]},
                               target=f"{CF}:CFG.from_bytecode")
                continue
            try:
                probs = cdg_problems(cfg, label)
            except Exception as e:  # noqa: BLE001
                part.violation("the CDG can be computed for every code object", "cdg-raises", {**label, "error": f"{type(e).__name__}: {e}"[:300]},
                               target=f"{CF}:ControlDependenceGraph.compute")
                continue
            for clause, cls, detail in probs[:1]:
                part.violation(clause, cls, detail, target=f"{CF}:ControlDependenceGraph.compute")


def bounded_stdlib_sweep(tier, seed):
    p = Part("C06", "cdg-of-stdlib-code-objects", [f"{CF}:CFG.from_bytecode", f"{CF}:filter_dead_code_nodes", f"{CF}:CFG._insert_dummy_nodes",
                                                   f"{CF}:ControlDependenceGraph.compute"],
             scope="every code object of the top-level modules of the interpreter's standard library (thorough: all ~165 files, ~8000 "
                   "code objects; quick: a seeded sample of 48 files) through the real CFG.from_bytecode and ControlDependenceGraph: single "
                   "entry and exit, every block reachable, CDG equal to the post-dominator oracle, root dependence",
             bound="the standard library of the running interpreter")
    return guarded(p, _check_stdlib_sweep, tier, seed)


def bounded_small_graphs(tier, seed):
    p = Part("C06", "cdg-of-small-graphs", [f"{CF}:ControlDependenceGraph.compute", f"{CF}:ControlDependenceGraph.is_control_dependent_on_root"],
             scope="every control-flow shaped digraph on 1, 2 and 3 basic blocks (thorough: plus a seeded seventh of those on 4): "
                   "out-degree <= 2, two-way nodes labelled True/False, all blocks reachable from the first and reaching the exit, "
                   "self-loops included; built directly as CFG objects",
             bound="<= 3 (4) basic blocks")
    return guarded(p, _check_small_graphs, tier, seed)


BOUNDED = [bounded_small_graphs, bounded_code_objects, bounded_stdlib_sweep]
META = {"level": "other", "explanation": "bounded contract check of the real CFG/CDG construction against the post-dominance "
                                         "definition, over exhaustively enumerated small graphs and the code objects of fixed modules",
        "rule": "one case per graph / code object; non-trivial = more than one block"}


def classify(g):
    return g.get("class", "")
