"""C07 — every branch goal is reachable in the DynaMOSA goal graph."""
from pyvc.contracts import assumption, contract, for_property, klass, lemma, loop, predicate, ufun
from . import c13  # noqa: F401  (CoverageArchive contracts: update / add_goals / covered_goals)

for_property("C07")
DY = "pynguin.ga.algorithms.dynamosaalgorithm"
FFT = "TestCaseFitnessFunction"

# ---- proved: _GoalsManager.update keeps the frontier invariant --------------------------------------------------------------
klass("pynguin.ga.coveragegoals:BranchCoverageTestFitness", fields={}, bases=[FFT])
klass(f"{DY}:_BranchFitnessGraph", fields={})
klass(f"{DY}:_GoalsManager", fields={"_archive": "CoverageArchive", "_graph": "_BranchFitnessGraph",
                                     "_current_goals": f"set[{FFT}]"})
ufun("CH", ["_BranchFitnessGraph", FFT], f"set[{FFT}]")        # structural children of a goal in the goal graph
contract(f"{DY}:_BranchFitnessGraph.get_structural_children", mode="assume",
         sig={"self": "_BranchFitnessGraph", "fitness_function": FFT}, returns=f"set[{FFT}]",
         ensures=["result == CH(self, fitness_function)"])
assumption("get_structural_children(g) is the successor set CH(graph, g) of g in the goal graph (networkx)")

COV = "keys(self._archive._covered)"
# children of every covered goal are covered or current: together with 'roots are current or covered' (constructor) this makes
# every goal become current as soon as a chain of covered goals leads from a root to it
FRONTIER = f"all(CH(self._graph, p) <= (self._current_goals | {COV}) for p in {COV})"
MGR_WF = ["archive_wf(self._archive)", "self._archive._uncovered == self._current_goals", FRONTIER]
MOD = ["self._current_goals", "CoverageArchive._covered['*']", "CoverageArchive._uncovered['*']", "CoverageArchive._objectives['*']"]
contract(f"{DY}:_GoalsManager.update", sig={"solutions": "list[TestCaseChromosome]"},
         requires=MGR_WF, modifies=MOD, type_map={"OrderedSet[bg.BranchCoverageTestFitness]": f"set[{FFT}]"},
         ensures=MGR_WF + [
             f"keys(old(self._archive._covered)) <= {COV}",                               # covered goals only grow
             f"old(self._current_goals) <= (self._current_goals | {COV})",                 # no goal is lost
             f"disjoint(self._current_goals, {COV})"])
# the constructor establishes the invariant: the root goals are the first current goals of a fresh archive
ufun("ROOTS", ["_BranchFitnessGraph"], f"set[{FFT}]")
contract(f"{DY}:_BranchFitnessGraph.root_branches", mode="assume", sig={"self": "_BranchFitnessGraph"}, returns=f"set[{FFT}]",
         ensures=["result == ROOTS(self)"], is_property=True)
contract(f"{DY}:_BranchFitnessGraph.__init__", mode="assume",
         sig={"self": "_BranchFitnessGraph", "fitness_functions": f"set[{FFT}]", "subject_properties": "SubjectProperties"},
         modifies=["self.ALL"],
         raises={"*": "True"}, note="goal-graph construction: checked by the bounded part")
contract(f"{DY}:_GoalsManager.__init__",
         sig={"fitness_functions": f"set[{FFT}]", "archive": "CoverageArchive", "subject_properties": "SubjectProperties"},
         requires=["archive._covered == {}", "archive._uncovered == set()", "archive._objectives == set()"],
         raises={"*": "True"},        # the goal-graph construction may fail (bounded part); nothing else raises
         modifies=["self.ALL", "CoverageArchive._uncovered['*']", "CoverageArchive._objectives['*']"],
         type_map={"OrderedSet[bg.BranchCoverageTestFitness]": f"set[{FFT}]"},
         ensures=MGR_WF + ["self._current_goals == ROOTS(self._graph)", "self._archive is archive"])
loop(f"{DY}:_GoalsManager.__init__", 0, invariant=["True"])

# ==== bounded stand-in: the real instrumentation + goal graph on modules with every placement of an exclusion marker ===========
import itertools  # noqa: E402

from pyvc.bounded import Part, guarded  # noqa: E402

_MODS = {
    "nested": '''
def f(a, b, xs):
    if a > 0:
        if b > 0:
            return 1
        b += 1
    elif a < -5:
        b -= 1
    for x in xs:
        if x == a:
            return 2
        if x > b:
            continue
    while b > 0:
        b -= 1
        if b == a:
            break
    else:
        return 3
    return 0
''',
    "handlers": '''
def g(a, b, xs):
    try:
        if a is None:
            return -1
        if b:
            a += 1
        for x in xs:
            if x:
                a += x
    except ValueError:
        if b:
            return -2
    finally:
        if a:
            b = 0
    return a
''',
    "with_and_early": '''
def h(a, lock):
    with lock:
        if a is None:
            return 0
        if a > 3:
            a -= 1
        else:
            a += 1
    if a:
        return a
    return None
def k(n):
    while True:
        n += 1
        if n > 10:
            return n
        if n == 5:
            continue
''',
    "class_and_gen": '''
class K:
    def m(self, a):
        if a:
            for i in range(a):
                if i % 2:
                    yield i
        else:
            yield -1
def plain():
    return 1
''',
}


def _variants(src, tier):
    """The module as is, and with the marker '# pynguin: no cover' on every single branching line (thorough: every pair)."""
    lines = src.strip("\n").split("\n")
    heads = [i for i, ln in enumerate(lines) if ln.strip().startswith(("if ", "elif ", "for ", "while ", "try:", "with ", "else:", "except", "finally:", "def ", "class "))]
    yield (), "\n".join(lines) + "\n"
    combos = [(i,) for i in heads]
    if tier == "thorough":
        combos += list(itertools.combinations(heads, 2))
    for combo in combos:
        ls = list(lines)
        for i in combo:
            ls[i] = ls[i] + "  # pynguin: no cover"
        yield combo, "\n".join(ls) + "\n"


def goal_graph_problems(source, label):
    import os, shutil, tempfile  # noqa: E401
    from unittest.mock import MagicMock
    import networkx as nx
    import pynguin.ga.algorithms.dynamosaalgorithm as dyna
    import pynguin.ga.coveragegoals as bg
    from pynguin.ga.algorithms.archive import CoverageArchive
    from pynguin.instrumentation.tracer import SubjectProperties
    from pynguin.instrumentation.transformer import InstrumentationTransformer
    from pynguin.instrumentation.version import BranchCoverageInstrumentation
    out = []
    d = tempfile.mkdtemp(prefix="c07_")
    try:
        path = os.path.join(d, "subject.py")
        with open(path, "w", encoding="utf-8") as f:
            f.write(source)
        sp = SubjectProperties()
        tr = InstrumentationTransformer(sp, [BranchCoverageInstrumentation(sp)])
        try:
            tr.instrument_code(compile(source, path, "exec"), "subject")
        except Exception as e:  # noqa: BLE001
            return [("instrumenting the module never fails", "instrument-raises", {**label, "error": f"{type(e).__name__}: {e}"[:300]})]
        # (a) every control dependency of a registered predicate resolves to a registered predicate
        for pid, meta in sp.existing_predicates.items():
            co = sp.existing_code_objects[meta.code_object_id]
            nodes = {m.node for m in sp.existing_predicates.values() if m.code_object_id == meta.code_object_id}
            try:
                deps = co.cdg.get_control_dependencies(meta.node)
            except Exception as e:  # noqa: BLE001
                out.append(("the control dependencies of a registered predicate can be computed", "dependencies-raise",
                            {**label, "predicate": pid, "line": meta.line_no, "error": f"{type(e).__name__}: {e}"[:200]}))
                continue
            for dep in deps:
                if dep.node not in nodes:
                    out.append(("every control dependency of a registered predicate resolves to a registered predicate",
                                "unregistered-dependency", {**label, "predicate": pid, "line": meta.line_no, "depends_on": str(dep.node)[:80]}))
        # (b) building the goal graph never fails
        pool = bg.BranchGoalPool(sp)
        goals = bg.create_branch_coverage_fitness_functions(MagicMock(), pool)
        try:
            archive = CoverageArchive(goals)
            mgr = dyna._GoalsManager(goals, archive, sp)   # noqa: SLF001
        except Exception as e:  # noqa: BLE001
            out.append(("building the goal graph never fails", "goal-graph-raises", {**label, "error": f"{type(e).__name__}: {e}"[:300]}))
            return out
        # (c) every goal is a root goal or becomes current once the goals it depends on are covered
        graph = mgr._graph._graph                     # noqa: SLF001
        roots = set(mgr._graph.root_branches)         # noqa: SLF001
        reach = set(roots)
        for r in roots:
            reach |= nx.descendants(graph, r)
        lost = [g for g in goals if g not in reach]
        if lost:
            out.append(("every branch goal is a root goal or reachable from one in the goal graph", "unreachable-goal",
                        {**label, "goals": [str(g.goal)[:80] for g in lost][:5]}))
        # drive the real manager with a stub solution that covers exactly what the test says
        covered_now = set()

        class Sol:
            def get_is_covered(self, g):
                return g in covered_now

            def size(self):
                return 1

            def get_last_execution_result(self):
                r = MagicMock()
                r.timeout = False
                r.has_test_exceptions.return_value = False
                return r

            def clone(self):
                return self
        seen_current = set(mgr.current_goals)
        for _round in range(len(goals) + 2):
            covered_now |= set(mgr.current_goals)
            mgr.update([Sol()])
            seen_current |= set(mgr.current_goals)
            if not mgr.current_goals:
                break
        never = [g for g in goals if g not in seen_current and g not in set(archive.covered_goals)]
        if never:
            out.append(("covering the current goals again and again makes every goal current at some point", "goal-never-current",
                        {**label, "goals": [str(g.goal)[:80] for g in never][:5]}))
    finally:
        shutil.rmtree(d, ignore_errors=True)
    return out


def _check_c07(part: Part, tier, seed):
    for name, src in _MODS.items():
        for combo, text in _variants(src, tier):
            part.case(bool(combo))
            label = {"module": name, "no_cover_marker_on_lines": [i + 1 for i in combo]}
            try:
                probs = goal_graph_problems(text, label)
            except Exception as e:  # noqa: BLE001
                part.error(f"{label}: {type(e).__name__}: {e}")
                continue
            for clause, cls, detail in probs:
                part.violation(clause, cls, {**detail, "source": text if len(text) < 900 else text[:900]},
                               target=f"{DY}:_BranchFitnessGraph._build_graph")


def bounded_c07(tier, seed):
    p = Part("C07", "goal-graph-of-modules", [f"{DY}:_BranchFitnessGraph._build_graph", f"{DY}:_GoalsManager.update",
                                              "pynguin.instrumentation.transformer:InstrumentationTransformer._create_covered_cdg",
                                              "pynguin.instrumentation.controlflow:ControlDependenceGraph.get_control_dependencies"],
             scope="real branch instrumentation, BranchGoalPool, CoverageArchive and _GoalsManager on 4 modules (nested and sequential "
                   "branches, loops with else/break/continue, try/except/finally, with, early returns, while True, generator, class) "
                   "as they are and with the inline marker 'pynguin: no cover' on every single branching / scope line (thorough: "
                   "every pair of lines): dependencies resolve to registered predicates, the goal graph builds, every goal is "
                   "reachable from a root goal, and a stub solution covering the current goals round by round makes every goal current",
             bound="4 modules, <= 1 (2) exclusion markers")
    return guarded(p, _check_c07, tier, seed)


_WRAP = {
    "if": "if a > {n}:\n{body}",
    "ifelse": "if a > {n}:\n{body}\nelse:\n    b += {n}",
    "whiletrue": "while True:\n{body}",
    "while": "while b < {n}:\n{body}\n    b += 1",
    "for": "for i in xs:\n{body}",
    "try": "try:\n{body}\nexcept ValueError:\n    b -= {n}",
}
_INNER = {
    "return-if": "if a == 1:\n    return b",
    "two-ifs": "if a == 1:\n    b += 1\nif b == 2:\n    a += 1",
    "two-tries": ("try:\n    if a == 1:\n        return b\nexcept KeyError:\n    b = 0\n"
                  "try:\n    if b == 2:\n        return a\nexcept KeyError:\n    a = 0"),
    "two-tries-falling-through": ("try:\n    if a == 1:\n        b += 1\nexcept ValueError:\n    return 1\n"
                                  "try:\n    if b == 2:\n        b -= 1\nexcept KeyError:\n    return 2"),
    "two-withs": "with xs:\n    if a == 1:\n        b += 1\nwith xs:\n    while b > 7:\n        b -= 1",
    "try-if-in-handler": "try:\n    b += 1\nexcept KeyError:\n    if a:\n        return 1",
    "if-then-try": "if a == 3:\n    b += 2\ntry:\n    if b == 4:\n        a += 1\nfinally:\n    b += 1",
}


def _indent(text, by=4):
    return "\n".join((" " * by + ln) if ln else ln for ln in text.split("\n"))


def _nestings(tier):
    depth = 3
    for d in range(1, depth + 1):
        for chain in itertools.product(_WRAP, repeat=d):
            for iname, inner in _INNER.items():
                body = inner
                for n, w in enumerate(reversed(chain)):
                    body = _WRAP[w].format(n=n + 1, body=_indent(body))
                yield (chain, iname), "def f(a, b, xs):\n" + _indent(body) + "\n    return b\n"


def _check_nestings(part: Part, tier, seed):
    import random
    cases = list(_nestings(tier))
    if tier != "thorough":
        # all chains of depth <= 2, and a seeded third of the depth-3 chains
        rng = random.Random(seed)
        cases = [c for c in cases if len(c[0][0]) <= 2] + rng.sample([c for c in cases if len(c[0][0]) == 3], 360)
    for (chain, iname), text in cases:
        part.case()
        label = {"nesting(outer to inner)": list(chain), "innermost": iname}
        try:
            probs = goal_graph_problems(text, label)
        except Exception as e:  # noqa: BLE001
            part.error(f"{label}: {type(e).__name__}: {e}")
            continue
        for clause, cls, detail in probs:
            part.violation(clause, cls + ":generated-nesting", {**detail, "source": text},
                           target="pynguin.instrumentation.controlflow:ControlDependenceGraph.get_control_dependencies")


def bounded_nestings(tier, seed):
    p = Part("C07", "goal-graph-of-generated-nestings",
             [f"{DY}:_BranchFitnessGraph._build_graph", f"{DY}:_GoalsManager.update",
              "pynguin.instrumentation.controlflow:ControlDependenceGraph.get_control_dependencies",
              "pynguin.instrumentation.controlflow:ControlDependenceGraph._retrieve_control_dependencies"],
             scope="generated functions: every chain of <= 3 nested compound statements out of {if, if/else, while True, while, for, "
                   "try/except} around each of 7 innermost bodies (a returning if, two ifs in a row, two try blocks in a row with a "
                   "returning / a falling-through predicate each, two with blocks in a row, a predicate inside an except handler, an "
                   "if followed by try/finally): 1806 functions (quick: all 294 of depth <= 2 and a seeded sample of 360 of depth 3); "
                   "same four checks as for the hand-written modules",
             bound="nesting depth <= 3, one function per module")
    return guarded(p, _check_nestings, tier, seed)


BOUNDED = [bounded_c07, bounded_nestings]
META = {"rule": "obligations: one per contract clause/site of _GoalsManager.__init__/update; bounded part: one case per module variant"}


def classify(g):
    return g.get("class", "")


OUTER = MGR_WF + [f"keys(old(self._archive._covered)) <= {COV}",
                  f"old(self._current_goals) <= (self._current_goals | {COV})"]
loop(f"{DY}:_GoalsManager.update", 0, invariant=OUTER)
INNER = [
    "covered == keys(self._archive._covered)",
    "({done} - covered) <= new_goals",                                                          # uncovered current goals stay
    "all(implies(g in covered, CH(self._graph, g) <= (self._current_goals | covered | new_goals)) for g in {done})",
    "disjoint(new_goals, covered)"]
loop(f"{DY}:_GoalsManager.update", 1, invariant=[c.format(done="_done") for c in INNER])
loop(f"{DY}:_GoalsManager.update", 2, invariant=[c.format(done="outer_done") for c in INNER] + [
    "old_goal in covered", "old_goal in self._current_goals", "children == CH(self._graph, old_goal)",
    "_done <= (self._current_goals | covered | new_goals)"])
