"""C13 — the archive never loses a covered goal or a better solution."""
from pyvc.contracts import assumption, contract, for_property, klass, loop, predicate, ufun

for_property("C13")
AR = "pynguin.ga.algorithms.archive"
TCC = "pynguin.ga.testcasechromosome"

klass("pynguin.ga.computations:TestCaseFitnessFunction", fields={})
klass("pynguin.testcase.execution_result:ExecutionResult", fields={"timeout": "bool", "exceptions": "dict[int,BaseException]"})
klass(f"{TCC}:TestCaseChromosome", fields={}, ghost={"g_version": "int"})
klass(f"{AR}:Archive", fields={"_on_target_covered_callbacks": "list[Callback]"})
klass(f"{AR}:CoverageArchive", fields={
    "_covered": "dict[TestCaseFitnessFunction,TestCaseChromosome]",
    "_uncovered": "set[TestCaseFitnessFunction]", "_objectives": "set[TestCaseFitnessFunction]"}, bases=["Archive"])
klass(f"{AR}:MIOPopulationPair", fields={"h": "float", "test_case_chromosome": "TestCaseChromosome"}, record=True)
klass(f"{AR}:MIOPopulation", fields={"_counter": "int", "_capacity": "int", "_solutions": "list[MIOPopulationPair]"})

# abstract observations of a chromosome that do not change while an archive operation runs
ufun("ISCOV", ["TestCaseChromosome", "TestCaseFitnessFunction"], "bool")   # does the test cover the goal
ufun("LER", ["TestCaseChromosome"], "Optional[ExecutionResult]")           # last execution result
ufun("SIZE", ["TestCaseChromosome"], "int")                                 # number of statements
contract(f"{TCC}:TestCaseChromosome.get_is_covered", mode="assume",
         sig={"self": "TestCaseChromosome", "fitness_function": "TestCaseFitnessFunction"}, returns="bool",
         ensures=["result == ISCOV(self, fitness_function)"])
contract(f"{TCC}:TestCaseChromosome.get_last_execution_result", mode="assume", sig={"self": "TestCaseChromosome"},
         returns="Optional[ExecutionResult]", ensures=["same(result, LER(self))"])
contract(f"{TCC}:TestCaseChromosome.size", mode="assume", sig={"self": "TestCaseChromosome"}, returns="int",
         ensures=["result == SIZE(self)", "result >= 0"])
contract("pynguin.testcase.execution_result:ExecutionResult.has_test_exceptions",
         ensures=["result == (self.exceptions != {})"])
assumption("coverage verdict, last execution result and size of a chromosome do not change during an archive operation "
           "(chromosomes are not mutated by the archive); re-execution is deterministic (C12's assumption)")

predicate("has_errors(c)", "LER(c) is not None and (LER(c).timeout or LER(c).exceptions != {})")
predicate("error_free(c)", "LER(c) is not None and not LER(c).timeout and not (LER(c).exceptions != {})")
# the statement's order: error-free where the old one was not, otherwise strictly shorter
predicate("better(cur, cand)", "(has_errors(cur) and error_free(cand)) or SIZE(cand) < SIZE(cur)")
predicate("archive_wf(a)",
          "(keys(a._covered) | a._uncovered) == a._objectives and disjoint(keys(a._covered), a._uncovered)")

contract(f"{AR}:CoverageArchive._is_better_than_current", ensures=["result == better(current, candidate)"])
contract(f"{AR}:Archive._on_target_covered", mode="assume", sig={"self": "Archive", "target": "TestCaseFitnessFunction"},
         note="callbacks are opaque observers; assumed not to touch the archive")

UPD_POST = [
    "archive_wf(self)",
    "self._objectives == old(self._objectives)",
    # covered goals only grow
    "keys(old(self._covered)) <= keys(self._covered)",
    # every entry is the old one, or a given solution that covers the goal
    "all(implies(o in old(self._covered), self._covered[o] is old(self._covered)[o]) or "
    "    (any(solutions[i] is self._covered[o] for i in range(len(solutions))) and ISCOV(self._covered[o], o)) "
    "    for o in keys(self._covered))",
    # a goal covered by some given solution is covered afterwards
    "all(implies(any(ISCOV(solutions[i], o) for i in range(len(solutions))), o in self._covered) for o in self._objectives)",
]
contract(f"{AR}:CoverageArchive.update", sig={"solutions": "list[TestCaseChromosome]"},
         requires=["archive_wf(self)"], modifies=["self._covered", "self._uncovered"], ensures=UPD_POST)
OUTER = [
    "(keys(self._covered) | self._uncovered) == self._objectives and disjoint(keys(self._covered), self._uncovered)",
    "keys(old(self._covered)) <= keys(self._covered)",
    "all(implies(o in old(self._covered), self._covered[o] is old(self._covered)[o]) or "
    "    (any(solutions[i] is self._covered[o] for i in range(len(solutions))) and ISCOV(self._covered[o], o)) "
    "    for o in keys(self._covered))",
]
loop(f"{AR}:CoverageArchive.update", 0, invariant=OUTER + [
    "all(implies(any(ISCOV(solutions[i], o) for i in range(len(solutions))), o in self._covered) for o in _done)",
    "all(implies(o not in _done and o not in old(self._covered), o not in self._covered) for o in self._objectives)"])
loop(f"{AR}:CoverageArchive.update", 1, invariant=OUTER + [
    "objective in self._objectives",
    # the running best is exactly the archive's current entry for the objective
    "(best_solution is None) == (objective not in self._covered)",
    "implies(best_solution is not None, best_solution is self._covered[objective])",
    "implies(any(ISCOV(solutions[i], objective) for i in range(_i)), objective in self._covered)",
    "all(implies(o not in outer_done and o != objective and o not in old(self._covered), o not in self._covered) "
    "    for o in self._objectives)",
    "all(implies(any(ISCOV(solutions[i], o) for i in range(len(solutions))), o in self._covered) for o in outer_done)"])

contract(f"{AR}:CoverageArchive.add_goals", sig={"new_goals": "set[TestCaseFitnessFunction]"},
         requires=["archive_wf(self)"], modifies=["self._objectives", "self._uncovered"],
         ensures=["archive_wf(self)", "self._objectives == old(self._objectives) | new_goals",
                  "keys(self._covered) == keys(old(self._covered))"])
loop(f"{AR}:CoverageArchive.add_goals", 0, invariant=[
    "archive_wf(self)", "self._objectives == old(self._objectives) | _done"])
contract(f"{AR}:CoverageArchive.reset", requires=["archive_wf(self)"], modifies=["self._covered", "self._uncovered"],
         ensures=["archive_wf(self)", "self._covered == {}", "self._uncovered == self._objectives"])
contract(f"{AR}:CoverageArchive.covered_goals", returns="set[TestCaseFitnessFunction]",
         ensures=["result == keys(self._covered)"])

# ---- MIO population ---------------------------------------------------------------------------------------------
predicate("mio_cov(p)", "len(p._solutions) == 1 and p._capacity == 1 and p._solutions[0].h == 1.0")
predicate("mio_wf(p)",
          "p._capacity >= 1 and len(p._solutions) <= p._capacity and "
          "all(p._solutions[i].h > 0 and p._solutions[i].h <= 1 and not isnan(p._solutions[i].h) "
          "    for i in range(len(p._solutions))) and "
          "all(all(implies(i < j, p._solutions[i].h >= p._solutions[j].h) for j in range(len(p._solutions))) "
          "    for i in range(len(p._solutions)))")
contract(f"{AR}:MIOPopulation.is_covered", ensures=["result == mio_cov(self)"])
contract(f"{AR}:MIOPopulation._is_better_than_current", mode="assume", sig={"current": "TestCaseChromosome",
         "candidate": "TestCaseChromosome"}, returns="bool")
contract(f"{AR}:MIOPopulation._is_pair_better_than_current", sig={"current": "MIOPopulationPair", "candidate": "MIOPopulationPair"},
         requires=["not isnan(current.h)", "not isnan(candidate.h)"],
         ensures=["implies(current.h > candidate.h, not result)", "implies(current.h < candidate.h, result)"])
contract(f"{AR}:MIOPopulation._sort_solutions", requires=[], modifies=["self._solutions"],
         ensures=["len(self._solutions) == len(old(self._solutions))",
                  "all(all(implies(i < j, self._solutions[i].h >= self._solutions[j].h) "
                  "    for j in range(len(self._solutions))) for i in range(len(self._solutions)))"],
         note="permutation facts of list.sort are an assumed library contract")
contract(f"{AR}:MIOPopulation.add_solution", sig={"test_case_chromosome": "TestCaseChromosome"},
         requires=["mio_wf(self)", "not isnan(h)"],
         raises={"AssertionError": "not (0 <= h and h <= 1)"},
         modifies=["self._solutions", "self._capacity", "self._counter"],
         ensures=["len(self._solutions) <= self._capacity", "self._capacity >= 1",
                  "implies(old(mio_cov(self)), mio_cov(self))",                    # a covered target stays covered ...
                  "implies(mio_cov(self), len(self._solutions) == 1)",              # ... with exactly one solution
                  "implies(h == 1, mio_cov(self))",
                  "implies(not result, len(self._solutions) == len(old(self._solutions)) and "
                  "        self._capacity == old(self._capacity) and self._counter == old(self._counter))",
                  "implies(result, self._counter == 0)"])
contract(f"{AR}:MIOPopulation.shrink_population", sig={"new_population_size": "int"},
         requires=["mio_wf(self)"], raises={"AssertionError": "new_population_size <= 0"},
         modifies=["self._solutions", "self._capacity"],
         ensures=["len(self._solutions) <= self._capacity", "self._capacity >= 1",
                  "implies(old(mio_cov(self)), mio_cov(self))",
                  "len(self._solutions) <= len(old(self._solutions))"])


# ---- archived tests are never mutated in place (so they keep covering their goal when re-executed) -----------------
# DynaMOSA's local search must work on clones: whatever TestSuiteLocalSearch does to the chromosomes of the suite
# it is given (modelled as a version bump of exactly those chromosomes), no archived chromosome changes.
DY = "pynguin.ga.algorithms.dynamosaalgorithm"
klass("pynguin.ga.testsuitechromosome:TestSuiteChromosome", fields={"test_case_chromosomes": "list[TestCaseChromosome]"},
      ghost={"g_members": "set[TestCaseChromosome]"})
klass("pynguin.testcase.localsearch:TestSuiteLocalSearch", fields={})
klass("pynguin.ga.algorithms.generationalgorithm:GenerationAlgorithm", fields={"_archive": "CoverageArchive"})
klass("pynguin.ga.algorithms.abstractmosaalgorithm:AbstractMOSAAlgorithm", fields={}, bases=["GenerationAlgorithm"])
klass(f"{DY}:DynaMOSAAlgorithm", fields={}, bases=["AbstractMOSAAlgorithm"])
predicate("archive_sound(a)", "all(ISCOV(a._covered[o], o) for o in keys(a._covered))")
from pyvc.contracts import auto_inline  # noqa: E402
auto_inline(f"{AR}:CoverageArchive._all_covered")
contract(f"{AR}:CoverageArchive.solutions", requires=["archive_sound(self)"], returns="set[TestCaseChromosome]",
         ensures=["forall(lambda c: (c in result) == any(self._covered[k] is c for k in keys(self._covered)), 'TestCaseChromosome')"])
contract(f"{TCC}:TestCaseChromosome.clone", mode="assume", sig={"self": "TestCaseChromosome"},
         returns="TestCaseChromosome", fresh_result=True, ensures=["fresh_ref(result)"])
contract("pynguin.ga.algorithms.generationalgorithm:GenerationAlgorithm.create_test_suite", mode="assume",
         sig={"self": "GenerationAlgorithm", "population": "set[TestCaseChromosome]"}, returns="TestSuiteChromosome",
         fresh_result=True, ensures=["result.g_members == population"],
         note="the suite's members are exactly the chromosomes it is given (add_test_case_chromosomes(list(population)))")
contract("pynguin.ga.testsuitechromosome:TestSuiteChromosome.get_coverage", mode="assume",
         sig={"self": "TestSuiteChromosome"}, returns="float")
contract("pynguin.testcase.localsearch:TestSuiteLocalSearch.local_search", mode="assume",
         sig={"self": "TestSuiteLocalSearch", "chromosome": "TestSuiteChromosome", "factory": "TestFactory",
              "executor": "TestCaseExecutor", "timer": "LocalSearchTimer"},
         modifies=["TestCaseChromosome.g_version['*']"],
         ensures=["forall(lambda c: implies(c not in chromosome.g_members, c.g_version == old(c.g_version)), "
                  "'TestCaseChromosome')"],
         note="local search mutates (at most) the test cases of the suite it is given")
contract(f"{DY}:DynaMOSAAlgorithm.local_search",
         requires=["archive_sound(self._archive)",
                   "all(allocated(self._archive._covered[k]) for k in keys(self._archive._covered))"],
         modifies=["TestCaseChromosome.g_version['*']", "self.ALL"],
         ensures=["forall(lambda c: implies(any(old(self._archive._covered)[k] is c for k in keys(old(self._archive._covered))), "
                  "c.g_version == old(c.g_version)), 'TestCaseChromosome')"])
loop(f"{DY}:DynaMOSAAlgorithm.local_search", 0, invariant=["all(fresh_ref(c) for c in test_cases)"])

# ---------------------------------------------------------------------------------------------------------------
# native replay: duck-typed chromosomes / fitness functions with controllable verdicts, real archive classes
from pyvc.enumerate import sampler  # noqa: E402
from pyvc.replay import NATIVE_HELPERS, Obj, builder  # noqa: E402


class _FF:
    def __init__(self, n):
        self.n = n

    def __repr__(self):
        return f"goal{self.n}"

    def __hash__(self):
        return hash(("ff", self.n))

    def __eq__(self, other):
        return isinstance(other, _FF) and other.n == self.n


class _Chrom:
    """Stands in for TestCaseChromosome: the archive only calls the four methods below."""

    def __init__(self, covers, size, result, tag):
        self.covers, self._size, self._result, self.tag = set(covers), size, result, tag

    def get_is_covered(self, ff):
        return ff.n in self.covers

    def get_last_execution_result(self):
        return self._result

    def size(self):
        return self._size

    def clone(self):
        return _Chrom(self.covers, self._size, self._result, self.tag + "'")

    def __repr__(self):
        r = self._result
        return f"<chrom {self.tag} covers={sorted(self.covers)} size={self._size} " \
               f"result={'None' if r is None else ('timeout' if r.timeout else ('exc' if r.exceptions else 'ok'))}>"


def _mk_result(kind):
    from pynguin.testcase.execution_result import ExecutionResult
    if kind == "none":
        return None
    r = ExecutionResult(timeout=(kind == "timeout"))
    if kind == "exc":
        r.exceptions = {0: ValueError("x")}
    return r


_FFS = [_FF(i) for i in range(3)]


@sampler("TestCaseFitnessFunction")
def _s_ff(sc, cls):
    return ("$py", sc.rnd.choice(_FFS))


@sampler("TestCaseChromosome")
def _s_chrom(sc, cls):
    r = sc.rnd
    sc.next_ref += 1
    return ("$py", _Chrom([i for i in range(3) if r.random() < 0.5], r.choice([0, 1, 2, 3]),
                          _mk_result(r.choice(["none", "ok", "ok", "timeout", "exc"])), f"c{sc.next_ref}"))


@sampler("CoverageArchive")
def _s_archive(sc, cls):
    from pynguin.ga.algorithms.archive import CoverageArchive
    from pynguin.utils.orderedset import OrderedSet
    r = sc.rnd
    objs = [f for f in _FFS if r.random() < 0.8]
    a = CoverageArchive(OrderedSet(objs))
    for o in objs:
        if r.random() < 0.5:
            c = _s_chrom(sc, "TestCaseChromosome")[1]
            c.covers.add(o.n)
            a._covered[o] = c
            a._uncovered.remove(o)
    return ("$py", a)


@sampler("MIOPopulation")
def _s_pop(sc, cls):
    from pynguin.ga.algorithms.archive import MIOPopulation, MIOPopulationPair
    r = sc.rnd
    p = MIOPopulation(r.choice([1, 2, 3]))
    if r.random() < 0.3:
        p._capacity = 1
        p._solutions = [MIOPopulationPair(1.0, _s_chrom(sc, "")[1])]
    else:
        hs = sorted([r.choice([0.25, 0.5, 0.75]) for _ in range(r.randint(0, p._capacity))], reverse=True)
        p._solutions = [MIOPopulationPair(h, _s_chrom(sc, "")[1]) for h in hs]
    return ("$py", p)


def witness_local_search():
    """Real DynaMOSAAlgorithm.local_search with the suite-level local search replaced by a stub that follows the
    assumed contract (it changes every test case of the suite it is given): are archived chromosomes untouched?"""
    from unittest import mock
    import pynguin.ga.testsuitechromosome as tsc
    from pynguin.ga.algorithms.archive import CoverageArchive
    from pynguin.ga.algorithms.dynamosaalgorithm import DynaMOSAAlgorithm
    from pynguin.utils.orderedset import OrderedSet
    import pynguin.testcase.localsearch as ls

    class Chrom(_Chrom):
        version = 0

        def clone(self):
            c = Chrom(self.covers, self._size, self._result, self.tag + "'")
            c.version = self.version
            return c

        def __hash__(self):
            return id(self)

    goal = _FFS[0]
    archived = Chrom([0], 2, _mk_result("ok"), "archived")
    archive = CoverageArchive(OrderedSet([goal]))
    archive.update([archived])
    alg = DynaMOSAAlgorithm.__new__(DynaMOSAAlgorithm)
    alg._archive = archive
    alg._test_suite_fitness_functions = OrderedSet()
    alg._test_suite_coverage_functions = OrderedSet()
    alg._test_factory = alg._executor = None
    alg._goals_manager = mock.Mock()

    def fake_local_search(self, chromosome, factory, executor, timer):
        for c in chromosome.test_case_chromosomes:
            c.version += 1
    with mock.patch.object(ls.TestSuiteLocalSearch, "local_search", fake_local_search), \
            mock.patch.object(tsc.TestSuiteChromosome, "get_coverage", lambda self: 0.0):
        alg.local_search()
    return {"fails": archived.version != 0,
            "scenario": "DynaMOSAAlgorithm.local_search() with one archived chromosome; the suite-level local search "
                        "is a stub that modifies every chromosome of the suite it receives",
            "archived_chromosome_modified": archived.version != 0}


WITNESS = {"DynaMOSAAlgorithm.local_search/post": witness_local_search}
NATIVE_HELPERS["ISCOV"] = lambda c, o: c.get_is_covered(o)
NATIVE_HELPERS["LER"] = lambda c: c.get_last_execution_result()
NATIVE_HELPERS["SIZE"] = lambda c: c.size()
SCOPE = {f"{AR}:MIOPopulation.add_solution": {"floats": [0.0, 0.25, 0.5, 0.75, 1.0]}}
