"""C03 — reported branch outcomes equal the branches actually taken (C01, C02 share the harness below)."""
from pyvc.contracts import assumption, contract, for_property, klass, lemma, loop, predicate, ufun

for_property("C03")
TRC = "pynguin.instrumentation.tracer"


# ==== bounded stand-in (H-prog): the interpreter's own BRANCH / LINE events against the tracer's report ========================
from pyvc.bounded import Part, guarded  # noqa: E402

_METRICS = {"S": (), "B": ("BRANCH",), "L": ("LINE",), "BL": ("BRANCH", "LINE")}   # S: dynamic seeding only


def run_hprog(part, tier, seed, judge, metric_keys, source=None, vectors=None, tag="hprog"):
    """Drive every (function, argument vector) of the H-prog module (or of another module given by `source` and `vectors`): the
    uninstrumented run under sys.monitoring and the run of the module instrumented with each metric subset under the real
    tracer; `judge` compares one pair of runs."""
    import shutil, sys, tempfile  # noqa: E401
    import pynguin.configuration as config
    from . import hprog as H
    vectors = vectors or H.argument_vectors
    d = tempfile.mkdtemp(prefix="hprog_")
    try:
        plain, ppath = H.load_plain(f"{tag}_plain", d, source)
        vec_p = vectors(plain)
        base = {}
        for fn, facts in vec_p.items():
            for k, f in enumerate(facts):
                base[(fn, k)] = H.monitored(getattr(plain, fn), f(), ppath)
        for mk in metric_keys:
            metrics = {config.CoverageMetric[m] for m in _METRICS[mk]}
            name = f"{tag}_inst_{mk}"
            inst, sp, _ipath = H.load_instrumented(name, d, metrics, source)
            vec_i = vectors(inst)
            tracer = sp.instrumentation_tracer
            imp = tracer.import_trace
            for fn, facts in vec_i.items():
                for k, f in enumerate(facts):
                    part.case()
                    try:
                        res, trace = H.traced(inst, sp, fn, f)
                    except BaseException as e:  # noqa: BLE001
                        part.violation("executing an instrumented function under the tracer does not break the harness",
                                       f"harness:{fn}", {"function": fn, "vector": k, "error": f"{type(e).__name__}: {e}"[:200]})
                        continue
                    judge(part, mk, fn, k, base[(fn, k)], res, trace, sp, imp)
            sys.modules.pop(name, None)
    finally:
        shutil.rmtree(d, ignore_errors=True)


def _argrepr(fn, k):
    import sys
    from . import hprog as H
    return f"{fn}#{k}"


def judge_branches(part, mk, fn, k, base, res, trace, sp, imp):
    (r0, lines, branches) = base
    if "B" not in mk:
        return
    rep = set()
    # every trace starts from the import trace, so for a predicate that already ran while the module was imported the report
    # cannot tell the import from this call: the lines of such predicates are left out on both sides
    imp_lines = {sp.existing_predicates[pid].line_no for pid in imp.executed_predicates if pid in sp.existing_predicates}
    branches = {b for b in branches if b[1] not in imp_lines}
    for pid, meta in sp.existing_predicates.items():
        if pid not in trace.executed_predicates or meta.line_no in imp_lines:
            continue
        if trace.true_distances.get(pid) == 0.0:
            rep.add((meta.line_no, True))
        if trace.false_distances.get(pid) == 0.0:
            rep.add((meta.line_no, False))
    mon = {(ln, o) for (_n, ln, _op, o) in branches}
    # the goal objects the search and the reports use must say the same as the distances in the trace
    try:
        import pynguin.ga.coveragegoals as _bg
        from pynguin.testcase.execution_result import ExecutionResult as _ER
        _res = _ER()
        _res.execution_trace = trace
        rep_goals = set()
        for g_ in _bg.BranchGoalPool(sp).branch_coverage_goals:
            pid_ = getattr(g_, "predicate_id", None)
            if pid_ is None or pid_ not in sp.existing_predicates or sp.existing_predicates[pid_].line_no in imp_lines:
                continue
            if pid_ in trace.executed_predicates and g_.is_covered(_res):
                rep_goals.add((sp.existing_predicates[pid_].line_no, g_.value))
        if rep_goals != rep:
            part.violation("the (predicate, outcome) pairs reported as covered are exactly the conditional-jump outcomes the interpreter took",
                           f"goal-objects-differ:{fn}", {"function": fn, "vector": k, "metrics": mk,
                                                         "covered_by_BranchGoal.is_covered_only": sorted(rep_goals - rep, key=repr),
                                                         "covered_by_zero_distance_only": sorted(rep - rep_goals, key=repr)},
                           target="pynguin.ga.coveragegoals:BranchGoal.is_covered")
    except ImportError:
        pass
    # the entry of a branch-less code object is reported exactly when the interpreter entered that code object
    if r0[0] == res[0] and r0[1] == res[1] and hasattr(lines, "entered"):
        branchless = {cid: (sp.existing_code_objects[cid].code_object.co_name, sp.existing_code_objects[cid].code_object.co_firstlineno)
                      for cid in sp.branch_less_code_objects}
        rep_entries = {branchless[cid] for cid in trace.executed_code_objects if cid in branchless and cid not in imp.executed_code_objects}
        mon_entries = {e for e in lines.entered if e in set(branchless.values())}
        # (code objects the import already entered, e.g. <module> and class bodies, are subtracted from later traces)
        imported = {branchless[cid] for cid in imp.executed_code_objects if cid in branchless}
        if rep_entries != mon_entries - imported:
            part.violation("the entry of a branch-less code object is reported as covered exactly when the interpreter entered it",
                           f"branchless-entry:{fn}", {"function": fn, "vector": k, "metrics": mk,
                                                      "entered_not_reported": sorted(mon_entries - imported - rep_entries),
                                                      "reported_not_entered": sorted(rep_entries - mon_entries)},
                           target=f"{TRC}:ExecutionTracer.executed_code_object")
    if rep == mon:
        return
    detail = {"function": fn, "vector": k, "metrics": mk, "taken_not_reported(line,outcome)": sorted(mon - rep, key=repr),
              "reported_not_taken(line,outcome)": sorted(rep - mon, key=repr), "uninstrumented_outcome": repr(r0[0])[:120],
              "instrumented_outcome": repr(res[0])[:120]}
    if r0[0] != res[0] or r0[1] != res[1]:
        cls = f"behaviour-changed:{fn}"            # the instrumented run itself took another path (C01's subject)
    elif r0[0][0] == "raised" and not (mon - rep):
        cls = f"raising-comparison-recorded:{fn}"   # the comparison raised, yet an outcome was recorded
    else:
        cls = f"branches-differ:{fn}"
    part.violation("the (predicate, outcome) pairs reported as covered are exactly the conditional-jump outcomes the interpreter took",
                   cls, detail, target=f"{TRC}:ExecutionTracer.executed_compare_predicate")


def bounded_c03(tier, seed):
    p = Part("C03", "branches-vs-interpreter", [f"{TRC}:ExecutionTracer.executed_compare_predicate", f"{TRC}:ExecutionTracer.executed_bool_predicate",
                                                f"{TRC}:ExecutionTracer.executed_exception_match",
                                                "pynguin.instrumentation.version.python3_12:BranchCoverageInstrumentation"],
             scope="H-prog: a module of 28 functions (all comparison kinds, None tests, truthiness, boolean operators, chained "
                   "comparisons, while/for with break/continue/else, nested loops, try/except/else/finally, comprehensions, "
                   "str.startswith/endswith/isX, subscripts, generators, with, match, conditional expressions, lambda, assert) x "
                   "~420 argument vectors (ints beyond 2**53 and 1e308, NaN, +-inf, -0.0, Decimal, Fraction, complex, str/bytes, "
                   "containers, one-shot iterators, objects with partial or side-effecting comparison protocols); sys.monitoring "
                   "BRANCH events of the uninstrumented run mapped to (line, outcome) against the predicates the real tracer "
                   "reports as covered, under the metric sets {BRANCH} and {BRANCH, LINE}",
             bound="the listed functions and vectors; outcomes are compared per source line")
    return guarded(p, lambda part, t, s: run_hprog(part, t, s, judge_branches, ("B", "BL")), tier, seed)


def bounded_stdlib(tier, seed):
    from . import hstd
    p = Part("C03", "stdlib-corpus", [f"{TRC}:ExecutionTracer.executed_compare_predicate", f"{TRC}:ExecutionTracer.executed_bool_predicate",
                                      f"{TRC}:ExecutionTracer.executed_exception_match",
                                      "pynguin.instrumentation.version.python3_12:BranchCoverageInstrumentation"],
             scope=hstd.SCOPE_TEXT + "; sys.monitoring BRANCH events of the uninstrumented copy against the covered (predicate, outcome) "
                   "pairs and branch-less code object entries of the instrumented copy, under {BRANCH} and {BRANCH, LINE}",
             bound="the listed modules and calls")
    return guarded(p, lambda part, t, s: hstd.run_corpus(part, t, s, "C03", "c03", "judge_branches", ("B", "BL")), tier, seed)


BOUNDED = [bounded_c03, bounded_stdlib]
META = {"level": "other", "explanation": "bounded differential contract check: the interpreter's own branch events are the oracle",
        "rule": "one case per (function, argument vector, metric set)"}


def classify(g):
    return g.get("class", "")
