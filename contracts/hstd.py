"""H-std: copies of pure-Python standard-library modules as additional subjects of the C01 / C02 / C03 harness.

Each module's source is read from the running interpreter's library, the import of its C accelerator (if any) is removed so
that the Python definitions stay in force, a few wrapper functions are appended (to call methods and to exhaust generators
inside the call), and the copy is loaded twice under new names: plainly and through the real import hook.  The calls are
fixed and deterministic."""
from __future__ import annotations

import importlib
import inspect
import re

_ACCEL = re.compile(r"^try:\n(?:    .*\n)*?    from _\w+ import .*\n(?:    .*\n)*?except ImportError:\n(?:    .*\n)+", re.M)


def _source(modname, extra=""):
    mod = importlib.import_module(modname)
    src = inspect.getsource(mod)
    src = _ACCEL.sub("", src)
    return src + "\n\n# ---- wrappers appended by the harness ----\n" + extra


def _many(items):
    return [lambda it=it: it for it in items]


SUBJECTS = {}
SCOPE_TEXT = ("copies of 17 pure-Python standard-library modules (bisect, heapq, textwrap, colorsys, fnmatch, shlex, posixpath, difflib, "
              "string, statistics, ipaddress, urllib.parse, graphlib, copy, pprint, fractions, calendar; C accelerators removed, a few "
              "wrappers appended) with ~600 fixed calls")


def _corpus_worker(job):
    """One module of the corpus in a process of its own: returns the counters and violations of a private Part."""
    name, pid, judge_mod, judge_fn, metric_keys, tier, seed = job
    import importlib as _il
    from pyvc.bounded import Part
    from . import c03
    p = Part(pid, f"stdlib-corpus:{name}", [], scope="", bound="")
    modname, extra, vec = SUBJECTS[name]
    try:
        judge = getattr(_il.import_module(f"contracts.{judge_mod}"), judge_fn)
        c03.run_hprog(p, tier, seed, judge, metric_keys, source=_source(modname, extra), vectors=vec, tag=f"hstd_{name}")
    except Exception as e:  # noqa: BLE001
        # (a module that cannot be imported through the instrumenting import hook at all is a violation of C01, reported there)
        return name, p.inputs_run, p.nontrivial, list(p.violations.values()), [f"{name}: {type(e).__name__}: {e}"[:400]]
    return name, p.inputs_run, p.nontrivial, list(p.violations.values()), p.errors


def run_corpus(part, tier, seed, pid, judge_mod, judge_fn, metric_keys, import_failure_is_violation=False):
    import multiprocessing as mp
    jobs = [(n, pid, judge_mod, judge_fn, metric_keys, tier, seed) for n in SUBJECTS]
    with mp.get_context("fork").Pool(8) as pool:
        results = pool.map(_corpus_worker, jobs)
    for name, n, nt, vios, errors in results:
        part.inputs_run += n
        part.nontrivial += nt
        for v in vios:
            part.violation(v["descr"], f"{v['class']}@{name}", {"module": name, **(v["detail"] if isinstance(v["detail"], dict) else {"detail": v["detail"]})},
                           target=v.get("target"))
        for e in errors:
            if import_failure_is_violation:
                part.case()
                part.violation("the instrumented function returns / raises / prints / mutates exactly like the original",
                               f"module-not-instrumentable@{name}", {"module": name, "error": e},
                               target="pynguin.instrumentation.transformer:InstrumentationTransformer.instrument_code")
            # (C02 / C03: a module that cannot be loaded in either form yields no comparison; C01's part reports it)


def subject(name, modname, extra=""):
    def deco(fn):
        SUBJECTS[name] = (modname, extra, fn)
        return fn
    return deco


@subject("bisect", "bisect")
def _v_bisect(mod):
    xs = [1, 2, 2, 3, 5, 8]
    v = {}
    for f in ("bisect_left", "bisect_right"):
        v[f] = _many([(xs, t) for t in (0, 2, 4, 9)] + [(xs, 2, 1, 4), (xs, 2, 3), ([], 1), (xs, 2, -1), (xs, "a")])
    for f in ("insort_left", "insort_right"):
        v[f] = [lambda t=t: ([1, 2, 2, 3], t) for t in (0, 2, 9)] + [lambda: ([3, 1], 2), lambda: ([(1, "a"), (2, "b")], (1, "z"))]
    return v


@subject("heapq", "heapq", extra='''
def _drv_sequence(items, k):
    h = []
    out = []
    for x in items:
        heappush(h, x)
    out.append(list(h))
    out.append(heappushpop(h, k))
    out.append(heapreplace(h, k) if h else None)
    while h:
        out.append(heappop(h))
    return out


def _drv_merge(a, b, reverse):
    return list(merge(a, b, reverse=reverse))
''')
def _v_heapq(mod):
    v = {}
    v["_drv_sequence"] = _many([([5, 1, 4, 1, 3], 2), ([], 1), ([2], 2), (["b", "a"], "c"), ([1, "a"], 0)])
    v["heapify"] = [lambda: ([5, 3, 8, 1, 9, 2],), lambda: ([],), lambda: ([1],)]
    v["nlargest"] = _many([(2, [4, 1, 7, 3]), (0, [1]), (5, [2, 1]), (1, [3, 9, 2]), (2, ["bb", "a", "ccc"], len)])
    v["nsmallest"] = _many([(2, [4, 1, 7, 3]), (1, []), (3, [3, 3, 1, 2]), (2, ["bb", "a", "ccc"], len)])
    v["_drv_merge"] = _many([([1, 4], [2, 3], False), ([], [], False), ([4, 1], [3, 2], True), ([1], ["a"], False)])
    return v


@subject("textwrap", "textwrap")
def _v_textwrap(mod):
    t = "The quick brown fox   jumps over the lazy dog.  It was a-very-long-hyphenated-word indeed!\n\tTabs and\nnewlines."
    v = {}
    v["wrap"] = _many([(t, 20), (t, 5), ("", 10), (t, 0), ("word", 2)])
    v["fill"] = _many([(t, 30), (t, 12)])
    v["shorten"] = _many([(t, 30), (t, 5), ("a b", 1), ("hello world", 8)])
    v["dedent"] = _many([("  a\n   b\n  c",), ("\ta\n  b",), ("",), ("  \n  x",)])
    v["indent"] = _many([("a\n\nb\n", "> "), ("a", "", ), ("a\n b", "--", lambda line: line.startswith(" "))])
    return v


@subject("colorsys", "colorsys")
def _v_colorsys(mod):
    grid = [(0.0, 0.0, 0.0), (1.0, 1.0, 1.0), (0.2, 0.4, 0.6), (0.9, 0.1, 0.5), (0.5, 0.5, 0.5), (1.0, 0.0, 0.0), (0.3, 0.3, 0.1)]
    return {f: _many(grid) for f in ("rgb_to_yiq", "yiq_to_rgb", "rgb_to_hls", "hls_to_rgb", "rgb_to_hsv", "hsv_to_rgb")}


@subject("fnmatch", "fnmatch")
def _v_fnmatch(mod):
    pats = ["*.py", "a?c", "[abc]*", "[!a-c]x", "**", "a[", "[]]", "[!]", "*.[ch]", "", "a*b*c", "[a-]", "\\*"]
    v = {"translate": _many([(p,) for p in pats])}
    v["fnmatchcase"] = _many([(n, p) for n in ("abc", "x.py", "]", "dx", "a-c") for p in pats[:9]])
    v["filter"] = _many([(["a.py", "b.c", "c.h", "d"], "*.[ch]"), ([], "*"), (["x"], "")])
    return v


@subject("shlex", "shlex")
def _v_shlex(mod):
    lines = ["a b c", "a 'b c' \"d e\"", "a\\ b", "x # comment", "'unclosed", "a;b|c", "", "é 'ü'", 'say "it\'s"', "a\\"]
    v = {"split": _many([(s,) for s in lines] + [(lines[3], True), (lines[1], False, False), (None,)])}
    v["quote"] = _many([("",), ("abc",), ("a b",), ("it's",), ("$x",)])
    v["join"] = _many([(["a", "b c", ""],), ([],)])
    return v


@subject("posixpath", "posixpath")
def _v_posixpath(mod):
    ps = ["/a/b/../c", "a//b/./c/", "", "/", "//x", "///x", "../..", "a/b/c.tar.gz", ".hidden", "/a/b/", "a", b"/x/../y", "~/x", "$HOME/y"]
    v = {f: _many([(p,) for p in ps]) for f in ("normpath", "split", "splitext", "basename", "dirname", "isabs", "splitdrive")}
    v["join"] = _many([("a", "b"), ("/a", "/b"), ("a/", ""), ("", ""), ("a", "b", "/c", "d"), (b"a", b"b"), ("a", b"b")])
    v["commonpath"] = _many([(["/a/b", "/a/c"],), (["a/b", "a/b/c"],), (["/a", "b"],), ([],), (["/a"],)])
    v["commonprefix"] = _many([(["/abc", "/abd"],), ([],), (["x"],)])
    v["relpath"] = _many([("/a/b/c", "/a"), ("/a", "/a/b/c"), ("/a", "/a"), ("", "/")])
    return v


@subject("difflib", "difflib", extra='''
def _drv_opcodes(a, b):
    s = SequenceMatcher(None, a, b)
    return [round(s.ratio(), 6), round(s.quick_ratio(), 6), s.get_opcodes(), s.find_longest_match(0, len(a), 0, len(b))]


def _drv_unified(a, b, n):
    return list(unified_diff(a, b, "x", "y", n=n, lineterm=""))


def _drv_ndiff(a, b):
    return list(ndiff(a, b))
''')
def _v_difflib(mod):
    v = {}
    v["_drv_opcodes"] = _many([("abcd", "bcde"), ("", ""), ("a", ""), ("abxcd", "abcd"), ([1, 2, 3], [3, 2, 1]), ("private Thread", "private volatile Thread")])
    a, b = ["one", "two", "three", "four"], ["zero", "one", "tree", "four", "five"]
    v["_drv_unified"] = _many([(a, b, 3), (a, a, 3), ([], b, 0), (a, b, 0)])
    v["_drv_ndiff"] = _many([(a, b), (["abc\n"], ["abd\n"]), ([], [])])
    v["get_close_matches"] = _many([("appel", ["ape", "apple", "peach", "puppy"]), ("x", []), ("a", ["a"], 0, 0.5), ("a", ["b"], 1, 2.0)])
    return v


@subject("string", "string", extra='''
def _drv_template(t, mapping, safe):
    tmpl = Template(t)
    return (tmpl.safe_substitute(mapping) if safe else tmpl.substitute(mapping)), tmpl.is_valid(), tmpl.get_identifiers()


def _drv_format(fmt, args, kwargs):
    return Formatter().format(fmt, *args, **kwargs)
''')
def _v_string(mod):
    v = {}
    v["_drv_template"] = _many([("$a and ${b}", {"a": 1, "b": 2}, False), ("$a $$ $c", {"a": 1}, True), ("$a", {}, False), ("$", {}, False),
                                ("${a", {"a": 1}, True), ("no vars", {}, False)])
    v["capwords"] = _many([("hello  world",), ("a-b c", "-"), ("",)])
    v["_drv_format"] = _many([("{} {}", (1, 2), {}), ("{0!r:>6} {x}", ("a",), {"x": 1.5}), ("{", (), {}), ("{a.real}", (), {"a": 3}), ("{0[1]}", ([7, 8],), {}),
                              ("{:{w}}", (5,), {"w": 4}), ("{} {0}", (1,), {})])
    return v


@subject("statistics", "statistics")
def _v_statistics(mod):
    data = [[1, 2, 3, 4], [2.5, 3.5], [1], [], [1, 1, 2, 3], [1, "a"], [3, 1, 2], [10 ** 20, 1, 2]]
    v = {f: _many([(d,) for d in data]) for f in ("mean", "fmean", "median", "median_low", "median_high", "mode", "multimode", "pstdev", "variance",
                                                 "geometric_mean", "harmonic_mean")}
    v["quantiles"] = _many([([1, 2, 3, 4, 5],), ([1, 2], ), ([1],), ([1, 2, 3, 4, 5, 6, 7], ), ([3, 1, 2], )])
    v["correlation"] = _many([([1, 2, 3], [2, 4, 7]), ([1, 2], [1]), ([1, 1], [2, 3])])
    v["linear_regression"] = _many([([1, 2, 3], [2, 4, 7]), ([1, 1], [2, 3])])
    return v


@subject("ipaddress", "ipaddress", extra='''
def _drv_net(text, strict):
    import itertools
    n = ip_network(text, strict=strict)
    return [str(n), n.num_addresses, [str(h) for h in itertools.islice(n.hosts(), 3)], n.is_private, str(n.supernet()) if n.prefixlen else None,
            [str(s) for s in itertools.islice(n.subnets(), 2)] if n.prefixlen < n.max_prefixlen else []]


def _drv_addr(text):
    a = ip_address(text)
    return [str(a), int(a), a.version, a.is_loopback, a.is_multicast, a.reverse_pointer, str(a + 1) if int(a) < 2 ** 31 else None]
''')
def _v_ipaddress(mod):
    v = {}
    v["_drv_addr"] = _many([(t,) for t in ("127.0.0.1", "10.0.0.255", "::1", "2001:db8::ff00:42:8329", "256.1.1.1", "1.2.3", "fe80::1%eth0", "", 3232235777,
                                            "::ffff:1.2.3.4", "01.2.3.4")])
    v["_drv_net"] = _many([("192.168.0.0/24", True), ("192.168.0.1/24", True), ("192.168.0.1/24", False), ("10.0.0.0/8", True), ("::/0", True),
                           ("2001:db8::/126", True), ("1.2.3.4/33", True), ("1.2.3.4/32", True), ("1.2.3.0/255.255.255.0", True)])
    v["summarize_address_range"] = [lambda: (mod.ip_address("10.0.0.1"), mod.ip_address("10.0.0.9"))]
    return v


@subject("urlparse", "urllib.parse", extra='''
def _drv_split(url):
    r = urlsplit(url)
    return [tuple(r), r.hostname, r.port if _safe_port(r) else "bad port", r.geturl()]


def _safe_port(r):
    try:
        r.port
        return True
    except ValueError:
        return False
''')
def _v_urlparse(mod):
    urls = ["http://user:pw@Example.com:8080/a/b;p?q=1&r=2#frag", "//host/path", "mailto:a@b.c", "/rel/path?x", "", "http://[::1]:80/", "http://h:99999/",
            "HTTP://a/b c", "x:y", "http://a/?q=%41+b", b"http://bytes/path"]
    v = {"_drv_split": _many([(u,) for u in urls])}
    v["urljoin"] = _many([("http://a/b/c/d;p?q", r) for r in ("g", "./g", "../g", "/g", "//g", "?y", "#s", "g?y#s", "../../../g", "", "http:g")])
    v["quote"] = _many([("a b/c",), ("é",), ("a b/c", ""), (b"\xff",), ("~._-",), ("a+b", "+")])
    v["unquote"] = _many([("a%20b",), ("%E9", "latin-1"), ("%zz",), ("%",), ("a+b",)])
    v["parse_qs"] = _many([("a=1&a=2&b=",), ("a=1&a=2&b=", True), ("x", False, True), ("",), ("a=%41;b=2",)])
    v["urlencode"] = _many([({"a": 1, "b": "x y"},), ([("a", [1, 2])], True), ({},), ({"k": None},), ("not a mapping",)])
    return v


@subject("graphlib", "graphlib", extra='''
def _drv_order(graph):
    return list(TopologicalSorter(graph).static_order())


def _drv_steps(graph):
    ts = TopologicalSorter(graph)
    ts.prepare()
    out = []
    while ts.is_active():
        ready = sorted(ts.get_ready())
        out.append(ready)
        ts.done(*ready)
    return out
''')
def _v_graphlib(mod):
    gs = [{"d": {"b", "c"}, "c": {"a"}, "b": {"a"}}, {}, {"a": {"a"}}, {"a": {"b"}, "b": {"a"}}, {1: {2}, 3: {2}, 2: set()}, {"x": set()}]
    return {"_drv_order": _many([(g,) for g in gs]), "_drv_steps": _many([(g,) for g in gs])}


@subject("copy", "copy", extra='''
class _Node:
    def __init__(self, v, nxt=None):
        self.v = v
        self.nxt = nxt


class _Custom:
    def __init__(self, v):
        self.v = v

    def __deepcopy__(self, memo):
        return _Custom(("copied", deepcopy(self.v, memo)))


def _drv_deep(kind):
    if kind == "cycle":
        a = [1]
        a.append(a)
        b = deepcopy(a)
        return [b[0], b[1] is b, b is not a]
    if kind == "shared":
        s = [1, 2]
        x = {"p": s, "q": s, "t": (s, s)}
        y = deepcopy(x)
        return [y, y["p"] is y["q"], y["p"] is not s, y["t"][0] is y["p"]]
    if kind == "object":
        n = _Node(1, _Node(2))
        n.nxt.nxt = n
        m = deepcopy(n)
        return [m.v, m.nxt.v, m.nxt.nxt is m, copy(n).nxt is n.nxt]
    if kind == "custom":
        return deepcopy([_Custom([1])])[0].v
    if kind == "atoms":
        vals = [1, 1.5, "s", b"b", None, True, (1, 2), frozenset({1}), range(3), int, len, 3j]
        return [deepcopy(v) is v for v in vals] + [copy(v) is v for v in vals]
    return deepcopy(kind)
''')
def _v_copy(mod):
    return {"_drv_deep": _many([("cycle",), ("shared",), ("object",), ("custom",), ("atoms",), ([{1: [2, (3, [4])]}, {5}],), ((1, [2]),),
                                (bytearray(b"x"),)])}


@subject("pprint", "pprint")
def _v_pprint(mod):
    objs = [{"b": [1, 2, {"c": (3, 4)}], "a": "x" * 30, "z": {1, 2}}, list(range(30)), [], "s", {"k": {"k": {"k": {"k": 1}}}}, (1,), [[1, [2, [3, [4]]]]],
            {2: 1, "a": 2}, b"x" * 40, frozenset({3, 1}), 1.5, None, [1.0, 2 ** 70]]
    v = {"pformat": _many([(o,) for o in objs] + [(objs[0], 2, 30), (objs[4], 1, 80, 2), (objs[1], 1, 20, None)] + [(objs[0], 1, 80, None, True),
                                                                                                                   (objs[7], 1, 80, None, False, False)])}
    v["saferepr"] = _many([(o,) for o in objs[:6]])
    v["isreadable"] = _many([(o,) for o in objs[:4]] + [(object(),)])
    return v


@subject("fractions", "fractions", extra='''
def _drv_arith(a, b):
    x, y = Fraction(*a), Fraction(*b)
    out = [str(x + y), str(x - y), str(x * y), x < y, x == y, hash(x) == hash(y), str(abs(x)), str(-x), float(x), int(x), round(x), str(round(x, 1)),
           x.limit_denominator(3).numerator, x.as_integer_ratio(), bool(x)]
    if y:
        out += [str(x / y), str(x // y), str(x % y), str(divmod(x, y)[1])]
    out += [str(x ** 2), str(Fraction(2) ** x) if x.denominator == 1 else repr(float(Fraction(2) ** x))[:8]]
    return out


def _drv_parse(text):
    return str(Fraction(text))
''')
def _v_fractions(mod):
    v = {"_drv_arith": _many([((1, 2), (1, 3)), ((-3, 4), (0, 1)), ((7, 1), (2, 1)), ((10 ** 30, 3), (1, 10 ** 30)), ((0, 5), (5, 7)), ((1, 0), (1, 1)),
                              ((3, -6), (1, 2))])}
    v["_drv_parse"] = _many([(t,) for t in ("3/4", " -1/2 ", "1.5", "1e-3", "abc", "1/0", "+7", "0.1e1/3", "١/٢", "1_000/3")] + [(0.1,), (1.5,), (float("nan"),)])
    return v


@subject("calendar", "calendar")
def _v_calendar(mod):
    v = {"isleap": _many([(y,) for y in (1900, 2000, 2023, 2024, 0, -4)]), "leapdays": _many([(2000, 2024), (2024, 2000), (1, 1)]),
         "weekday": _many([(2024, 2, 29), (1970, 1, 1), (2023, 13, 1), (1, 1, 1)]), "monthrange": _many([(2024, 2), (2023, 2), (2023, 0), (2023, 12)]),
         "month": _many([(2024, 2), (2023, 12, 3, 2), (1, 1)]), "timegm": _many([((1970, 1, 1, 0, 0, 0),), ((2024, 2, 29, 12, 30, 15),), ((1969, 12, 31, 23, 59, 59),)])}
    return v
