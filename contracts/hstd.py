"""H-std: copies of pure-Python standard-library modules as additional subjects of the C01 / C02 / C03 harness.

Each module's source is read from the running interpreter's library, the import of its C accelerator (if any) is removed so
that the Python definitions stay in force, a few wrapper functions are appended (to call methods and to exhaust generators
inside the call), and the copy is loaded twice under new names: plainly and through the real import hook.  The calls are
fixed and deterministic."""
from __future__ import annotations

import importlib
import inspect
import re

_ACCEL = re.compile(r"^(try:\n)    from _\w+ import .*\n", re.M)


def _source(modname, extra=""):
    mod = importlib.import_module(modname)
    src = inspect.getsource(mod)
    # `try: from _accelerator import ...  except ImportError: <fallback>`: the import is made to fail, so the fallback runs
    src = _ACCEL.sub(r"\1    raise ImportError('C accelerator disabled by the harness')\n", src)
    pkg = modname.rpartition(".")[0]
    if pkg:
        # the copy is a top-level module: relative imports become absolute ones
        src = re.sub(r"^(\s*)from \.(\w*) import ", lambda m_: f"{m_.group(1)}from {pkg}{'.' + m_.group(2) if m_.group(2) else ''} import ", src, flags=re.M)
    return src + "\n\n# ---- wrappers appended by the harness ----\n" + extra


def _many(items):
    return [lambda it=it: it for it in items]


SUBJECTS = {}
SCOPE_TEXT = ("copies of 24 pure-Python standard-library modules (bisect, heapq, textwrap, colorsys, fnmatch, shlex, posixpath, difflib, "
              "string, statistics, ipaddress, urllib.parse, graphlib, copy, pprint, fractions, calendar, json.decoder, json.encoder, "
              "tokenize, configparser, argparse, _pydatetime, re._parser; C accelerators disabled, relative imports made absolute, a "
              "few wrappers appended) with ~850 fixed calls")


def _corpus_worker(job):
    """One module of the corpus in a process of its own: returns the counters and violations of a private Part."""
    name, pid, judge_mod, judge_fn, metric_keys, tier, seed = job
    import importlib as _il
    from pyvc.bounded import Part
    from . import c03
    p = Part(pid, f"stdlib-corpus:{name}", [], scope="", bound="")
    modname, extra, vec = SUBJECTS[name]
    try:
        judge = getattr(_il.import_module(f"contracts.{judge_mod}"), judge_fn)
        c03.run_hprog(p, tier, seed, judge, metric_keys, source=_source(modname, extra), vectors=vec, tag=f"hstd_{name}")
    except Exception as e:  # noqa: BLE001
        # (a module that cannot be imported through the instrumenting import hook at all is a violation of C01, reported there)
        return name, p.inputs_run, p.nontrivial, list(p.violations.values()), [f"{name}: {type(e).__name__}: {e}"[:400]]
    return name, p.inputs_run, p.nontrivial, list(p.violations.values()), p.errors


def run_corpus(part, tier, seed, pid, judge_mod, judge_fn, metric_keys, import_failure_is_violation=False):
    import multiprocessing as mp
    jobs = [(n, pid, judge_mod, judge_fn, metric_keys, tier, seed) for n in SUBJECTS]
    with mp.get_context("fork").Pool(8) as pool:
        results = pool.map(_corpus_worker, jobs)
    for name, n, nt, vios, errors in results:
        part.inputs_run += n
        part.nontrivial += nt
        for v in vios:
            part.violation(v["descr"], f"{v['class']}@{name}", {"module": name, **(v["detail"] if isinstance(v["detail"], dict) else {"detail": v["detail"]})},
                           target=v.get("target"))
        for e in errors:
            if import_failure_is_violation:
                part.case()
                part.violation("the instrumented function returns / raises / prints / mutates exactly like the original",
                               f"module-not-instrumentable@{name}", {"module": name, "error": e},
                               target="pynguin.instrumentation.transformer:InstrumentationTransformer.instrument_code")
            # (C02 / C03: a module that cannot be loaded in either form yields no comparison; C01's part reports it)


def subject(name, modname, extra=""):
    def deco(fn):
        SUBJECTS[name] = (modname, extra, fn)
        return fn
    return deco


@subject("bisect", "bisect")
def _v_bisect(mod):
    xs = [1, 2, 2, 3, 5, 8]
    v = {}
    for f in ("bisect_left", "bisect_right"):
        v[f] = _many([(xs, t) for t in (0, 2, 4, 9)] + [(xs, 2, 1, 4), (xs, 2, 3), ([], 1), (xs, 2, -1), (xs, "a")])
    for f in ("insort_left", "insort_right"):
        v[f] = [lambda t=t: ([1, 2, 2, 3], t) for t in (0, 2, 9)] + [lambda: ([3, 1], 2), lambda: ([(1, "a"), (2, "b")], (1, "z"))]
    return v


@subject("heapq", "heapq", extra='''
def _drv_sequence(items, k):
    h = []
    out = []
    for x in items:
        heappush(h, x)
    out.append(list(h))
    out.append(heappushpop(h, k))
    out.append(heapreplace(h, k) if h else None)
    while h:
        out.append(heappop(h))
    return out


def _drv_merge(a, b, reverse):
    return list(merge(a, b, reverse=reverse))
''')
def _v_heapq(mod):
    v = {}
    v["_drv_sequence"] = _many([([5, 1, 4, 1, 3], 2), ([], 1), ([2], 2), (["b", "a"], "c"), ([1, "a"], 0)])
    v["heapify"] = [lambda: ([5, 3, 8, 1, 9, 2],), lambda: ([],), lambda: ([1],)]
    v["nlargest"] = _many([(2, [4, 1, 7, 3]), (0, [1]), (5, [2, 1]), (1, [3, 9, 2]), (2, ["bb", "a", "ccc"], len)])
    v["nsmallest"] = _many([(2, [4, 1, 7, 3]), (1, []), (3, [3, 3, 1, 2]), (2, ["bb", "a", "ccc"], len)])
    v["_drv_merge"] = _many([([1, 4], [2, 3], False), ([], [], False), ([4, 1], [3, 2], True), ([1], ["a"], False)])
    return v


@subject("textwrap", "textwrap")
def _v_textwrap(mod):
    t = "The quick brown fox   jumps over the lazy dog.  It was a-very-long-hyphenated-word indeed!\n\tTabs and\nnewlines."
    v = {}
    v["wrap"] = _many([(t, 20), (t, 5), ("", 10), (t, 0), ("word", 2)])
    v["fill"] = _many([(t, 30), (t, 12)])
    v["shorten"] = _many([(t, 30), (t, 5), ("a b", 1), ("hello world", 8)])
    v["dedent"] = _many([("  a\n   b\n  c",), ("\ta\n  b",), ("",), ("  \n  x",)])
    v["indent"] = _many([("a\n\nb\n", "> "), ("a", "", ), ("a\n b", "--", lambda line: line.startswith(" "))])
    return v


@subject("colorsys", "colorsys")
def _v_colorsys(mod):
    grid = [(0.0, 0.0, 0.0), (1.0, 1.0, 1.0), (0.2, 0.4, 0.6), (0.9, 0.1, 0.5), (0.5, 0.5, 0.5), (1.0, 0.0, 0.0), (0.3, 0.3, 0.1)]
    return {f: _many(grid) for f in ("rgb_to_yiq", "yiq_to_rgb", "rgb_to_hls", "hls_to_rgb", "rgb_to_hsv", "hsv_to_rgb")}


@subject("fnmatch", "fnmatch")
def _v_fnmatch(mod):
    pats = ["*.py", "a?c", "[abc]*", "[!a-c]x", "**", "a[", "[]]", "[!]", "*.[ch]", "", "a*b*c", "[a-]", "\\*"]
    v = {"translate": _many([(p,) for p in pats])}
    v["fnmatchcase"] = _many([(n, p) for n in ("abc", "x.py", "]", "dx", "a-c") for p in pats[:9]])
    v["filter"] = _many([(["a.py", "b.c", "c.h", "d"], "*.[ch]"), ([], "*"), (["x"], "")])
    return v


@subject("shlex", "shlex")
def _v_shlex(mod):
    lines = ["a b c", "a 'b c' \"d e\"", "a\\ b", "x # comment", "'unclosed", "a;b|c", "", "é 'ü'", 'say "it\'s"', "a\\"]
    v = {"split": _many([(s,) for s in lines] + [(lines[3], True), (lines[1], False, False), (None,)])}
    v["quote"] = _many([("",), ("abc",), ("a b",), ("it's",), ("$x",)])
    v["join"] = _many([(["a", "b c", ""],), ([],)])
    return v


@subject("posixpath", "posixpath")
def _v_posixpath(mod):
    ps = ["/a/b/../c", "a//b/./c/", "", "/", "//x", "///x", "../..", "a/b/c.tar.gz", ".hidden", "/a/b/", "a", b"/x/../y", "~/x", "$HOME/y"]
    v = {f: _many([(p,) for p in ps]) for f in ("normpath", "split", "splitext", "basename", "dirname", "isabs", "splitdrive")}
    v["join"] = _many([("a", "b"), ("/a", "/b"), ("a/", ""), ("", ""), ("a", "b", "/c", "d"), (b"a", b"b"), ("a", b"b")])
    v["commonpath"] = _many([(["/a/b", "/a/c"],), (["a/b", "a/b/c"],), (["/a", "b"],), ([],), (["/a"],)])
    v["commonprefix"] = _many([(["/abc", "/abd"],), ([],), (["x"],)])
    v["relpath"] = _many([("/a/b/c", "/a"), ("/a", "/a/b/c"), ("/a", "/a"), ("", "/")])
    return v


@subject("difflib", "difflib", extra='''
def _drv_opcodes(a, b):
    s = SequenceMatcher(None, a, b)
    return [round(s.ratio(), 6), round(s.quick_ratio(), 6), s.get_opcodes(), s.find_longest_match(0, len(a), 0, len(b))]


def _drv_unified(a, b, n):
    return list(unified_diff(a, b, "x", "y", n=n, lineterm=""))


def _drv_ndiff(a, b):
    return list(ndiff(a, b))
''')
def _v_difflib(mod):
    v = {}
    v["_drv_opcodes"] = _many([("abcd", "bcde"), ("", ""), ("a", ""), ("abxcd", "abcd"), ([1, 2, 3], [3, 2, 1]), ("private Thread", "private volatile Thread")])
    a, b = ["one", "two", "three", "four"], ["zero", "one", "tree", "four", "five"]
    v["_drv_unified"] = _many([(a, b, 3), (a, a, 3), ([], b, 0), (a, b, 0)])
    v["_drv_ndiff"] = _many([(a, b), (["abc\n"], ["abd\n"]), ([], [])])
    v["get_close_matches"] = _many([("appel", ["ape", "apple", "peach", "puppy"]), ("x", []), ("a", ["a"], 0, 0.5), ("a", ["b"], 1, 2.0)])
    return v


@subject("string", "string", extra='''
def _drv_template(t, mapping, safe):
    tmpl = Template(t)
    return (tmpl.safe_substitute(mapping) if safe else tmpl.substitute(mapping)), tmpl.is_valid(), tmpl.get_identifiers()


def _drv_format(fmt, args, kwargs):
    return Formatter().format(fmt, *args, **kwargs)
''')
def _v_string(mod):
    v = {}
    v["_drv_template"] = _many([("$a and ${b}", {"a": 1, "b": 2}, False), ("$a $$ $c", {"a": 1}, True), ("$a", {}, False), ("$", {}, False),
                                ("${a", {"a": 1}, True), ("no vars", {}, False)])
    v["capwords"] = _many([("hello  world",), ("a-b c", "-"), ("",)])
    v["_drv_format"] = _many([("{} {}", (1, 2), {}), ("{0!r:>6} {x}", ("a",), {"x": 1.5}), ("{", (), {}), ("{a.real}", (), {"a": 3}), ("{0[1]}", ([7, 8],), {}),
                              ("{:{w}}", (5,), {"w": 4}), ("{} {0}", (1,), {})])
    return v


@subject("statistics", "statistics")
def _v_statistics(mod):
    data = [[1, 2, 3, 4], [2.5, 3.5], [1], [], [1, 1, 2, 3], [1, "a"], [3, 1, 2], [10 ** 20, 1, 2]]
    v = {f: _many([(d,) for d in data]) for f in ("mean", "fmean", "median", "median_low", "median_high", "mode", "multimode", "pstdev", "variance",
                                                 "geometric_mean", "harmonic_mean")}
    v["quantiles"] = _many([([1, 2, 3, 4, 5],), ([1, 2], ), ([1],), ([1, 2, 3, 4, 5, 6, 7], ), ([3, 1, 2], )])
    v["correlation"] = _many([([1, 2, 3], [2, 4, 7]), ([1, 2], [1]), ([1, 1], [2, 3])])
    v["linear_regression"] = _many([([1, 2, 3], [2, 4, 7]), ([1, 1], [2, 3])])
    return v


@subject("ipaddress", "ipaddress", extra='''
def _drv_net(text, strict):
    import itertools
    n = ip_network(text, strict=strict)
    return [str(n), n.num_addresses, [str(h) for h in itertools.islice(n.hosts(), 3)], n.is_private, str(n.supernet()) if n.prefixlen else None,
            [str(s) for s in itertools.islice(n.subnets(), 2)] if n.prefixlen < n.max_prefixlen else []]


def _drv_addr(text):
    a = ip_address(text)
    return [str(a), int(a), a.version, a.is_loopback, a.is_multicast, a.reverse_pointer, str(a + 1) if int(a) < 2 ** 31 else None]
''')
def _v_ipaddress(mod):
    v = {}
    v["_drv_addr"] = _many([(t,) for t in ("127.0.0.1", "10.0.0.255", "::1", "2001:db8::ff00:42:8329", "256.1.1.1", "1.2.3", "fe80::1%eth0", "", 3232235777,
                                            "::ffff:1.2.3.4", "01.2.3.4")])
    v["_drv_net"] = _many([("192.168.0.0/24", True), ("192.168.0.1/24", True), ("192.168.0.1/24", False), ("10.0.0.0/8", True), ("::/0", True),
                           ("2001:db8::/126", True), ("1.2.3.4/33", True), ("1.2.3.4/32", True), ("1.2.3.0/255.255.255.0", True)])
    v["summarize_address_range"] = [lambda: (mod.ip_address("10.0.0.1"), mod.ip_address("10.0.0.9"))]
    return v


@subject("urlparse", "urllib.parse", extra='''
def _drv_split(url):
    r = urlsplit(url)
    return [tuple(r), r.hostname, r.port if _safe_port(r) else "bad port", r.geturl()]


def _safe_port(r):
    try:
        r.port
        return True
    except ValueError:
        return False
''')
def _v_urlparse(mod):
    urls = ["http://user:pw@Example.com:8080/a/b;p?q=1&r=2#frag", "//host/path", "mailto:a@b.c", "/rel/path?x", "", "http://[::1]:80/", "http://h:99999/",
            "HTTP://a/b c", "x:y", "http://a/?q=%41+b", b"http://bytes/path"]
    v = {"_drv_split": _many([(u,) for u in urls])}
    v["urljoin"] = _many([("http://a/b/c/d;p?q", r) for r in ("g", "./g", "../g", "/g", "//g", "?y", "#s", "g?y#s", "../../../g", "", "http:g")])
    v["quote"] = _many([("a b/c",), ("é",), ("a b/c", ""), (b"\xff",), ("~._-",), ("a+b", "+")])
    v["unquote"] = _many([("a%20b",), ("%E9", "latin-1"), ("%zz",), ("%",), ("a+b",)])
    v["parse_qs"] = _many([("a=1&a=2&b=",), ("a=1&a=2&b=", True), ("x", False, True), ("",), ("a=%41;b=2",)])
    v["urlencode"] = _many([({"a": 1, "b": "x y"},), ([("a", [1, 2])], True), ({},), ({"k": None},), ("not a mapping",)])
    return v


@subject("graphlib", "graphlib", extra='''
def _drv_order(graph):
    return list(TopologicalSorter(graph).static_order())


def _drv_steps(graph):
    ts = TopologicalSorter(graph)
    ts.prepare()
    out = []
    while ts.is_active():
        ready = sorted(ts.get_ready())
        out.append(ready)
        ts.done(*ready)
    return out
''')
def _v_graphlib(mod):
    gs = [{"d": {"b", "c"}, "c": {"a"}, "b": {"a"}}, {}, {"a": {"a"}}, {"a": {"b"}, "b": {"a"}}, {1: {2}, 3: {2}, 2: set()}, {"x": set()}]
    return {"_drv_order": _many([(g,) for g in gs]), "_drv_steps": _many([(g,) for g in gs])}


@subject("copy", "copy", extra='''
class _Node:
    def __init__(self, v, nxt=None):
        self.v = v
        self.nxt = nxt


class _Custom:
    def __init__(self, v):
        self.v = v

    def __deepcopy__(self, memo):
        return _Custom(("copied", deepcopy(self.v, memo)))


def _drv_deep(kind):
    if kind == "cycle":
        a = [1]
        a.append(a)
        b = deepcopy(a)
        return [b[0], b[1] is b, b is not a]
    if kind == "shared":
        s = [1, 2]
        x = {"p": s, "q": s, "t": (s, s)}
        y = deepcopy(x)
        return [y, y["p"] is y["q"], y["p"] is not s, y["t"][0] is y["p"]]
    if kind == "object":
        n = _Node(1, _Node(2))
        n.nxt.nxt = n
        m = deepcopy(n)
        return [m.v, m.nxt.v, m.nxt.nxt is m, copy(n).nxt is n.nxt]
    if kind == "custom":
        return deepcopy([_Custom([1])])[0].v
    if kind == "atoms":
        vals = [1, 1.5, "s", b"b", None, True, (1, 2), frozenset({1}), range(3), int, len, 3j]
        return [deepcopy(v) is v for v in vals] + [copy(v) is v for v in vals]
    return deepcopy(kind)
''')
def _v_copy(mod):
    return {"_drv_deep": _many([("cycle",), ("shared",), ("object",), ("custom",), ("atoms",), ([{1: [2, (3, [4])]}, {5}],), ((1, [2]),),
                                (bytearray(b"x"),)])}


@subject("pprint", "pprint")
def _v_pprint(mod):
    objs = [{"b": [1, 2, {"c": (3, 4)}], "a": "x" * 30, "z": {1, 2}}, list(range(30)), [], "s", {"k": {"k": {"k": {"k": 1}}}}, (1,), [[1, [2, [3, [4]]]]],
            {2: 1, "a": 2}, b"x" * 40, frozenset({3, 1}), 1.5, None, [1.0, 2 ** 70]]
    v = {"pformat": _many([(o,) for o in objs] + [(objs[0], 2, 30), (objs[4], 1, 80, 2), (objs[1], 1, 20, None)] + [(objs[0], 1, 80, None, True),
                                                                                                                   (objs[7], 1, 80, None, False, False)])}
    v["saferepr"] = _many([(o,) for o in objs[:6]])
    v["isreadable"] = _many([(o,) for o in objs[:4]] + [(object(),)])
    return v


@subject("fractions", "fractions", extra='''
def _drv_arith(a, b):
    x, y = Fraction(*a), Fraction(*b)
    out = [str(x + y), str(x - y), str(x * y), x < y, x == y, hash(x) == hash(y), str(abs(x)), str(-x), float(x), int(x), round(x), str(round(x, 1)),
           x.limit_denominator(3).numerator, x.as_integer_ratio(), bool(x)]
    if y:
        out += [str(x / y), str(x // y), str(x % y), str(divmod(x, y)[1])]
    out += [str(x ** 2), str(Fraction(2) ** x) if x.denominator == 1 else repr(float(Fraction(2) ** x))[:8]]
    return out


def _drv_parse(text):
    return str(Fraction(text))
''')
def _v_fractions(mod):
    v = {"_drv_arith": _many([((1, 2), (1, 3)), ((-3, 4), (0, 1)), ((7, 1), (2, 1)), ((10 ** 30, 3), (1, 10 ** 30)), ((0, 5), (5, 7)), ((1, 0), (1, 1)),
                              ((3, -6), (1, 2))])}
    v["_drv_parse"] = _many([(t,) for t in ("3/4", " -1/2 ", "1.5", "1e-3", "abc", "1/0", "+7", "0.1e1/3", "١/٢", "1_000/3")] + [(0.1,), (1.5,), (float("nan"),)])
    return v


@subject("json_decoder", "json.decoder", extra='''
def _drv_loads(text):
    return JSONDecoder().decode(text)


def _drv_pyscan(text):
    # the pure-Python scanner and string parser (the C ones are what json normally uses)
    import json.scanner as _sc
    d = JSONDecoder()
    d.parse_string = py_scanstring
    d.parse_object = JSONObject
    d.parse_array = JSONArray
    d.scan_once = _sc.py_make_scanner(d)
    return d.decode(text)
''')
def _v_json_decoder(mod):
    texts = ['{"a": [1, 2.5, -3e2, true, false, null], "b": {"c": "x\\\\n\\u00e9"}}', "[]", "{}", '"str"', "1", "-0", "1e999", "[1,]", '{"a" 1}', "",
             "nul", '{"a": NaN, "b": -Infinity}', '"\\ud83d\\ude00"', '"bad \\x"', "[" * 5 + "]" * 5, ' [ 1 , 2 ] ', '{"k": [{"k": []}]}', "1 2"]
    return {"_drv_loads": _many([(t,) for t in texts]), "_drv_pyscan": _many([(t,) for t in texts])}


@subject("json_encoder", "json.encoder", extra='''
def _drv_dumps(obj, kw):
    enc = JSONEncoder(**kw)
    return "".join(_make_iterencode(
        {} if enc.check_circular else None, enc.default, py_encode_basestring_ascii if enc.ensure_ascii else py_encode_basestring,
        enc.indent if enc.indent is None or isinstance(enc.indent, str) else " " * enc.indent, float.__repr__,
        enc.key_separator, enc.item_separator, enc.sort_keys, enc.skipkeys, True)(obj, 0))
''')
def _v_json_encoder(mod):
    objs = [{"b": [1, 2.5, True, None], "a": "é\n\"q\""}, [], {}, "s", 1, [[1, [2, [3]]]], {1: 2, None: 3, True: 4, 2.5: 5}, {(1, 2): 3}, [object], (1, 2),
            {"k": {"k": {}}}, [float("1e308")], "\u2028\x00"]
    kws = [{}, {"indent": 2, "sort_keys": True}, {"ensure_ascii": False}, {"skipkeys": True}, {"separators": (",", ":")}, {"indent": "\t"}]
    v = {"_drv_dumps": _many([(o, kw) for o in objs for kw in kws[:3]] + [(objs[6], kws[3]), (objs[7], kws[3]), (objs[0], kws[4]), (objs[5], kws[5])])}
    cyc = []
    cyc.append(cyc)
    v["_drv_dumps"].append(lambda: ([[]], {"check_circular": False}))
    return v


@subject("tokenize", "tokenize", extra='''
def _drv_tokens(text):
    import io
    return [(tok_name[t.type], t.string, t.start, t.end) for t in generate_tokens(io.StringIO(text).readline)]


def _drv_untokenize(text):
    import io
    return untokenize(generate_tokens(io.StringIO(text).readline))
''')
def _v_tokenize(mod):
    srcs = ["x = 1\n", "def f(a, *b, **c):\n    return a if b else c\n", "s = 'it''s' \"q\" f'{x!r:>{w}}'\n", "if x:\n  y\n    z\n", "a = (1,\n  2)\n# c\n", "",
            "x = 0x1f + 1_000 + 1e-3j\n", "'''doc\nstring'''\n", "a \\\n  b\n", "\tx\n", "x = 'unterminated\n", "lambda: (yield)\n", "a@=b;c:=d\n", "é = 'ü'\n"]
    return {"_drv_tokens": _many([(s_,) for s_ in srcs]), "_drv_untokenize": _many([(s_,) for s_ in srcs[:8]])}


@subject("configparser", "configparser", extra='''
def _drv_read(text, kw):
    cp = ConfigParser(**kw)
    cp.read_string(text)
    out = {s: dict(cp.items(s, raw=True)) for s in cp.sections()}
    return out, cp.defaults()


def _drv_get(text, section, option, how):
    cp = ConfigParser()
    cp.read_string(text)
    return getattr(cp, how)(section, option)


def _drv_roundtrip(text):
    import io
    cp = ConfigParser()
    cp.read_string(text)
    buf = io.StringIO()
    cp.write(buf)
    return buf.getvalue()
''')
def _v_configparser(mod):
    texts = ["[a]\nx = 1\ny: two\n[b]\nz =\n", "[DEFAULT]\nd = 9\n[s]\nv = %(d)s0\n", "x = 1\n", "[a]\n[a]\n", "[a]\nk = v\n  cont\n", "[a]\nk\n", "", "[a]\nx = %(x)s\n",
             "# c\n; d\n[s]\nk = v ; inline\n", "[a]\nb = yes\nn = 0x10\nf = 1.5\n"]
    v = {"_drv_read": _many([(t, {}) for t in texts] + [(texts[5], {"allow_no_value": True}), (texts[3], {"strict": False}), (texts[8], {"inline_comment_prefixes": (";",)})])}
    v["_drv_get"] = _many([(texts[1], "s", "v", "get"), (texts[9], "a", "b", "getboolean"), (texts[9], "a", "n", "getint"), (texts[9], "a", "f", "getfloat"),
                           (texts[0], "a", "nope", "get"), (texts[0], "zz", "x", "get"), (texts[7], "a", "x", "get"), (texts[9], "a", "f", "getboolean")])
    v["_drv_roundtrip"] = _many([(t,) for t in texts[:2] + texts[4:5]])
    return v


@subject("argparse", "argparse", extra='''
def _drv_parse(argv):
    p = ArgumentParser(prog="t", exit_on_error=False, add_help=False)
    p.add_argument("pos", nargs="?", type=int, default=7)
    p.add_argument("-v", "--verbose", action="count", default=0)
    p.add_argument("--name", choices=["a", "b"], required=False)
    p.add_argument("--nums", nargs="+", type=float)
    p.add_argument("--flag", action="store_true")
    g = p.add_mutually_exclusive_group()
    g.add_argument("--x", action="store_const", const=1)
    g.add_argument("--y", action="store_const", const=2)
    sub = p.add_subparsers(dest="cmd")
    s1 = sub.add_parser("run", exit_on_error=False, add_help=False)
    s1.add_argument("--fast", action="store_false")
    try:
        ns = p.parse_args(argv)
    except SystemExit as e:        # (errors of nested parsers)
        return ("exit", e.code)
    return sorted(vars(ns).items())


def _drv_format():
    p = ArgumentParser(prog="t", description="d" * 90, epilog="e")
    p.add_argument("pos", help="a positional")
    p.add_argument("-o", "--opt", metavar="N", type=int, default=3, help="an option (default %(default)s)")
    return p.format_usage(), p.format_help()
''')
def _v_argparse(mod):
    argvs = [[], ["3"], ["-vv", "--name", "a"], ["--name", "c"], ["--nums", "1", "2.5"], ["--nums"], ["--x", "--y"], ["x"], ["--flag", "5", "run", "--fast"],
             ["--unknown"], ["--na", "b"], ["-v", "-v", "-v", "run"], ["1", "2"]]
    return {"_drv_parse": _many([(a,) for a in argvs]), "_drv_format": _many([()])}


@subject("pydatetime", "_pydatetime", extra='''
def _drv_date(y, m, d, days):
    a = date(y, m, d)
    b = a + timedelta(days=days)
    return [a.isoformat(), a.weekday(), a.isocalendar()[:3], a.toordinal(), b.isoformat(), (b - a).days, a < b, a.replace(day=1).isoformat(),
            a.strftime("%Y/%m/%d %a"), date.fromisoformat(a.isoformat()) == a, date.fromordinal(a.toordinal()) == a]


def _drv_delta(args1, args2):
    a, b = timedelta(*args1), timedelta(*args2)
    out = [str(a), str(a + b), str(a - b), str(-a), a.total_seconds(), str(a * 3), a < b, bool(a), str(abs(a - b))]
    if b:
        out += [a // b, str(a % b), a / b]
    return out


def _drv_dt(text, hours):
    t = datetime.fromisoformat(text)
    u = t + timedelta(hours=hours)
    tz = timezone(timedelta(hours=2), "X")
    return [t.isoformat(), u.isoformat(sep=" ", timespec="minutes"), t.timetuple()[:6], t.replace(tzinfo=tz).isoformat(), t.replace(tzinfo=tz).utcoffset().total_seconds(),
            str(u - t), t.date().isoformat(), t.time().isoformat(), t.strftime("%H:%M:%S.%f"), t.replace(tzinfo=timezone.utc).timestamp()]
''')
def _v_pydatetime(mod):
    v = {"_drv_date": _many([(2024, 2, 29, 1), (1999, 12, 31, 1), (1, 1, 1, 0), (2023, 2, 29, 0), (9999, 12, 31, 1), (2024, 13, 1, 0), (2000, 1, 1, -366), (2024, 3, 10, 10 ** 9)])}
    v["_drv_delta"] = _many([((1, 2, 3), (0, 30)), ((0,), (0,)), ((-1, 0, 1), (0, 0, 7)), ((10 ** 9,), (1,)), ((1.5,), (0, 0.25)), ((1,), (0, 0, 0, 1))])
    v["_drv_dt"] = _many([("2024-02-29T12:30:15.250000", 13), ("1970-01-01", -1), ("2023-12-31T23:59:59", 1), ("2024-02-30", 0), ("2024-01-01T25:00", 0),
                          ("2024-06-01T10:00:00+02:00", 5), ("20240601T1000", 1)])
    return v


@subject("sre_parser", "re._parser", extra='''
def _drv_parse(pattern, flags):
    p = parse(pattern, flags)
    return str(p.data)[:600], p.state.groups, sorted(p.state.groupdict.items()), p.getwidth()


def _drv_template(repl, pattern):
    import re
    return [x if isinstance(x, (int, str, type(None))) else str(x) for x in parse_template(repl, re.compile(pattern))]
''')
def _v_sre_parser(mod):
    pats = ["a|b", "(?P<n>x+)(?P=n)", "[a-z0-9_]+", "a{2,3}?", "(?i:abc)", "(?<=a)b(?!c)", "\\\\d+\\\\.\\\\d*", "(", "a**", "[z-a]", "(?P<n>a)(?P<n>b)", "\\\\1", "(a)|\\\\1",
            "(?(1)a|b)", "(x)(?(1)a|b)", ".*?$", "^\\\\b\\\\w{3}\\\\b", "[^\\\\]]", "(?x) a b # c", "\\\\N{DIGIT ONE}", "a{,}", "(?:a|ab)*c", "\\\\p"]
    v = {"_drv_parse": _many([(p, 0) for p in pats] + [("abc", 2), ("a.b", 16), ("é", 256)])}
    v["_drv_template"] = _many([("\\\\1-\\\\g<n>", "(a)(?P<n>b)"), ("x\\\\n", "a"), ("\\\\g<2>", "(a)"), ("\\\\g<", "(a)"), ("plain", "a"), ("\\\\0", "a")])
    return v


@subject("calendar", "calendar")
def _v_calendar(mod):
    v = {"isleap": _many([(y,) for y in (1900, 2000, 2023, 2024, 0, -4)]), "leapdays": _many([(2000, 2024), (2024, 2000), (1, 1)]),
         "weekday": _many([(2024, 2, 29), (1970, 1, 1), (2023, 13, 1), (1, 1, 1)]), "monthrange": _many([(2024, 2), (2023, 2), (2023, 0), (2023, 12)]),
         "month": _many([(2024, 2), (2023, 12, 3, 2), (1, 1)]), "timegm": _many([((1970, 1, 1, 0, 0, 0),), ((2024, 2, 29, 12, 30, 15),), ((1969, 12, 31, 23, 59, 59),)])}
    return v
