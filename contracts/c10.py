"""C10 — fitness values, coverage values and covered verdicts agree."""
from pyvc.contracts import contract, for_property, lemma, loop, predicate
from . import common  # noqa: F401

for_property("C10")
FM = "pynguin.ga.fitness_metrics"

predicate("norm(x)", "ite(isinf(x), 1.0, x / (1.0 + x))")
predicate("pf(p, d, cnt)",
          "ite(p in d and d[p] == 0, 0.0, ite(p in cnt and cnt[p] >= 2, norm(d[p]), 1.0))")
predicate("is_blco(sp, c)",
          "c in keys(sp.existing_code_objects) and "
          "all(sp.existing_predicates[k].code_object_id != c for k in keys(sp.existing_predicates))")
predicate("excl(s, x)", "s is not None and x in s")
predicate("side_covered(d, ex, p)", "excl(ex, p) or (p in d and d[p] == 0)")
predicate("all_covered(t, sp, ec, et, ef)",
          "all(implies(is_blco(sp, c) and not excl(ec, c), c in t.executed_code_objects) "
          "    for c in keys(sp.existing_code_objects)) and "
          "all(side_covered(t.true_distances, et, p) and side_covered(t.false_distances, ef, p) "
          "    for p in keys(sp.existing_predicates))")

contract(f"{FM}:normalise",
         requires=["not isnan(value)"],
         ensures=["0 <= result and result <= 1", "not isnan(result)",
                  "(result == 0) == (value == 0)",
                  "implies(isinf(value), result == 1)",
                  "implies(isfinite(value), result < 1)",
                  "result == norm(value)"],
         raises={"RuntimeError": "value < 0"})

contract(f"{FM}:_predicate_fitness",
         requires=["wf_dist(branch_distances)",
                   "implies(predicate in trace.executed_predicates, predicate in branch_distances)"],
         ensures=["result >= 0 and result <= 1 and isfinite(result)",
                  "(result == 0) == (predicate in branch_distances and branch_distances[predicate] == 0)",
                  "result == pf(predicate, branch_distances, trace.executed_predicates)"])

contract(f"{FM}:compute_branch_distance_fitness",
         requires=["wf_trace(trace)"],
         ensures=["result >= 0 and isfinite(result)",
                  "(result == 0) == all_covered(trace, subject_properties, exclude_code, exclude_true, exclude_false)"])
loop(f"{FM}:compute_branch_distance_fitness", 0, invariant=[
    "predicate_fitness >= 0 and isfinite(predicate_fitness)",
    "(predicate_fitness == 0) == all(side_covered(trace.true_distances, exclude_true, p) and "
    "side_covered(trace.false_distances, exclude_false, p) for p in _done)",
])

contract(f"{FM}:compute_branch_distance_fitness_is_covered",
         requires=["wf_trace(trace)"],
         ensures=["result == all_covered(trace, subject_properties, exclude_code, exclude_true, exclude_false)"])
loop(f"{FM}:compute_branch_distance_fitness_is_covered", 0, invariant=[
    "all(side_covered(trace.true_distances, exclude_true, p) and "
    "side_covered(trace.false_distances, exclude_false, p) for p in _done)",
])

# -- coverage values: in [0, 1]; 1 exactly when everything is covered (cardinalities of finite sets, A-CARD) ------
contract(f"{FM}:compute_line_coverage",
         requires=["trace_in_registry(trace, subject_properties)"],
         ensures=["0 <= result and result <= 1",
                  "(result == 1) == (trace.covered_line_ids == keys(subject_properties.existing_lines))"])
contract(f"{FM}:compute_line_coverage_fitness_is_covered",
         requires=["trace_in_registry(trace, subject_properties)"],
         ensures=["result == (trace.covered_line_ids == keys(subject_properties.existing_lines))"])
contract(f"{FM}:compute_checked_coverage_statement_fitness_is_covered",
         requires=["trace_in_registry(trace, subject_properties)"],
         ensures=["result == (trace.checked_lines == keys(subject_properties.existing_lines))"])
contract(f"{FM}:compute_branch_coverage",
         requires=["wf_trace(trace)", "trace_in_registry(trace, subject_properties)"],
         ensures=["0 <= result and result <= 1",
                  "(result == 1) == all_covered(trace, subject_properties, None, None, None)"])

# -- the fitness / coverage function objects the search talks to: fitness, covered verdict and coverage of one chromosome are the
#    metric functions above applied to one and the same merged trace of its execution results (nothing added, nothing dropped).
#    Executing the chromosome and merging the results (C11, C12) enter as assumed functions RESULTS and MERGED.
from pyvc.contracts import klass, ufun, value_type  # noqa: E402
GC_ = "pynguin.ga.computations"
value_type("Chromosome")
klass("pynguin.testcase.execution:TestCaseExecutor", fields={"subject_properties": "SubjectProperties"})
ufun("RESULTS", ["Chromosome"], "list[ExecutionResult]")
ufun("RESULT1", ["Chromosome"], "ExecutionResult")
ufun("MERGED", ["list[ExecutionResult]"], "ExecutionTrace")
MT = "MERGED(RESULTS(individual))"
MT1 = "MERGED([RESULT1(individual)])"
_SUITE_CLASSES = ("BranchDistanceTestSuiteFitnessFunction", "LineTestSuiteFitnessFunction", "TestSuiteBranchCoverageFunction",
                  "TestSuiteLineCoverageFunction")
_CASE_CLASSES = ("BranchDistanceTestCaseFitnessFunction", "TestCaseBranchCoverageFunction", "TestCaseLineCoverageFunction")
klass(f"{GC_}:TestSuiteChromosomeComputation", fields={"_executor": "TestCaseExecutor"}, bases=[])
klass(f"{GC_}:TestCaseChromosomeComputation", fields={"_executor": "TestCaseExecutor"}, bases=[])
for c_ in _SUITE_CLASSES + _CASE_CLASSES:
    klass(f"{GC_}:{c_}", fields={"_excluded_code_objects": "set[int]", "_excluded_true_predicates": "set[int]",
                                 "_excluded_false_predicates": "set[int]"},
          bases=["TestSuiteChromosomeComputation" if c_ in _SUITE_CLASSES else "TestCaseChromosomeComputation"])
# (lists are compared element-wise; that the merged trace of equal lists is the same trace is stated explicitly)
contract(f"{GC_}:TestSuiteChromosomeComputation._run_test_suite_chromosome", mode="assume",
         sig={"self": "TestSuiteChromosomeComputation", "individual": "Chromosome"}, returns="list[ExecutionResult]",
         ensures=["result == RESULTS(individual)", "MERGED(result) is MERGED(RESULTS(individual))"])
contract(f"{GC_}:TestCaseChromosomeComputation._run_test_case_chromosome", mode="assume",
         sig={"self": "TestCaseChromosomeComputation", "individual": "Chromosome"}, returns="ExecutionResult",
         ensures=["result is RESULT1(individual)", "MERGED([result]) is MERGED([RESULT1(individual)])"])
contract(f"{FM}:analyze_results", mode="assume", sig={"results": "list[ExecutionResult]"}, returns="ExecutionTrace",
         ensures=["result is MERGED(results)", "wf_trace(result)"])
SP_ = "self._executor.subject_properties"
EXC = "self._excluded_code_objects, self._excluded_true_predicates, self._excluded_false_predicates"
SIGI = {"individual": "Chromosome"}
contract(f"{GC_}:BranchDistanceTestSuiteFitnessFunction.compute_fitness", sig=SIGI, returns="float",
         ensures=["result >= 0 and isfinite(result)", f"(result == 0) == all_covered({MT}, {SP_}, {EXC})"])
contract(f"{GC_}:BranchDistanceTestSuiteFitnessFunction.compute_is_covered", sig=SIGI, returns="bool",
         ensures=[f"result == all_covered({MT}, {SP_}, {EXC})"])
contract(f"{GC_}:BranchDistanceTestCaseFitnessFunction.compute_fitness", sig=SIGI, returns="float",
         ensures=["result >= 0 and isfinite(result)", f"(result == 0) == all_covered({MT1}, {SP_}, None, None, None)"])
contract(f"{GC_}:BranchDistanceTestCaseFitnessFunction.compute_is_covered", sig=SIGI, returns="bool",
         ensures=[f"result == all_covered({MT1}, {SP_}, None, None, None)"])
contract(f"{GC_}:TestSuiteBranchCoverageFunction.compute_coverage", sig=SIGI, returns="float",
         requires=[f"trace_in_registry({MT}, {SP_})"],
         ensures=["0 <= result and result <= 1", f"(result == 1) == all_covered({MT}, {SP_}, None, None, None)"])
contract(f"{GC_}:TestCaseBranchCoverageFunction.compute_coverage", sig=SIGI, returns="float",
         requires=[f"trace_in_registry({MT1}, {SP_})"],
         ensures=["0 <= result and result <= 1", f"(result == 1) == all_covered({MT1}, {SP_}, None, None, None)"])
contract(f"{GC_}:TestSuiteLineCoverageFunction.compute_coverage", sig=SIGI, returns="float",
         requires=[f"trace_in_registry({MT}, {SP_})"],
         ensures=["0 <= result and result <= 1", f"(result == 1) == ({MT}.covered_line_ids == keys({SP_}.existing_lines))"])
contract(f"{GC_}:LineTestSuiteFitnessFunction.compute_is_covered", sig=SIGI, returns="bool",
         requires=[f"trace_in_registry({MT}, {SP_})"],
         ensures=[f"result == ({MT}.covered_line_ids == keys({SP_}.existing_lines))"])

from . import c10_goals  # noqa: E402,F401  (goal-level contracts)

# ==== bounded stand-in / witness: the same clauses on the real function objects, a real executor and real executions ===========
import itertools  # noqa: E402

from pyvc.bounded import Part, guarded  # noqa: E402

_C10_MODULE = "c10_subject"
_C10_SOURCE = '''
def check(x):
    if x > 0:
        return "positive"
    return "non-positive"


def spin(n):
    while n != 0:
        n -= 1
    return n


def boom(flag):
    if flag:
        raise ValueError(flag)
    return 0
'''
# test cases: full statement lists; spin(-1) never terminates, boom(True) raises
_C10_TESTS = {
    "pos": [("int_0", "5"), ("var_0", "{m}.check(int_0)")],
    "neg": [("int_0", "-5"), ("var_0", "{m}.check(int_0)")],
    "spin3": [("int_0", "3"), ("var_0", "{m}.spin(int_0)")],
    "spin0": [("int_0", "0"), ("var_0", "{m}.spin(int_0)")],
    "forever": [("int_0", "-1"), ("var_0", "{m}.spin(int_0)")],
    "raise": [("bool_0", "True"), ("var_0", "{m}.boom(bool_0)")],
    "calm": [("bool_0", "False"), ("var_0", "{m}.boom(bool_0)")],
}


def _c10_problems(suite, ff, cf, lf, lcf):
    """The clauses of C10 on one suite chromosome; returns [(clause, class, detail)]."""
    import math
    out = []
    fit, cov_flag, cov = ff.compute_fitness(suite), ff.compute_is_covered(suite), cf.compute_coverage(suite)
    lfit, lflag, lcov = lf.compute_fitness(suite), lf.compute_is_covered(suite), lcf.compute_coverage(suite)
    d = {"branch_fitness": fit, "branch_is_covered": cov_flag, "branch_coverage": cov, "line_fitness": lfit, "line_is_covered": lflag,
         "line_coverage": lcov}
    if not (math.isfinite(fit) and fit >= 0 and math.isfinite(lfit) and lfit >= 0):
        out.append(("fitness is finite and non-negative", "fitness-range", d))
    if not (0 <= cov <= 1 and 0 <= lcov <= 1):
        out.append(("coverage lies in [0, 1]", "coverage-range", d))
    if cov_flag != (fit == 0) or lflag != (lfit == 0):
        out.append(("a suite is reported covered exactly when its fitness is zero", "covered-vs-fitness", d))
    if (fit == 0) != (cov == 1):
        out.append(("a suite's branch fitness is zero exactly when its branch coverage is 1", "fitness-vs-coverage", d))
    if lflag != (lcov == 1):
        out.append(("a suite is reported line-covered exactly when its line coverage is 1", "line-covered-vs-coverage", d))
    return out


def _check_c10_objects(part: Part, tier, seed):
    import importlib, logging, shutil, sys, tempfile  # noqa: E401
    from pathlib import Path
    import libcst as cst
    import pynguin.configuration as config
    import pynguin.ga.computations as ff
    import pynguin.ga.testcasechromosome as tcc
    import pynguin.ga.testsuitechromosome as tsc
    import pynguin.testcase.testcase as tc
    from pynguin.instrumentation.machinery import install_import_hook
    from pynguin.instrumentation.tracer import SubjectProperties
    from pynguin.testcase.execution import TestCaseExecutor
    from pynguin.utils.naming import get_module_alias
    logging.disable(logging.CRITICAL)
    workdir = Path(tempfile.mkdtemp(prefix="c10_"))
    (workdir / f"{_C10_MODULE}.py").write_text(_C10_SOURCE)
    sys.path.insert(0, str(workdir))
    saved = config.configuration.module_name
    config.configuration.module_name = _C10_MODULE
    sp = SubjectProperties()
    hook = install_import_hook(_C10_MODULE, sp, coverage_metrics={config.CoverageMetric.BRANCH, config.CoverageMetric.LINE})
    hook.__enter__()
    try:
        with sp.instrumentation_tracer:
            sys.modules.pop(_C10_MODULE, None)
            importlib.import_module(_C10_MODULE)
        sp.instrumentation_tracer.store_import_trace()
        executor = TestCaseExecutor(sp, maximum_test_execution_timeout=0.4, test_execution_time_per_statement=0.4)
        m = get_module_alias(_C10_MODULE)

        def chromosome(name):
            t = tc.TestCase()
            for var, rhs in _C10_TESTS[name]:
                t.add_statement(tc.Statement(node=cst.parse_module(f"{var} = {rhs.format(m=m)}\n").body[0], bound_variable=var, bound_type=None))
            return tcc.TestCaseChromosome(test_case=t)
        # one shared chromosome per test case: each is executed once, its result is cached on the chromosome
        pool = {n: chromosome(n) for n in _C10_TESTS}
        functions = (ff.BranchDistanceTestSuiteFitnessFunction(executor), ff.TestSuiteBranchCoverageFunction(executor),
                     ff.LineTestSuiteFitnessFunction(executor), ff.TestSuiteLineCoverageFunction(executor))
        names = sorted(_C10_TESTS)
        sizes = (0, 1, 2, 3, len(names)) if tier != "thorough" else range(len(names) + 1)
        for r in sizes:
            for combo in itertools.combinations(names, r):
                part.case()
                suite = tsc.TestSuiteChromosome()
                for n in combo:
                    suite.add_test_case_chromosome(pool[n])
                for clause, cls, detail in _c10_problems(suite, *functions):
                    part.violation(clause, cls + (":with-timeout" if "forever" in combo else ""), {"suite": list(combo), **detail},
                                   target=f"{GC_}:BranchDistanceTestSuiteFitnessFunction.compute_fitness")
    finally:
        hook.__exit__(None, None, None)
        sys.modules.pop(_C10_MODULE, None)
        sys.path.remove(str(workdir))
        shutil.rmtree(workdir, ignore_errors=True)
        config.configuration.module_name = saved
        logging.disable(logging.NOTSET)


def bounded_objects(tier, seed):
    p = Part("C10", "fitness-objects-on-real-executions",
             [f"{GC_}:BranchDistanceTestSuiteFitnessFunction.compute_fitness", f"{GC_}:BranchDistanceTestSuiteFitnessFunction.compute_is_covered",
              f"{GC_}:TestSuiteBranchCoverageFunction.compute_coverage", f"{GC_}:LineTestSuiteFitnessFunction.compute_fitness",
              f"{GC_}:TestSuiteLineCoverageFunction.compute_coverage"],
             scope="the real suite-level fitness and coverage function objects on a real instrumented executor (time-out 0.4 s): every "
                   "suite of 0-3 and of all 7 (thorough: every subset) test cases over a 3-function module - covering either "
                   "branch, a loop entered and skipped, a test case that never terminates (timed out), one that raises",
             bound="7 test cases, subsets of size <= 3 and the full suite (thorough: all 128 subsets)")
    return guarded(p, _check_c10_objects, tier, seed)


BOUNDED = [bounded_objects]


def _witness_objects():
    p = Part("C10", "witness", [], scope="", bound="")
    _check_c10_objects(p, "quick", 0)
    v = p.result().get("violations", [])
    return {"fails": bool(v), "scenario": "real suite-level fitness / coverage objects on real executions (see bounded part)",
            "problems": [str(x)[:400] for x in v[:3]]}


WITNESS = {"BranchDistanceTestSuiteFitnessFunction.compute_fitness/post": _witness_objects,
           "BranchDistanceTestSuiteFitnessFunction.compute_is_covered/post": _witness_objects,
           "TestSuiteBranchCoverageFunction.compute_coverage/post": _witness_objects}
