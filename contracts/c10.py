"""C10 — fitness values, coverage values and covered verdicts agree."""
from pyvc.contracts import contract, for_property, lemma, loop, predicate
from . import common  # noqa: F401

for_property("C10")
FM = "pynguin.ga.fitness_metrics"

predicate("norm(x)", "ite(isinf(x), 1.0, x / (1.0 + x))")
predicate("pf(p, d, cnt)",
          "ite(p in d and d[p] == 0, 0.0, ite(p in cnt and cnt[p] >= 2, norm(d[p]), 1.0))")
predicate("is_blco(sp, c)",
          "c in keys(sp.existing_code_objects) and "
          "all(sp.existing_predicates[k].code_object_id != c for k in keys(sp.existing_predicates))")
predicate("excl(s, x)", "s is not None and x in s")
predicate("side_covered(d, ex, p)", "excl(ex, p) or (p in d and d[p] == 0)")
predicate("all_covered(t, sp, ec, et, ef)",
          "all(implies(is_blco(sp, c) and not excl(ec, c), c in t.executed_code_objects) "
          "    for c in keys(sp.existing_code_objects)) and "
          "all(side_covered(t.true_distances, et, p) and side_covered(t.false_distances, ef, p) "
          "    for p in keys(sp.existing_predicates))")

contract(f"{FM}:normalise",
         requires=["not isnan(value)"],
         ensures=["0 <= result and result <= 1", "not isnan(result)",
                  "(result == 0) == (value == 0)",
                  "implies(isinf(value), result == 1)",
                  "implies(isfinite(value), result < 1)",
                  "result == norm(value)"],
         raises={"RuntimeError": "value < 0"})

contract(f"{FM}:_predicate_fitness",
         requires=["wf_dist(branch_distances)",
                   "implies(predicate in trace.executed_predicates, predicate in branch_distances)"],
         ensures=["result >= 0 and result <= 1 and isfinite(result)",
                  "(result == 0) == (predicate in branch_distances and branch_distances[predicate] == 0)",
                  "result == pf(predicate, branch_distances, trace.executed_predicates)"])

contract(f"{FM}:compute_branch_distance_fitness",
         requires=["wf_trace(trace)"],
         ensures=["result >= 0 and isfinite(result)",
                  "(result == 0) == all_covered(trace, subject_properties, exclude_code, exclude_true, exclude_false)"])
loop(f"{FM}:compute_branch_distance_fitness", 0, invariant=[
    "predicate_fitness >= 0 and isfinite(predicate_fitness)",
    "(predicate_fitness == 0) == all(side_covered(trace.true_distances, exclude_true, p) and "
    "side_covered(trace.false_distances, exclude_false, p) for p in _done)",
])

contract(f"{FM}:compute_branch_distance_fitness_is_covered",
         requires=["wf_trace(trace)"],
         ensures=["result == all_covered(trace, subject_properties, exclude_code, exclude_true, exclude_false)"])
loop(f"{FM}:compute_branch_distance_fitness_is_covered", 0, invariant=[
    "all(side_covered(trace.true_distances, exclude_true, p) and "
    "side_covered(trace.false_distances, exclude_false, p) for p in _done)",
])

# -- coverage values: in [0, 1]; 1 exactly when everything is covered (cardinalities of finite sets, A-CARD) ------
contract(f"{FM}:compute_line_coverage",
         requires=["trace_in_registry(trace, subject_properties)"],
         ensures=["0 <= result and result <= 1",
                  "(result == 1) == (trace.covered_line_ids == keys(subject_properties.existing_lines))"])
contract(f"{FM}:compute_line_coverage_fitness_is_covered",
         requires=["trace_in_registry(trace, subject_properties)"],
         ensures=["result == (trace.covered_line_ids == keys(subject_properties.existing_lines))"])
contract(f"{FM}:compute_checked_coverage_statement_fitness_is_covered",
         requires=["trace_in_registry(trace, subject_properties)"],
         ensures=["result == (trace.checked_lines == keys(subject_properties.existing_lines))"])
contract(f"{FM}:compute_branch_coverage",
         requires=["wf_trace(trace)", "trace_in_registry(trace, subject_properties)"],
         ensures=["0 <= result and result <= 1",
                  "(result == 1) == all_covered(trace, subject_properties, None, None, None)"])

from . import c10_goals  # noqa: E402,F401  (goal-level contracts)
