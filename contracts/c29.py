"""C29 — filesystem isolation never modifies or deletes pre-existing paths."""
from pyvc.contracts import assumption, contract, for_property, klass, loop, predicate, ufun

for_property("C29")
FS = "pynguin.utils.fs_isolation"

# ==== proved: the bookkeeping helpers (ghost: NORM = _abspath's normalisation, an uninterpreted idempotent function) =========
klass(f"{FS}:FilesystemIsolation", fields={"_enabled": "bool", "_created": "set[str]"})
ufun("NORM", ["str"], "str")
contract(f"{FS}:FilesystemIsolation._abspath", mode="assume", sig={"path": "str"}, returns="str",
         ensures=["result == NORM(path)"])
assumption("FilesystemIsolation._abspath(p) is a pure function NORM(str(p)) of the path text (os.path.abspath/normpath with an "
           "unchanged working directory); path arguments are modelled as str")
contract(f"{FS}:FilesystemIsolation._is_write_mode", sig={"mode": "str"}, returns="bool",
         ensures=["result == ('w' in mode or 'a' in mode or 'x' in mode or '+' in mode)"])
contract(f"{FS}:FilesystemIsolation._forget", sig={"self": "FilesystemIsolation", "paths": "list[Optional[str]]"},
         modifies=["self._created"],
         ensures=["all(implies(x in self._created, x in old(self._created)) for x in self._created)",
                  "all(implies(paths[i] is not None, NORM(paths[i]) not in self._created) for i in range(len(paths)))",
                  "all(implies(x in old(self._created) and all(paths[i] is None or NORM(paths[i]) != x for i in range(len(paths))), "
                  "x in self._created) for x in old(self._created))"])
loop(f"{FS}:FilesystemIsolation._forget", 0, invariant=[
    "all(implies(x in self._created, x in old(self._created)) for x in self._created)",
    "all(implies(paths[i] is not None, NORM(paths[i]) not in self._created) for i in range(_i))",
    "all(implies(x in old(self._created) and all(paths[i] is None or NORM(paths[i]) != x for i in range(_i)), "
    "x in self._created) for x in old(self._created))"])
contract(f"{FS}:FilesystemIsolation._record_created", sig={"self": "FilesystemIsolation", "paths": "list[Optional[str]]"},
         modifies=["self._created"],
         ensures=["all(x in self._created for x in old(self._created))",
                  "all(implies(paths[i] is not None, NORM(paths[i]) in self._created) for i in range(len(paths)))",
                  "all(x in old(self._created) or any(paths[i] is not None and NORM(paths[i]) == x for i in range(len(paths))) "
                  "for x in self._created)"])
# -- _is_isolated: "the path itself or one of its ancestors was created inside the isolation" ----------------------------------
# PARENT = os.path.dirname (assumed, uninterpreted); UP(s, n) = PARENT applied n times.  The three requires-clauses are the
# definition of UP and its one inductive consequence (a fixed point of PARENT absorbs further applications); they constrain
# only the uninterpreted symbols, not the inputs (the cover obligation shows they are satisfiable).  Termination of the walk
# (dirname reaches a fixed point) is not proved.
ufun("PARENT", ["str"], "str")
ufun("UP", ["str", "int"], "str")
contract("os.path:dirname", mode="assume", sig={"p": "str"}, returns="str", ensures=["result == PARENT(p)"])
ISO = f"{FS}:FilesystemIsolation._is_isolated"
contract(ISO, sig={"self": "FilesystemIsolation", "path": "str"}, returns="bool",
         requires=["forall(lambda s: UP(s, 0) == s, 'str')",
                   "forall(lambda s, n: implies(n >= 0, UP(s, n + 1) == PARENT(UP(s, n))), 'str', 'int')",
                   "forall(lambda s, n, k: implies(n >= 0 and k >= 0 and PARENT(UP(s, n)) == UP(s, n), UP(s, n + k) == UP(s, n)), "
                   "       'str', 'int', 'int')"],
         ensures=["result == exists(lambda n: n >= 0 and UP(NORM(path), n) in self._created, 'int')"])
loop(ISO, 0, invariant=[
    "exists(lambda n: n >= 0 and current == UP(NORM(path), n) and "
    "       forall(lambda m: implies(0 <= m and m < n, UP(NORM(path), m) not in self._created), 'int'), 'int')"])
assumption("os.path.dirname is a pure function PARENT of the path text; UP(s, n) is PARENT applied n times (definition and the "
           "fixed-point consequence enter _is_isolated's contract as requires-clauses over the uninterpreted symbols); the walk's "
           "termination is not proved")
contract(f"{FS}:FilesystemIsolation._get_arg",
         sig={"args": "list[Optional[str]]", "kwargs": "dict[str,Optional[str]]", "index": "Optional[int]"},
         returns="Optional[str]", requires=["implies(index is not None, index >= 0)"],
         globals_in={"pynguin.utils.fs_isolation.COMMON_KW_NAMES": "list[str]"},
         ensures=["implies(index is None, result is None)",
                  "implies(index is not None and index < len(args), result is args[index])",
                  "implies(index is not None and index >= len(args) and result is not None, "
                  "any(kwargs[k] is result for k in keys(kwargs)))"])
loop(f"{FS}:FilesystemIsolation._get_arg", 0, invariant=["index is not None and index >= len(args)"])


# ==== bounded stand-in: histories of file operations on a sandbox tree with pre-existing paths ================================
import itertools  # noqa: E402
import os  # noqa: E402

from pyvc.bounded import Part, guarded  # noqa: E402


def _ops():
    """(name, callable(sandbox dir)); every path is inside the sandbox.  pre.txt, predir/, predir/inner.txt, emptydir/ pre-exist."""
    import shutil
    from pathlib import Path
    j = os.path.join

    def w(p, mode, data="x"):
        def f(sb):
            with open(j(sb, p), mode) as fh:       # noqa: PTH123
                if "r" not in mode or "+" in mode:
                    fh.write(data)
        return f

    def pw(p, mode):
        def f(sb):
            with Path(j(sb, p)).open(mode) as fh:
                fh.write("y")
        return f

    def osopen(p, flags):
        def f(sb):
            fd = os.open(j(sb, p), flags)
            try:
                if flags & (os.O_WRONLY | os.O_RDWR):
                    os.write(fd, b"z")
            finally:
                os.close(fd)
        return f
    ops = [
        ("open(pre.txt,'a')", w("pre.txt", "a")), ("open(pre.txt,'w')", w("pre.txt", "w")),
        ("open(pre.txt,'r+')", w("pre.txt", "r+")), ("open(pre.txt,'r')", lambda sb: open(j(sb, "pre.txt")).close()),  # noqa
        ("open(new.txt,'w')", w("new.txt", "w")), ("open(new.txt,'a')", w("new.txt", "a")),
        ("open(predir/n2.txt,'w')", w("predir/n2.txt", "w")), ("open(predir/inner.txt,'a')", w("predir/inner.txt", "a")),
        ("Path(pre.txt).open('a')", pw("pre.txt", "a")), ("Path(new.txt).open('w')", pw("new.txt", "w")),
        ("os.open(pre.txt,O_WRONLY|O_APPEND)", osopen("pre.txt", os.O_WRONLY | os.O_APPEND)),
        ("os.open(new5.txt,O_CREAT|O_WRONLY)", osopen("new5.txt", os.O_CREAT | os.O_WRONLY)),
        # every flag that changes the file or the directory counts, whatever the access mode says
        ("os.open(pre.txt,O_RDONLY|O_TRUNC)", osopen("pre.txt", os.O_RDONLY | os.O_TRUNC)),
        ("os.open(pre.txt,O_WRONLY|O_TRUNC)", osopen("pre.txt", os.O_WRONLY | os.O_TRUNC)),
        ("os.open(predir/inner.txt,O_RDWR|O_TRUNC)", osopen("predir/inner.txt", os.O_RDWR | os.O_TRUNC)),
        ("os.open(new6.txt,O_RDONLY|O_CREAT)", osopen("new6.txt", os.O_RDONLY | os.O_CREAT)),
        ("os.open(pre.txt,O_RDONLY|O_APPEND)", osopen("pre.txt", os.O_RDONLY | os.O_APPEND)),
        ("os.mkdir(newdir)", lambda sb: os.mkdir(j(sb, "newdir"))), ("os.mkdir(predir)", lambda sb: os.mkdir(j(sb, "predir"))),
        ("os.makedirs(predir,exist_ok=True)", lambda sb: os.makedirs(j(sb, "predir"), exist_ok=True)),
        ("os.makedirs(newdir/sub)", lambda sb: os.makedirs(j(sb, "newdir", "sub"))),
        ("os.makedirs(predir/sub2/s3)", lambda sb: os.makedirs(j(sb, "predir", "sub2", "s3"))),
        ("Path(emptydir).mkdir(exist_ok=True)", lambda sb: Path(j(sb, "emptydir")).mkdir(exist_ok=True)),
        ("Path(newdir).mkdir()", lambda sb: Path(j(sb, "newdir")).mkdir()),
        ("Path(pre.txt).touch()", lambda sb: Path(j(sb, "pre.txt")).touch()),
        ("Path(new.txt).touch()", lambda sb: Path(j(sb, "new.txt")).touch()),
        ("Path(pre.txt).write_text", lambda sb: Path(j(sb, "pre.txt")).write_text("q")),
        ("Path(new.txt).write_text", lambda sb: Path(j(sb, "new.txt")).write_text("q")),
        ("Path(new.txt).write_bytes", lambda sb: Path(j(sb, "new.txt")).write_bytes(b"q")),
        ("os.rename(new.txt,new3.txt)", lambda sb: os.rename(j(sb, "new.txt"), j(sb, "new3.txt"))),
        ("os.rename(pre.txt,moved.txt)", lambda sb: os.rename(j(sb, "pre.txt"), j(sb, "moved.txt"))),
        ("os.replace(new.txt,pre.txt)", lambda sb: os.replace(j(sb, "new.txt"), j(sb, "pre.txt"))),
        ("os.rename(newdir,emptydir)", lambda sb: os.rename(j(sb, "newdir"), j(sb, "emptydir"))),
        ("Path(new.txt).rename(pre.txt)", lambda sb: Path(j(sb, "new.txt")).rename(j(sb, "pre.txt"))),
        ("Path(new.txt).replace(new3.txt)", lambda sb: Path(j(sb, "new.txt")).replace(j(sb, "new3.txt"))),
        ("shutil.copyfile(pre.txt,new4.txt)", lambda sb: shutil.copyfile(j(sb, "pre.txt"), j(sb, "new4.txt"))),
        ("shutil.copyfile(new.txt,pre.txt)", lambda sb: shutil.copyfile(j(sb, "new.txt"), j(sb, "pre.txt"))),
        ("shutil.copyfile(missing,pre.txt)", lambda sb: shutil.copyfile(j(sb, "missing"), j(sb, "pre.txt"))),
        ("shutil.copy(pre.txt,predir)", lambda sb: shutil.copy(j(sb, "pre.txt"), j(sb, "predir"))),
        ("shutil.copy2(pre.txt,newdir)", lambda sb: shutil.copy2(j(sb, "pre.txt"), j(sb, "newdir"))),
        ("shutil.copytree(predir,newtree)", lambda sb: shutil.copytree(j(sb, "predir"), j(sb, "newtree"))),
        ("shutil.copytree(predir,emptydir,dirs_exist_ok)", lambda sb: shutil.copytree(j(sb, "predir"), j(sb, "emptydir"), dirs_exist_ok=True)),
        ("shutil.move(new.txt,predir)", lambda sb: shutil.move(j(sb, "new.txt"), j(sb, "predir"))),
        ("shutil.move(new.txt,newdir/m.txt)", lambda sb: shutil.move(j(sb, "new.txt"), j(sb, "newdir", "m.txt"))),
        ("shutil.move(pre.txt,newdir)", lambda sb: shutil.move(j(sb, "pre.txt"), j(sb, "newdir"))),
        ("os.remove(pre.txt)", lambda sb: os.remove(j(sb, "pre.txt"))), ("os.remove(new.txt)", lambda sb: os.remove(j(sb, "new.txt"))),
        ("os.remove(newdir)", lambda sb: os.remove(j(sb, "newdir"))),
        ("os.unlink(predir/inner.txt)", lambda sb: os.unlink(j(sb, "predir", "inner.txt"))),
        ("os.rmdir(emptydir)", lambda sb: os.rmdir(j(sb, "emptydir"))), ("os.rmdir(newdir)", lambda sb: os.rmdir(j(sb, "newdir"))),
        ("shutil.rmtree(predir)", lambda sb: shutil.rmtree(j(sb, "predir"))), ("shutil.rmtree(newdir)", lambda sb: shutil.rmtree(j(sb, "newdir"))),
        ("Path(pre.txt).unlink()", lambda sb: Path(j(sb, "pre.txt")).unlink()), ("Path(new.txt).unlink()", lambda sb: Path(j(sb, "new.txt")).unlink()),
        ("Path(newdir).rmdir()", lambda sb: Path(j(sb, "newdir")).rmdir()),
        # multi-step sequences as one operation: a created file whose directory is renamed afterwards (its recorded path is
        # stale at clean-up time), several created paths at different depths
        ("mkdir(scratch); write scratch/part; rename(scratch, run1); write result.txt",
         lambda sb: (os.mkdir(j(sb, "scratch")), w("scratch/part.bin", "w")(sb), os.rename(j(sb, "scratch"), j(sb, "run1")), w("result.txt", "w")(sb))),
        ("makedirs(out/deep); write out/deep/log.txt; remove it; write out/top.txt",
         lambda sb: (os.makedirs(j(sb, "out", "deep")), w("out/deep/log.txt", "w")(sb), os.remove(j(sb, "out", "deep", "log.txt")), w("out/top.txt", "w")(sb))),
        ("write a.tmp; rename(a.tmp, b.tmp); write c.tmp; replace(c.tmp, b.tmp)",
         lambda sb: (w("a.tmp", "w")(sb), os.rename(j(sb, "a.tmp"), j(sb, "b.tmp")), w("c.tmp", "w")(sb), os.replace(j(sb, "c.tmp"), j(sb, "b.tmp")))),
        # pre-existing paths whose names merely start like a path the code creates (newdir, new.txt): siblings, not children
        ("open(newdir.bak,'a')", w("newdir.bak", "a")), ("open(new.txt.orig,'w')", w("new.txt.orig", "w")),
        ("shutil.copyfile(pre.txt,newdirx/keep.txt)", lambda sb: shutil.copyfile(j(sb, "pre.txt"), j(sb, "newdirx", "keep.txt"))),
        ("os.replace(new.txt,new.txt.orig)", lambda sb: os.replace(j(sb, "new.txt"), j(sb, "new.txt.orig"))),
        ("open(./pre.txt via relative path,'a')", None),     # filled in below: relative path spelling of a pre-existing file
    ]

    def rel(sb):
        cwd = os.getcwd()
        os.chdir(sb)
        try:
            with open(os.path.join(".", "predir", "..", "pre.txt"), "a") as fh:   # noqa: PTH123
                fh.write("r")
        finally:
            os.chdir(cwd)
    ops[-1] = (ops[-1][0], rel)
    return ops


def _snapshot(root):
    out = {}
    for d, dirs, files in os.walk(root):
        for n in dirs:
            p = os.path.join(d, n)
            out[os.path.relpath(p, root)] = ("link", os.readlink(p)) if os.path.islink(p) else ("dir",)
        for n in files:
            p = os.path.join(d, n)
            if os.path.islink(p):
                out[os.path.relpath(p, root)] = ("link", os.readlink(p))
            else:
                with open(p, "rb") as fh:
                    out[os.path.relpath(p, root)] = ("file", fh.read())
    return out


def _mk_sandbox():
    import tempfile
    sb = tempfile.mkdtemp(prefix="c29sb")
    with open(os.path.join(sb, "pre.txt"), "w") as fh:
        fh.write("P")
    os.mkdir(os.path.join(sb, "predir"))
    with open(os.path.join(sb, "predir", "inner.txt"), "w") as fh:
        fh.write("I")
    os.mkdir(os.path.join(sb, "emptydir"))
    for name, text in (("newdir.bak", "B"), ("new.txt.orig", "O")):
        with open(os.path.join(sb, name), "w") as fh:
            fh.write(text)
    os.mkdir(os.path.join(sb, "newdirx"))
    with open(os.path.join(sb, "newdirx", "keep.txt"), "w") as fh:
        fh.write("K")
    return sb


def run_history(names, ops=None):
    """Run the named operations inside the real FilesystemIsolation; returns (before, after) snapshots."""
    import shutil
    import pynguin.configuration as config
    from pynguin.utils.fs_isolation import FilesystemIsolation
    ops = dict(ops or _ops())
    sb = _mk_sandbox()
    old = config.configuration.filesystem_isolation
    config.configuration.filesystem_isolation = True
    try:
        before = _snapshot(sb)
        with FilesystemIsolation():
            for nme in names:
                try:
                    ops[nme](sb)
                except Exception:  # noqa: BLE001  (the code under test swallows the error)
                    pass
        after = _snapshot(sb)
    finally:
        config.configuration.filesystem_isolation = old
        shutil.rmtree(sb, ignore_errors=True)
    return before, after


def judge(before, after):
    """The statement: every pre-existing path still there with unchanged content; nothing created is left."""
    out = []
    for p, v in before.items():
        if p not in after:
            out.append(("every path that existed before the execution exists afterwards", "pre-existing-deleted", p))
        elif after[p] != v:
            out.append(("every pre-existing path has unchanged content afterwards", "pre-existing-modified", p))
    for p in after:
        if p not in before:
            out.append(("every path created during the execution is gone afterwards", "created-left-behind", p))
    return out


def _shard(args):
    hists, = args
    ops = _ops()
    res = []
    for h in hists:
        try:
            before, after = run_history(h, ops)
        except Exception as e:  # noqa: BLE001
            res.append((h, [("harness", "error", f"{type(e).__name__}: {e}")]))
            continue
        bad = judge(before, after)
        if bad:
            res.append((h, bad))
    return res


def _culprit(h, kind):
    """Name the shortest suffix-free explanation: for single-operation histories the operation itself."""
    return h[-1] if len(h) == 1 else "+".join(h)


def _check_histories(part: Part, tier, seed):
    import multiprocessing as mp
    names = [n for n, _ in _ops()]
    hists = [(a,) for a in names] + [(a, b) for a in names for b in names]
    if tier == "thorough":
        rnd = __import__("random").Random(seed)
        trip = [(a, b, c) for a in names for b in names for c in names]
        rnd.shuffle(trip)
        hists += trip[:30000]
    nsh = 16
    shards = [(hists[i::nsh],) for i in range(nsh)]
    with mp.get_context("fork").Pool(nsh) as pool:
        results = pool.map(_shard, shards)
    part.inputs_run += len(hists)
    part.nontrivial += len(hists)
    single_bad = {}
    allbad = [x for r in results for x in r]
    allbad.sort(key=lambda x: (len(x[0]), x[0]))
    for h, bad in allbad:
        for clause, kind, path in bad:
            if kind == "error":
                part.error(f"{h}: {path}")
                continue
            # a longer history is reported only if none of its operations alone already shows the same kind of damage
            if len(h) == 1:
                single_bad.setdefault(kind, set()).add(h[0])
            elif any(op in single_bad.get(kind, ()) for op in h):
                continue
            part.violation(clause, f"{kind}:{'+'.join(h)}",
                           {"history": list(h), "path": path, "kind": kind,
                            "sandbox": "pre.txt='P', predir/inner.txt='I', emptydir/, newdir.bak='B', new.txt.orig='O', "
                                       "newdirx/keep.txt='K' pre-exist; every operation's exception is swallowed"},
                           target=f"{FS}:FilesystemIsolation")


def bounded_histories(tier, seed):
    n = len(_ops())
    p = Part("C29", "histories-on-sandbox", [f"{FS}:FilesystemIsolation.__enter__", f"{FS}:FilesystemIsolation.__exit__",
                                             f"{FS}:FilesystemIsolation._create_tracked_method",
                                             f"{FS}:FilesystemIsolation._create_open_tracked",
                                             f"{FS}:FilesystemIsolation._os_open_tracked",
                                             f"{FS}:FilesystemIsolation._create_path_rename_replace_tracked"],
             scope=f"real FilesystemIsolation around every history of 1 and 2 operations (thorough: + 30000 seeded histories of 3) "
                   f"over {n} operations (open/Path.open/os.open in r, w, a, r+ modes, mkdir/makedirs/Path.mkdir with exist_ok, "
                   "touch, write_text/bytes, rename/replace/Path.rename onto new and pre-existing targets, copyfile/copy/copy2/"
                   "copytree/move, remove/unlink/rmdir/rmtree; failing calls included, exceptions swallowed) on a sandbox with a "
                   "pre-existing file, a pre-existing non-empty directory and a pre-existing empty directory; the tree is "
                   "compared byte for byte before and after",
             bound="history length <= 2 exhaustive (3 sampled in thorough)")
    return guarded(p, _check_histories, tier, seed)


BOUNDED = [bounded_histories]
META = {"level": "other",
        "explanation": "bounded contract check of the real FilesystemIsolation over operation histories on a sandbox tree (the "
                       "statement itself), plus discharged obligations for the bookkeeping helpers; see bounded_parts for the bound",
        "rule": "bounded part: one case per history (all non-trivial: every history touches the sandbox); obligations: one per "
                "contract clause/site of the bookkeeping helpers",
        "assumptions": ["operations outside the patch table (symlink, truncate, link, file descriptors) are not isolated by design"]}


def classify(g):
    return g.get("class", "")
