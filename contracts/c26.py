"""C26 — generator selection offers only type-compatible generators."""
from pyvc.contracts import assumption, contract, for_property, klass, lemma, loop, predicate, ufun

for_property("C26")
GE = "pynguin.analyses.generator"
TS = "pynguin.analyses.typesystem"


# ==== bounded stand-in: both providers on clusters of a generated module, queries interleaved with graph / return-type updates ==
import itertools  # noqa: E402

from pyvc.bounded import Part, guarded  # noqa: E402

_SOURCE = '''
class Shape:
    def __init__(self, name: str = "s"):
        self.name = name
    def token(self) -> "Token":
        return Token(self.name)
class Circle(Shape):
    def __init__(self, r: float = 1.0):
        super().__init__("c")
class Square(Shape):
    def __init__(self, a: float = 1.0):
        super().__init__("q")
class Token:
    def __init__(self, text: str = ""):
        self.text = text
class Canvas:
    def __init__(self, shapes: list[Shape] | None = None):
        self.shapes = shapes or []
    def first(self) -> Shape | None:
        return self.shapes[0] if self.shapes else None
def round_or_angular(flag: bool) -> Circle | Square:
    return Circle() if flag else Square()
def shapes(n: int) -> list[Shape]:
    return [Shape()] * n
def circles(n: int) -> list[Circle]:
    return [Circle()] * n
def pair() -> tuple[Circle, Token]:
    return Circle(), Token()
def twins() -> tuple[Shape, Shape]:
    return Shape(), Shape()
def tokens2() -> tuple[Token, Token]:
    return Token(), Token()
def triple() -> tuple[Circle, Token, Token]:
    return Circle(), Token(), Token()
def anytuple() -> tuple:
    return ()
def lookup() -> dict[str, Square]:
    return {}
def load(text):
    return Token(text)
def parse(text):
    return Token(text)
def restore(text):
    return Circle(1.0)
def maybe(flag: bool) -> Token | None:
    return Token() if flag else None
def consume(a: Shape, b: list[Shape], c: tuple[Shape, Token], d: Circle | Token, e: dict[str, Shape], f: Canvas, g: Token | None,
            h: tuple, i: tuple[Shape, Shape], j: tuple[Circle, Token, Token]) -> int:
    return 0
'''
_MODULE = "c26_subject"


def _clusters():
    import importlib, os, sys, tempfile  # noqa: E401
    import pynguin.configuration as config
    from pynguin.analyses.module import generate_test_cluster
    d = tempfile.mkdtemp(prefix="c26mod")
    with open(os.path.join(d, _MODULE + ".py"), "w", encoding="utf-8") as f:
        f.write(_SOURCE)
    sys.path.insert(0, d)
    sys.modules.pop(_MODULE, None)
    config.configuration.module_name = _MODULE
    out = {}
    old = config.configuration.generator_selection.generator_selection_algorithm
    for sel in (config.Selection.RANK_SELECTION, config.Selection.RANDOM_SELECTION):
        config.configuration.generator_selection.generator_selection_algorithm = sel
        out[sel.name] = generate_test_cluster(_MODULE)
    config.configuration.generator_selection.generator_selection_algorithm = old
    return d, out


def _requested(cluster):
    import importlib, typing  # noqa: E401
    mod = importlib.import_module(_MODULE)
    T = cluster.type_system.convert_type_hint
    S, Ci, Sq, To, Ca = mod.Shape, mod.Circle, mod.Square, mod.Token, mod.Canvas
    hints = [S, Ci, Sq, To, Ca, Ci | To, Ca | Sq, To | None, list[S], list[Ci], tuple[S, To], tuple[Ci, To], dict[str, S], dict[str, Sq],
             set[To], typing.Any, type(None), int, str, float, list[int], object, S | None, tuple[Ci | Sq, To], list[Ci | Sq],
             tuple, tuple[S, S], tuple[To, To], tuple[Ci, To, To], tuple[S, To, To]]
    return [(str(h), T(h)) for h in hints]


def _offered(provider, typ):
    return sorted(str(g.generator) for g in provider._get_generators_for(typ))   # noqa: SLF001


def _judge(step, clusters, res):
    from pynguin.analyses.generator import GeneratorProvider
    from pynguin.ga.operators.selection import RankSelection
    rank, rand = clusters["RANK_SELECTION"], clusters["RANDOM_SELECTION"]
    n = 0
    for (hint, typ), (_h2, typ2) in zip(_requested(rank), _requested(rand)):
        n += 1
        a, b = _offered(rank.generator_provider, typ), _offered(rand.generator_provider, typ2)
        for cl, provider, t in ((rank, rank.generator_provider, typ), (rand, rand.generator_provider, typ2)):
            for g in provider._get_generators_for(t):   # noqa: SLF001
                ret = g.generator.generated_type()
                if not cl.type_system.is_maybe_subtype(ret, t):
                    kind = "generic-arguments" if any(f"builtins.{x})(" in repr(ret) for x in ("list", "set", "dict")) else "other"
                    res.append(("every offered generator returns a type that may be a subtype of the requested type",
                                f"incompatible:{type(provider).__name__}:{kind}",
                                {"step": step, "requested": hint, "generator": str(g.generator), "returns": repr(ret)}))
        if a != b:
            prim = hint in ("<class 'int'>", "<class 'str'>", "<class 'float'>")
            extra_rank, extra_rand = sorted(set(a) - set(b)), sorted(set(b) - set(a))
            kind = "primitive-request" if prim else ("rank-offers-more" if extra_rank and not extra_rand else
                                                      "random-offers-more" if extra_rand and not extra_rank else "different")
            res.append(("both providers offer the same set of generators", f"providers-differ:{kind}",
                        {"step": step, "requested": hint, "only_rank": extra_rank[:6], "only_random": extra_rand[:6]}))
        # cached answers agree with a recomputation on the final generator table / type graph
        for cl, sel in ((rank, "RANK_SELECTION"), (rand, "RANDOM_SELECTION")):
            fresh = type(cl.generator_provider)(cl.type_system, RankSelection(1.7))
            for t_, gens in cl.generators.items():
                for g_ in gens:
                    fresh.add_for_type(t_, g_)
            t = typ if cl is rank else typ2
            for fn in (cl.type_system.is_subtype, cl.type_system.is_maybe_subtype, cl.type_system.subtype_distance,
                       cl.type_system.is_subclass):
                pass
            if _offered(cl.generator_provider, t) != _offered(fresh, t):
                res.append(("cached generator queries agree with a recomputation on the final generator table",
                            f"stale-generators:{sel}", {"step": step, "requested": hint, "cached": _offered(cl.generator_provider, t)[:8],
                                                        "recomputed": _offered(fresh, t)[:8]}))
    return n


def _stale_type_queries(step, cluster, res):
    """lru-cached TypeSystem queries against the uncached functions underneath them."""
    import networkx as nx
    ts = cluster.type_system
    infos = list(ts.get_all_types())[:40]
    for a, b in itertools.product(infos, repeat=2):
        want = nx.has_path(ts._graph, b, a)   # noqa: SLF001
        if ts.is_subclass(a, b) != want:
            res.append(("cached type queries agree with a recomputation on the final type graph", "stale-is_subclass",
                        {"step": step, "left": str(a), "right": str(b), "cached": not want, "recomputed": want}))
            return


def _check_c26(part: Part, tier, seed):
    import importlib, shutil, sys  # noqa: E401
    from pynguin.utils.generic.genericaccessibleobject import GenericFunction
    d, clusters = _clusters()
    res = []
    try:
        part.inputs_run += _judge("initial", clusters, res)
        mod = importlib.import_module(_MODULE)

        def fn(cluster, name):
            return next(a for a in cluster.accessible_objects_under_test if isinstance(a, GenericFunction) and a.function_name == name)
        # histories of return-type observations (the type-tracing feedback loop), queries after every step
        updates = [("load", mod.Token), ("parse", mod.Token), ("restore", mod.Circle), ("load", mod.Circle), ("maybe", mod.Square)]
        orders = list(itertools.permutations(range(len(updates)), 3)) if tier == "thorough" else [(0, 1, 2), (2, 0, 3), (1, 4, 0), (3, 2, 1)]
        for order in orders:
            shutil.rmtree(d, ignore_errors=True)
            d, clusters = _clusters()
            mod = importlib.import_module(_MODULE)
            updates = [("load", mod.Token), ("parse", mod.Token), ("restore", mod.Circle), ("load", mod.Circle), ("maybe", mod.Square)]
            _judge("warm-up", clusters, [])            # fill the caches before the first update
            for k in order:
                name, cls = updates[k]
                for cl in clusters.values():
                    cl.update_return_type(fn(cl, name), cl.type_system.convert_type_hint(cls))
                part.inputs_run += _judge(f"after update_return_type({name}, {cls.__name__}) in order {order}", clusters, res)
            # a graph update after queries: a class registered late as subclass
            for cl in clusters.values():
                ts = cl.type_system
                tok, shp = ts.to_type_info(mod.Token), ts.to_type_info(mod.Shape)
                ts.is_subclass(tok, shp)
                ts.add_subclass_edge(super_class=shp, sub_class=tok)
                _stale_type_queries("after add_subclass_edge(Shape, Token)", cl, res)
        part.nontrivial = part.inputs_run
        for clause, cls, detail in res:
            part.violation(clause, cls, detail, target=f"{GE}:GeneratorProvider._get_generators_for")
    finally:
        sys.modules.pop(_MODULE, None)
        shutil.rmtree(d, ignore_errors=True)


def bounded_c26(tier, seed):
    p = Part("C26", "providers-on-generated-module", [f"{GE}:GeneratorProvider._get_generators_for",
                                                      f"{GE}:RandomGeneratorProvider._get_generators_for",
                                                      f"{GE}:GeneratorProvider.clear_generator_cache",
                                                      "pynguin.analyses.module:ModuleTestCluster.update_return_type",
                                                      f"{TS}:TypeSystem.is_subclass", f"{TS}:TypeSystem.add_subclass_edge"],
             scope="rank-selection and random-selection clusters built by generate_test_cluster from one generated module (class "
                   "hierarchy, container and union return types, un-annotated factories); 25 requested types (classes, unions, "
                   "list/tuple/dict/set of them, Any, None, primitives, object); queries before and after 4 (thorough: all 60) "
                   "ordered triples of update_return_type observations and an add_subclass_edge after queries; offered generators "
                   "checked with is_maybe_subtype, the two providers compared, cached answers compared with a freshly built "
                   "provider and with nx.has_path",
             bound="one module, 25 requested types, update histories of length 3")
    return guarded(p, _check_c26, tier, seed)


def type_query_histories(part: Part, tier, seed, pid="C26"):
    """Cache transparency of the lru-cached TypeSystem queries: on a bare TypeSystem every query is asked after every graph
    update of a history (single edges in every order, also an edge that only shortens an existing path, and the numeric
    tower), and each answer is compared with the answer the same TypeSystem gives once every lru cache has been emptied."""
    import random
    from pynguin.analyses.typesystem import Instance, TypeSystem

    class Base: ...
    class Mid(Base): ...
    class Leaf(Mid, Base): ...        # lists a transitive base explicitly: Base -> Leaf arrives when Base -> Mid -> Leaf exists
    class Other: ...
    classes = [Base, Mid, Leaf, Other, int, float, bool, complex, object]
    cached = [n for n in dir(TypeSystem) if hasattr(getattr(TypeSystem, n), "cache_clear")]

    def ask(ts, infos):
        out = {}
        inst = {c: Instance(i) for c, i in infos.items()}
        for a, b in itertools.product(classes, repeat=2):
            out[("is_subclass", a.__name__, b.__name__)] = ts.is_subclass(infos[a], infos[b])
            out[("is_subtype", a.__name__, b.__name__)] = ts.is_subtype(inst[a], inst[b])
            out[("is_maybe_subtype", a.__name__, b.__name__)] = ts.is_maybe_subtype(inst[a], inst[b])
            out[("subtype_distance", a.__name__, b.__name__)] = ts.subtype_distance(inst[a], inst[b])
        for a in classes:
            out[("get_subclasses", a.__name__)] = sorted(t.qualname for t in ts.get_subclasses(infos[a]))
            out[("get_superclasses", a.__name__)] = sorted(t.qualname for t in ts.get_superclasses(infos[a]))
        return out
    edges = [(Base, Mid), (Mid, Leaf), (Base, Leaf), (object, Base), (object, Other)]
    updates = [("edge", e) for e in edges] + [("tower", None)]
    orders = list(itertools.permutations(range(len(updates))))
    rng = random.Random(seed)
    rng.shuffle(orders)
    orders = orders[: (240 if tier == "thorough" else 48)]
    for order in orders:
        part.case()
        ts = TypeSystem()
        for n in cached:
            getattr(TypeSystem, n).cache_clear()
        infos = {c: ts.to_type_info(c) for c in classes}
        ask(ts, infos)                                  # fill the caches before the first update
        done = []
        for k in order:
            kind, e = updates[k]
            if kind == "edge":
                ts.add_subclass_edge(super_class=infos[e[0]], sub_class=infos[e[1]])
                done.append(f"add_subclass_edge({e[0].__name__}, {e[1].__name__})")
            else:
                ts.enable_numeric_tower()
                done.append("enable_numeric_tower()")
            got = ask(ts, infos)
            for n in cached:
                getattr(TypeSystem, n).cache_clear()
            want = ask(ts, infos)
            diff = [q for q in got if got[q] != want[q]]
            if diff:
                q = diff[0]
                part.violation("cached type queries agree with a recomputation on the final type graph", f"stale:{q[0]}:after-{kind}",
                               {"history(queries after every step)": list(done), "query": list(q), "cached_answer": got[q],
                                "recomputed_answer": want[q], "stale_queries": len(diff)},
                               target=f"{TS}:TypeSystem.{'enable_numeric_tower' if kind == 'tower' else 'add_subclass_edge'}")
                break
    for n in cached:
        getattr(TypeSystem, n).cache_clear()


def bounded_type_histories(tier, seed):
    p = Part("C26", "type-query-histories", [f"{TS}:TypeSystem.add_subclass_edge", f"{TS}:TypeSystem.enable_numeric_tower",
                                             f"{TS}:TypeSystem.is_subclass", f"{TS}:TypeSystem.is_subtype", f"{TS}:TypeSystem.is_maybe_subtype",
                                             f"{TS}:TypeSystem.subtype_distance", f"{TS}:TypeSystem.get_subclasses", f"{TS}:TypeSystem.get_superclasses"],
             scope="bare TypeSystem over 4 classes (one listing a transitive base explicitly) and int/float/bool/complex/object: 48 "
                   "(thorough 240) seeded orders of 5 add_subclass_edge updates and enable_numeric_tower; all 6 lru-cached queries on "
                   "all pairs after every update, compared with the same queries after emptying every lru cache",
             bound="9 classes, 6 updates per history")
    return guarded(p, type_query_histories, tier, seed)


BOUNDED = [bounded_c26, bounded_type_histories]
META = {"level": "other", "explanation": "bounded contract check of the real generator providers and cached type queries on a "
                                         "generated module, queries interleaved with updates",
        "rule": "one case per (step of a history, requested type)"}


def classify(g):
    return g.get("class", "")
