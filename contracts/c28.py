"""C28 — mutation analysis yields genuine mutants and leaves the original intact."""
from pyvc.contracts import assumption, contract, for_property, klass, lemma, loop, predicate, ufun

for_property("C28")
MU = "pynguin.assertion.mutation_analysis.mutators"
OB = "pynguin.assertion.mutation_analysis.operators.base"


# ==== bounded stand-ins ==========================================================================================================
import ast as _ast  # noqa: E402
import itertools  # noqa: E402

from pyvc.bounded import Part, guarded  # noqa: E402

_HAND = '''
import functools
BASE = {"a": 1}
def scale(value, *, factor, offset=1):
    return value * factor + offset
def merge(base):
    return {**base, 3: 4, **BASE}
def loop(xs):
    total = 0
    for x in xs:
        if x < 0 or x == 7:
            continue
        elif x > 100 and not total:
            break
        total += x
    else:
        total -= 1
    while total > 10:
        total //= 2
    return -total
def guarded(x):
    try:
        return 1 / x
    except (ZeroDivisionError, TypeError):
        raise ValueError("bad")
    finally:
        pass
class Base:
    def __init__(self):
        self.v = True
    def hook(self):
        return "base"
class Child(Base):
    def __init__(self):
        super().__init__()
        self.w = None
    def hook(self):
        super().hook()
        return "child"[1:2]
    @staticmethod
    def util(a, b=2, *args, c, d=4, **kw):
        return a if a is not b else [a, b][0:1]
    @functools.lru_cache
    def cached(self):
        return self.v and not self.w
'''


def _subjects(tier):
    import bisect, heapq, textwrap, inspect  # noqa: E401
    out = [("c28_hand", _HAND)]
    mods = [bisect, heapq] + ([textwrap] if tier == "thorough" else [])
    for m in mods:
        out.append((f"c28_{m.__name__}", inspect.getsource(m)))
    return out


def _paths(root):
    """id(node) -> path of (field, index) steps from the root."""
    res = {}

    def walk(n, path):
        res[id(n)] = path
        for f, v in _ast.iter_fields(n):
            if isinstance(v, list):
                for i, x in enumerate(v):
                    if isinstance(x, _ast.AST):
                        walk(x, path + ((f, i),))
            elif isinstance(v, _ast.AST):
                walk(v, path + ((f, None),))
    walk(root, ())
    return res


def _diffs(a, b, path):
    """Paths (as in _paths) at which two syntax trees differ; a differing node type, list length or plain field ends the descent."""
    if type(a) is not type(b):
        return [path]
    out = []
    for f, va in _ast.iter_fields(a):
        vb = getattr(b, f, None)
        if isinstance(va, list):
            if not isinstance(vb, list) or len(va) != len(vb):
                out.append(path)
                continue
            for i, (x, y) in enumerate(zip(va, vb)):
                if isinstance(x, _ast.AST) or isinstance(y, _ast.AST):
                    out.extend(_diffs(x, y, path + ((f, i),)))
                elif x != y:
                    out.append(path)
        elif isinstance(va, _ast.AST) or isinstance(vb, _ast.AST):
            out.extend(_diffs(va, vb, path + ((f, None),)))
        elif va != vb:
            out.append(path)
    return out


def _replace_at(root, path, repl):
    node = root
    for f, i in path[:-1]:
        node = getattr(node, f)[i] if i is not None else getattr(node, f)
    f, i = path[-1]
    if i is None:
        setattr(node, f, repl)
    else:
        getattr(node, f)[i] = repl


def _dump(n):
    return _ast.dump(n, include_attributes=False)


def _check_mutators(part: Part, tier, seed):
    from pynguin.assertion.mutation_analysis.mutators import FirstOrderMutator, HighOrderMutator
    from pynguin.assertion.mutation_analysis.operators import experimental_operators, standard_operators
    from pynguin.assertion.mutation_analysis.strategies import (BetweenOperatorsHOMStrategy, EachChoiceHOMStrategy,
                                                               FirstToLastHOMStrategy, RandomHOMStrategy)
    from pynguin.assertion.mutation_analysis.transformer import ParentNodeTransformer, create_module
    ops = list(standard_operators) + list(experimental_operators)
    for name, src in _subjects(tier):
        tree = ParentNodeTransformer.create_ast(src)
        module = create_module(tree, name)
        pristine = _dump(tree)
        paths = _paths(tree)
        tgt = f"{MU}:FirstOrderMutator.mutate"

        def intact(label):
            if _dump(tree) != pristine:
                part.violation("the original AST is unchanged after enumerating mutants", f"original-changed:{label}",
                               {"module": name, "enumeration": label}, target=tgt)
                return False
            return True

        def key(m):
            return (m.operator.__name__, m.visitor_name, paths.get(id(m.node)), _dump(m.replacement_node))
        # full enumeration: each mutant differs from the original exactly at the mutated node
        full = []
        for muts, mutant in FirstOrderMutator(ops).mutate(tree, module):
            part.case()
            m = muts[0]
            full.append(key(m))
            p = paths.get(id(m.node))
            if p is None or p == ():
                if p is None:
                    part.violation("a mutation names a node of the original tree", f"foreign-node:{m.operator.__name__}",
                                   {"module": name, "visitor": m.visitor_name}, target=tgt)
                continue
            ref = ParentNodeTransformer.create_ast(src)
            _replace_at(ref, p, m.replacement_node)
            got, want = _dump(mutant), _dump(ref)
            if got != want:
                part.violation("each mutant differs from the original exactly at its mutated node",
                               f"mutant-shape:{m.operator.__name__}",
                               {"module": name, "operator": m.operator.__name__, "visitor": m.visitor_name, "path": repr(p),
                                "replacement": _dump(m.replacement_node)[:200]}, target=tgt)
            if got == pristine:
                part.violation("a mutant differs from the original", f"equal-mutant:{m.operator.__name__}",
                               {"module": name, "operator": m.operator.__name__, "visitor": m.visitor_name, "path": repr(p)}, target=tgt)
        if not intact("full"):
            return
        n_full = len(full)
        cnt = FirstOrderMutator(ops).mutation_count(tree, module)
        intact("mutation_count")
        if cnt != n_full:
            part.violation("mutation_count equals the size of the full enumeration", "count", {"module": name, "count": cnt, "full": n_full},
                           target=f"{MU}:FirstOrderMutator.mutation_count")
        import collections
        full_ms = collections.Counter(full)
        caps = sorted({0, 1, 2, n_full // 3, n_full - 1, n_full, n_full + 5} - {-1})
        for reorder in (False, True):
            for cap in [-1] + caps:
                for sseed in (0, seed + 1):
                    if cap == -1 and not reorder:
                        continue
                    part.case()
                    label = f"cap={cap},reorder={reorder},seed={sseed}"
                    mu = FirstOrderMutator(ops, maximum_mutants=cap, sampling_seed=sseed, reorder=reorder)
                    got = []
                    for muts, mutant in mu.mutate(tree, module):
                        got.append(key(muts[0]))
                    if not intact(label):
                        return
                    want_n = n_full if cap < 0 else min(cap, n_full)
                    if len(got) != want_n:
                        part.violation("a cap keeps exactly min(cap, total) mutants", "sample-size",
                                       {"module": name, "config": label, "got": len(got), "want": want_n}, target=f"{MU}:FirstOrderMutator._sample")
                    extra = collections.Counter(got) - full_ms
                    if extra:
                        part.violation("sampled / reordered mutants are a sub-multiset of the full enumeration", "sample-foreign",
                                       {"module": name, "config": label, "extra": repr(list(extra)[:3])}, target=f"{MU}:FirstOrderMutator._select_mutations")
                    if mu.mutation_count(tree, module) != n_full:
                        part.violation("mutation_count ignores the cap", "count-capped", {"module": name, "config": label},
                                       target=f"{MU}:FirstOrderMutator.mutation_count")
        # the controller (what the generator and the assertion generator talk to): the reported count is the size of the full
        # enumeration before, between and after (capped) enumerations, and the enumeration yields what the mutator yields
        from pynguin.assertion.mutation_analysis.controller import MutationController
        for cap, reorder in [(-1, False), (0, False), (1, False), (n_full // 3, True), (n_full - 1, False), (n_full + 5, True)]:
            part.case()
            label = f"controller:cap={cap},reorder={reorder}"
            ctl = MutationController(FirstOrderMutator(ops, maximum_mutants=cap, sampling_seed=seed, reorder=reorder), tree, module)
            counts = [ctl.mutant_count()]
            yielded = 0
            for _mod, muts in ctl.create_mutants():
                yielded += 1        # (no count while a mutant is applied in place: that is not a state the count is defined for)
            counts.append(ctl.mutant_count())
            if not intact(label):
                return
            want_n = n_full if cap < 0 else min(cap, n_full)
            if yielded != want_n:
                part.violation("the controller's enumeration yields exactly the mutator's (capped) mutants", "controller-size",
                               {"module": name, "config": label, "got": yielded, "want": want_n},
                               target="pynguin.assertion.mutation_analysis.controller:MutationController.create_mutants")
            if any(c != n_full for c in counts):
                part.violation("the reported mutant count equals the number of mutants the full enumeration yields",
                               "controller-count", {"module": name, "config": label, "counts(before,after)": counts, "full": n_full},
                               target="pynguin.assertion.mutation_analysis.controller:MutationController.mutant_count")
        # higher-order mutants: the original is restored after each one
        for strat in (FirstToLastHOMStrategy(), EachChoiceHOMStrategy(), BetweenOperatorsHOMStrategy(), RandomHOMStrategy()):
            part.case()
            __import__("pynguin.utils.randomness", fromlist=["RNG"]).RNG.seed(seed)
            if n_full > (2000 if tier == "thorough" else 500):
                continue          # (enumerations are always run to their end: an abandoned generator has not restored yet)
            sname = type(strat).__name__
            n_hom = 0
            try:
                for muts, mutant in HighOrderMutator(ops, hom_strategy=strat).mutate(tree, module):
                    n_hom += 1
                    if len(muts) < 1:
                        part.violation("a higher-order mutant applies at least one mutation", "hom-empty", {"module": name}, target=f"{MU}:HighOrderMutator.mutate")
                    # while the mutant is applied in place: every difference from the original lies at or below a mutated node
                    mutated = [paths.get(id(m.node)) for m in muts]
                    known_paths = [p_ for p_ in mutated if p_ is not None]
                    stray = [d for d in _diffs(ParentNodeTransformer.create_ast(src), tree, ())
                             if not any(d[:len(p_)] == p_ for p_ in known_paths)]
                    if stray and known_paths:
                        part.violation("each mutant differs from the original only at its mutated nodes", f"hom-stray-difference:{sname}",
                                       {"module": name, "strategy": sname, "mutant_number": n_hom,
                                        "mutations": [(m.operator.__name__, repr(paths.get(id(m.node)))) for m in muts],
                                        "differences_elsewhere": [repr(d) for d in stray[:3]]}, target=f"{MU}:HighOrderMutator.mutate")
                        break
            except Exception as ex:  # noqa: BLE001
                import traceback as _tb
                last = _tb.extract_tb(ex.__traceback__)[-1]
                if "mutation_analysis" not in last.filename:
                    raise
                # the enumeration itself failed (the harness only iterates): report it together with the state of the original tree
                part.violation("enumerating higher-order mutants yields the mutants and leaves the original tree unchanged",
                               f"hom-enumeration-raised:{sname}",
                               {"module": name, "strategy": sname, "after_mutants": n_hom, "error": f"{type(ex).__name__}: {ex}"[:200],
                                "raised_at": f"{last.filename.rsplit('/', 1)[-1]}:{last.name}", "original_tree_intact": _dump(tree) == pristine},
                               target=f"{MU}:HighOrderMutator.mutate")
                return
            if not intact(f"hom:{sname}"):
                return


def _check_counts(part: Part, tier, seed):
    from pynguin.assertion.mutation_analysis.mutators import _round_robin, _stratified_counts
    n, m = (5, 7) if tier == "thorough" else (4, 6)
    for k in range(0, n + 1):
        for sizes in itertools.product(range(m + 1), repeat=k):
            tot = sum(sizes)
            for cap in range(0, tot + 2):
                part.case(tot > cap)
                res = _stratified_counts(list(sizes), cap)
                ok = (len(res) == k and sum(res) == min(cap, tot) and all(0 <= r <= s for r, s in zip(res, sizes)))
                if not ok:
                    part.violation("_stratified_counts: sum == min(cap, total) and 0 <= count[i] <= size[i]", "stratified",
                                   {"sizes": list(sizes), "cap": cap, "result": res}, target=f"{MU}:_stratified_counts")
    for k in range(0, 4):
        for lens in itertools.product(range(0, 4), repeat=k):
            part.case()
            lists = [[(i, j) for j in range(ln)] for i, ln in enumerate(lens)]
            res = _round_robin(lists)
            flat = [x for ls in lists for x in ls]
            ok = sorted(res) == sorted(flat) and all([x for x in res if x[0] == i] == ls for i, ls in enumerate(lists))
            rounds = [x[1] for x in res]
            ok = ok and rounds == sorted(rounds)
            if not ok:
                part.violation("_round_robin is an interleaving of its lists, round by round", "round-robin",
                               {"lists": lists, "result": res}, target=f"{MU}:_round_robin")


def bounded_mutators(tier, seed):
    p = Part("C28", "operators-and-mutators", [f"{MU}:FirstOrderMutator.mutate", f"{MU}:FirstOrderMutator._select_mutations",
                                               f"{MU}:FirstOrderMutator._sample", f"{MU}:HighOrderMutator.mutate",
                                               f"{OB}:MutationOperator.visit", f"{OB}:MutationOperator._generic_visit_list",
                                               f"{OB}:MutationOperator._generic_visit_real_node"],
             scope="all standard and experimental operators on a hand-written module (keyword-only arguments without default, "
                   "dict unpacking, loops with else/break/continue, try/except/finally, inheritance with super(), decorators, "
                   "slices, boolean/comparison/arithmetic/unary operators) and the sources of bisect, heapq (thorough: textwrap): "
                   "full enumeration (every mutant compared with a fresh parse in which only the mutated node is replaced), "
                   "mutation_count, caps {0,1,2,n/3,n-1,n,n+5} x reorder x 2 sampling seeds, four higher-order strategies; the "
                   "original AST dump is compared after every enumeration",
             bound="3 (4) modules; higher-order enumeration cut after 120 (400) mutants")
    return guarded(p, _check_mutators, tier, seed)


def bounded_counts(tier, seed):
    p = Part("C28", "stratified-counts-and-round-robin", [f"{MU}:_stratified_counts", f"{MU}:_round_robin"],
             scope="_stratified_counts on every size vector of length <= 4 (5) with entries <= 6 (7) and every cap 0..total+1; "
                   "_round_robin on every tuple of <= 3 lists of length <= 3",
             bound="length <= 4 (5), sizes <= 6 (7)")
    return guarded(p, _check_counts, tier, seed)


BOUNDED = [bounded_counts, bounded_mutators]
META = {"level": "other", "explanation": "bounded contract checks of the real mutation operators, mutators and the sampling "
                                         "arithmetic over exhaustively enumerated small scopes / fixed modules",
        "rule": "one case per enumerated mutant / configuration / size vector; non-trivial for counts = the cap truncates"}


def classify(g):
    return g.get("class", "")
