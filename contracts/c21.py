"""C21 — kept assertions hold on the original module and preserve mutant kills."""
from __future__ import annotations

import itertools

from pyvc.bounded import Part, guarded
from pyvc.contracts import contract, exception, for_property, klass, loop, predicate, ufun, value_type

for_property("C21")
AG = "pynguin.assertion.assertiongenerator"

value_type("AKey")      # an assertion key (stmt_idx, assertion_idx): abstract value with structural equality
klass(f"{AG}:_MutationMetrics", fields={"num_created_mutants": "int", "num_killed_mutants": "int",
                                        "num_timeout_mutants": "int"})

# -- the mutation score ------------------------------------------------------------------------------------------
contract(f"{AG}:_MutationMetrics.get_score",
         requires=["self.num_killed_mutants >= 0", "self.num_timeout_mutants >= 0",
                   "self.num_killed_mutants + self.num_timeout_mutants <= self.num_created_mutants"],
         ensures=["0 <= result and result <= 1",
                  "implies(self.num_created_mutants == self.num_timeout_mutants, result == 1)",
                  "implies(self.num_created_mutants != self.num_timeout_mutants, "
                  "        result == real(self.num_killed_mutants) / real(self.num_created_mutants - self.num_timeout_mutants))"])

# -- greedy set cover + pruning: the kept assertions kill exactly the mutants the full set kills ----------------
predicate("killed_by_some(km, ks, m)", "any(m in km[k] for k in ks)")
SIG = {"kill_map": "dict[AKey, set[int]]"}
contract(f"{AG}:_select_minimal_assertions", sig=SIG, returns="set[AKey]", type_map={"tuple[int, int]": "AKey"},
         ensures=["result <= keys(kill_map)",
                  "forall(lambda m: killed_by_some(kill_map, keys(kill_map), m) == killed_by_some(kill_map, result, m), 'int')",
                  "all(kill_map[k] != set() for k in result)"])
F = f"{AG}:_select_minimal_assertions"
loop(F, 0, invariant=["forall(lambda m: (m in universe) == any(m in kill_map[k] for k in _done), 'int')"])
INV_COMMON = [
    "forall(lambda m: (m in universe) == killed_by_some(kill_map, keys(kill_map), m), 'int')",
    "keep <= keys(kill_map)",
    "all(kill_map[k] != set() for k in keep)",
]
loop(F, 1, invariant=INV_COMMON + [
    "forall(lambda m: (m in uncovered) == ((m in universe) and not killed_by_some(kill_map, keep, m)), 'int')",
    "forall(lambda k: (k in candidates) == ((k in kill_map) and kill_map[k] != set() and k not in keep), 'AKey')",
    "all(same(candidates[k], kill_map[k]) for k in keys(candidates))",
], decreases="len(uncovered)")
loop(F, 2, invariant=[
    "(best_key is None) == (best_cover == 0)", "best_cover >= 0",
    "implies(best_key is not None, best_key in candidates and "
    "        any(m in candidates[best_key] and m in uncovered for m in universe))",
    # every key processed so far whose kill set meets `uncovered` made best_key non-None
    "implies(best_key is None, all(disjoint(candidates[_seq[j]], uncovered) for j in range(_i)))",
], exit_asserts=[
    # every candidate key was visited (sorted() is a permutation of the keys) ...
    "all(any(_seq[j] == k for j in range(_n)) for k in keys(candidates))",
    # ... so if nothing was picked, no candidate kills an uncovered mutant
    "implies(best_key is None, all(disjoint(candidates[k], uncovered) for k in keys(candidates)))",
])
loop(F, 3, invariant=INV_COMMON + [
    "forall(lambda m: implies(m in universe, killed_by_some(kill_map, keep, m)), 'int')"])
loop(F, 4, invariant=[
    "forall(lambda m: (m in others) == any(m in kill_map[o] and o != key for o in _done), 'int')"])


# -- the verification observer: every assertion of a statement is evaluated, none is skipped ----------------------------
# `exec(compile(code))` is outside the verifier's reach; it enters as an assumed contract over an uninterpreted verdict
# function of (source text, namespace): 0 holds, 1 AssertionError, 2 another exception, 3 the tracer's abort signal.
ATO_ = "pynguin.assertion.assertiontraceobserver"
AT = "pynguin.assertion.assertion_trace"
value_type("NS")        # the execution namespace (exec'ing an `assert` statement does not rebind names: assumed)
exception("TracingAbortedException", "BaseException")
klass("pynguin.assertion.assertion:Assertion", fields={})
klass("libcst:SimpleStatementLine", fields={})
klass("libcst:Module", fields={"code": "str"})
klass("builtins:BaseException", fields={})
klass("pynguin.testcase.testcase:Statement", fields={"assertions": "list[Assertion]"})
klass(f"{AT}:AssertionVerificationTrace", fields={"failed": "defaultdict[int, set[int]]", "error": "defaultdict[int, set[int]]"})
klass(f"{ATO_}:RemoteAssertionExecutorLocalState", fields={"trace": "AssertionVerificationTrace", "position": "int"})
klass(f"{ATO_}:RemoteAssertionVerificationObserver", fields={"_state": "RemoteAssertionExecutorLocalState"})
ufun("ONLYEXC", ["Statement"], "bool")
ufun("UNRENDERED", ["Assertion"], "bool")
ufun("CODE", ["Assertion"], "str")
ufun("NODECODE", ["SimpleStatementLine"], "str")
ufun("VERDICT", ["str", "NS"], "int")
contract("pynguin.testcase.testcase:Statement.has_only_exception_assertion", mode="assume", sig={"self": "Statement"}, returns="bool",
         ensures=["result == ONLYEXC(self)"])
contract("pynguin.assertion.assertion_to_ast:assertion_to_cst", mode="assume", sig={"assertion": "Assertion"}, returns="Optional[SimpleStatementLine]", fresh_result=False,
         ensures=["(result is None) == UNRENDERED(assertion)", "implies(result is not None, NODECODE(result) == CODE(assertion))"])
contract("libcst:Module.__init__", mode="assume", sig={"self": "Module", "body": "list[SimpleStatementLine]"},
         requires=["len(body) == 1"], modifies=["self.code"], ensures=["self.code == NODECODE(body[0])"])
contract("builtins:compile", mode="assume", sig={"source": "str", "filename": "str", "mode": "str"}, returns="str",
         ensures=["result == source"], note="a code object is modelled by its source text")
contract("builtins:exec", mode="assume", sig={"code": "str", "globals": "NS"}, returns="None",
         raises={"TracingAbortedException": "VERDICT(code, globals) == 3", "AssertionError": "VERDICT(code, globals) == 1",
                 "BaseException": "VERDICT(code, globals) == 2"},
         ensures=["VERDICT(code, globals) == 0"])
OBS = f"{ATO_}:RemoteAssertionVerificationObserver.after_statement_execution"
RECORDED = ("implies(not UNRENDERED(statement.assertions[{j}]), "
            "(implies(VERDICT(CODE(statement.assertions[{j}]), namespace) == 1, "
            "         {pos} in keys(self._state.trace.failed) and {j} in self._state.trace.failed[{pos}]) and "
            " implies(VERDICT(CODE(statement.assertions[{j}]), namespace) == 2, "
            "         {pos} in keys(self._state.trace.error) and {j} in self._state.trace.error[{pos}])))")
contract(OBS, sig={"self": "RemoteAssertionVerificationObserver", "statement": "Statement", "executor": "object",
                   "namespace": "NS", "exception": "Optional[BaseException]"},
         modifies=["self._state.position", "self._state.trace.failed", "self._state.trace.error"],
         raises={"TracingAbortedException": "any(not UNRENDERED(a) and VERDICT(CODE(a), namespace) == 3 for a in statement.assertions)"},
         ensures=["self._state.position == old(self._state.position) + 1",
                  # C21, first clause, on the observer: no assertion that fails or raises in this execution goes unrecorded
                  "implies(not ONLYEXC(statement), all(" + RECORDED.format(j="j", pos="old(self._state.position)") +
                  " for j in range(len(statement.assertions))))",
                  # what was recorded before stays recorded (for every position)
                  "all(old(self._state.trace.failed)[p] <= self._state.trace.failed[p] for p in keys(old(self._state.trace.failed)))",
                  "all(old(self._state.trace.error)[p] <= self._state.trace.error[p] for p in keys(old(self._state.trace.error)))"])
loop(OBS, 0, modifies=["self._state.trace.failed", "self._state.trace.error"], invariant=[
    "all(" + RECORDED.format(j="j", pos="position") + " for j in range(_i))",
    "all(old(self._state.trace.failed)[p] <= self._state.trace.failed[p] for p in keys(old(self._state.trace.failed)))",
    "all(old(self._state.trace.error)[p] <= self._state.trace.error[p] for p in keys(old(self._state.trace.error)))",
    "keys(old(self._state.trace.failed)) <= keys(self._state.trace.failed)",
    "keys(old(self._state.trace.error)) <= keys(self._state.trace.error)"])

# -- the filter: every assertion the verification trace reports is removed from its statement ---------------------------------
# (assertions of one statement are pairwise different objects with pairwise unequal values: they come from an OrderedSet;
#  `list.remove(x)` then removes exactly x.  Recorded positions index into the statement's assertion list.)
TCM_ = "pynguin.testcase.testcase"
klass(f"{TCM_}:TestCase", fields={"_statements": "list[Statement]"})
klass("pynguin.testcase.execution_result:ExecutionResult", fields={"assertion_verification_trace": "AssertionVerificationTrace"})
contract(f"{TCM_}:TestCase.statements", sig={"self": "TestCase"}, returns="list[Statement]",
         ensures=["len(result) == len(self._statements)", "all(result[i] is self._statements[i] for i in range(len(result)))"])
predicate("reported(t, s, a)", "(s in keys(t.failed) and a in t.failed[s]) or (s in keys(t.error) and a in t.error[s])")
RNH = f"{AG}:AssertionGenerator.__remove_non_holding_assertions"
# NOT PART OF THE CHECK: with the contract and the invariants below, 17 of 62 obligations (invariant preservation of the inner
# loop over list.remove, KeyError freedom) stay undecided in z3 and cvc5 within the budget, so the function is covered by the
# bounded part `remove-non-holding` only.  The text is kept (registered only under PYVC_EXPERIMENTAL=1) as the starting point.
import os as _os  # noqa: E402
_contract, _loop = contract, loop
if not _os.environ.get("PYVC_EXPERIMENTAL"):
    contract = loop = lambda *a, **k: None   # noqa: E731
contract(RNH, sig={"test": "TestCase", "result": "ExecutionResult"},
         requires=[
             # statements are pairwise different objects, each with pairwise different assertions
             "all(all(implies(i != j, test._statements[i] is not test._statements[j]) for j in range(len(test._statements))) "
             "    for i in range(len(test._statements)))",
             "all(all(all(implies(a != b, test._statements[i].assertions[a] is not test._statements[i].assertions[b]) "
             "            for b in range(len(test._statements[i].assertions))) for a in range(len(test._statements[i].assertions))) "
             "    for i in range(len(test._statements)))",
             # recorded positions are positions of assertions
             "all(all(implies(reported(result.assertion_verification_trace, i, a), 0 <= a and a < len(test._statements[i].assertions)) "
             "        for a in range(-2, len(test._statements[i].assertions) + 2)) for i in range(len(test._statements)))",
             "forall(lambda i, a: implies(0 <= i and i < len(test._statements) and reported(result.assertion_verification_trace, i, a), "
             "                            0 <= a and a < len(test._statements[i].assertions)), 'int', 'int')"],
         modifies=["Statement.assertions['*']"], raises={},
         ensures=[
             # C21, first clause, on the filter: nothing the trace reports stays attached
             "all(all(implies(reported(result.assertion_verification_trace, i, a), "
             "                not any(x is old(test._statements[i].assertions)[a] for x in test._statements[i].assertions)) "
             "        for a in range(len(old(test._statements[i].assertions)))) for i in range(len(test._statements)))",
             # and what stays attached was attached before
             "all(all(any(x is y for y in old(test._statements[i].assertions)) for x in test._statements[i].assertions) "
             "    for i in range(len(test._statements)))"])

S_ = "test._statements"
T_ = "result.assertion_verification_trace"
GONE = ("all(all(implies(reported(" + T_ + ", k, a), not any(x is old(" + S_ + "[k].assertions)[a] for x in " + S_ + "[k].assertions)) "
        "for a in range(len(old(" + S_ + "[k].assertions)))) for k in range({hi}))")
SUBSET = "all(all(any(x is y for y in old(" + S_ + "[k].assertions)) for x in " + S_ + "[k].assertions) for k in range(len(" + S_ + ")))"
UNTOUCHED = ("all(len(" + S_ + "[k].assertions) == len(old(" + S_ + "[k].assertions)) and "
             "all(" + S_ + "[k].assertions[a] is old(" + S_ + "[k].assertions)[a] for a in range(len(" + S_ + "[k].assertions))) "
             "for k in range({lo}, len(" + S_ + ")))")
loop(RNH, 0, invariant=[GONE.format(hi="_i"), SUBSET, UNTOUCHED.format(lo="_i")])
loop(RNH, 1, modifies=["statement.assertions"], invariant=[
    # positions handled so far are gone, the others are still there (so that list.remove finds them); no duplicates arise
    "all(not any(x is pos_to_key[_seq[q]] for x in statement.assertions) for q in range(_i))",
    "all(any(x is pos_to_key[_seq[q]] for x in statement.assertions) for q in range(_i, len(_seq)))",
    "all(all(implies(a != b, statement.assertions[a] is not statement.assertions[b]) for b in range(len(statement.assertions))) "
    "    for a in range(len(statement.assertions)))",
    "all(any(x is y for y in old(" + S_ + "[idx].assertions)) for x in statement.assertions)",
    # an assertion that is not to be deleted stays
    "all(implies(not (a in to_delete), any(x is old(" + S_ + "[idx].assertions)[a] for x in statement.assertions)) "
    "    for a in range(len(old(" + S_ + "[idx].assertions))))"])

contract, loop = _contract, _loop

# -- the trace itself: "violated" means recorded as failed or as erroneous; merging only adds --------------------------------
predicate("violated_in(t, s, a)", "(s in keys(t.failed) and a in t.failed[s]) or (s in keys(t.error) and a in t.error[s])")
contract(f"{AT}:AssertionVerificationTrace.was_violated", sig={"self": "AssertionVerificationTrace", "stmt_idx": "int", "assertion_idx": "int"},
         returns="bool", ensures=["result == violated_in(self, stmt_idx, assertion_idx)"])
MRG = f"{AT}:AssertionVerificationTrace.merge"
contract(MRG, sig={"self": "AssertionVerificationTrace", "other": "AssertionVerificationTrace"}, requires=["self is not other"],
         modifies=["self.failed", "self.error"],
         ensures=["forall(lambda s, a: violated_in(self, s, a) == (violated_in(old(self), s, a) or violated_in(other, s, a)), 'int', 'int')"])
loop(MRG, 0, modifies=["self.failed"], invariant=[
    "forall(lambda s, a: (s in keys(self.failed) and a in self.failed[s]) == ((s in keys(old(self.failed)) and a in old(self.failed)[s]) "
    "       or (s in _done and a in other.failed[s])), 'int', 'int')"])
loop(MRG, 1, modifies=["self.error"], invariant=[
    "forall(lambda s, a: (s in keys(self.error) and a in self.error[s]) == ((s in keys(old(self.error)) and a in old(self.error)[s]) "
    "       or (s in _done and a in other.error[s])), 'int', 'int')"])


# ---------------------------------------------------------------------------------------------------------------
# bounded stand-in: the mutation summary (partition of mutants, score in [0, 1], time-outs and unchecked mutants
# ignored).  The three list comprehensions with *different* filters cannot be summed by the SMT back end (that
# needs induction over the list), so this part is an exhaustive small-scope run of the real classes.
def _check_summary(part: Part, tier, seed):
    from pynguin.assertion.assertiongenerator import _MutantInfo, _MutationSummary
    n_max = 6 if tier == "thorough" else 5
    shapes = [([], []), ([0], []), ([], [1]), ([0], [1]), ([0, 2], [1])]
    for n in range(0, n_max + 1):
        for combo in itertools.product(range(len(shapes)), repeat=n):
            part.case(n > 0)
            infos = [_MutantInfo(i, timed_out_by=list(shapes[c][1]), killed_by=list(shapes[c][0])) for i, c in enumerate(combo)]
            s = _MutationSummary(infos)
            killed, timeout, survived = s.get_killed(), s.get_timeout(), s.get_survived()
            ids = lambda xs: [x.mut_num for x in xs]   # noqa: E731
            detail = {"mutants(killed_by,timed_out_by)": [shapes[c] for c in combo], "killed": ids(killed),
                      "timeout": ids(timeout), "survived": ids(survived)}
            if sorted(ids(killed) + ids(timeout) + ids(survived)) != list(range(n)):
                part.violation("killed, timed-out and survived mutants partition the checked mutants",
                               "summary-partition", detail, target=f"{AG}:_MutationSummary.get_killed")
            if any(x.timed_out_by for x in killed) or any(not x.killed_by for x in killed):
                part.violation("a timed-out mutant is never counted as killed", "killed-includes-timeout", detail,
                               target=f"{AG}:_MutationSummary.get_killed")
            m = s.get_metrics()
            try:
                score = m.get_score()
            except AssertionError as e:
                part.violation("get_score never fails", "score-raises", {**detail, "exception": repr(e)},
                               target=f"{AG}:_MutationMetrics.get_score")
                continue
            exp = 1.0 if n - len(timeout) == 0 else len([c for c in combo if shapes[c][0] and not shapes[c][1]]) / (n - len(timeout))
            if not (0.0 <= score <= 1.0) or abs(score - exp) > 1e-12:
                part.violation("mutation score lies in [0,1] and ignores timed-out mutants", "score-range",
                               {**detail, "score": score, "expected": exp}, target=f"{AG}:_MutationSummary.get_metrics")


def bounded_summary(tier, seed):
    p = Part("C21", "mutation-summary", [f"{AG}:_MutationSummary.get_killed/get_timeout/get_survived/get_metrics"],
             scope="all lists of <= %d mutants, each with (killed_by, timed_out_by) in {([],[]),([0],[]),([],[1]),([0],[1]),"
                   "([0,2],[1])}" % (6 if tier == "thorough" else 5), bound="mutants <= %d" % (6 if tier == "thorough" else 5))
    return guarded(p, _check_summary, tier, seed)


# ---------------------------------------------------------------------------------------------------------------
# bounded stand-ins for the first clause ("every assertion left ... holds when the test case is re-executed") and for the
# glue between the verification traces and the proved set-cover selection.
ATO = "pynguin.assertion.assertiontraceobserver"
_VERDICTS = ("hold", "fail", "error")


def _mk_assertion(kind, j):
    """An assertion over the namespace {v<j>: j, ...} with a known verdict (distinct per position)."""
    import pynguin.assertion.assertion as ass
    if kind == "hold":
        return ass.ObjectAssertion(f"v{j}", j)
    if kind == "fail":
        return ass.ObjectAssertion(f"v{j}", j + 100)
    return ass.CollectionLengthAssertion(f"v{j}", 1)      # len(int): TypeError


def _stmt(assertions, k=0):
    import libcst as cst
    import pynguin.testcase.testcase as tc
    return tc.Statement(node=cst.parse_module(f"s_{k} = {k}\n").body[0], bound_variable=f"s_{k}", bound_type=int,
                        assertions=list(assertions))


def _independent_verdict(assertion, namespace):
    """Oracle: render the assertion and evaluate it on a copy of the namespace."""
    import libcst as cst
    from pynguin.assertion.assertion_to_ast import assertion_to_cst
    node = assertion_to_cst(assertion)
    if node is None:
        return "unrendered"
    try:
        exec(compile(cst.Module(body=[node]).code, "<oracle>", "exec"), dict(namespace))  # noqa: S102
    except AssertionError:
        return "fail"
    except Exception:  # noqa: BLE001
        return "error"
    return "hold"


def _check_observer(part: Part, tier, seed):
    import pynguin.assertion.assertion as ass
    import pynguin.assertion.assertiontraceobserver as ato
    n_max = 5 if tier == "thorough" else 4
    ns0 = {f"v{j}": j for j in range(n_max)}
    for n in range(0, n_max + 1):
        for vec in itertools.product(_VERDICTS, repeat=n):
            for position in (0, 2):
                part.case(n > 0)
                obs = ato.RemoteAssertionVerificationObserver()
                obs._state.position = position   # noqa: SLF001
                st = _stmt([_mk_assertion(k, j) for j, k in enumerate(vec)])
                ns = dict(ns0)
                obs.after_statement_execution(st, None, ns, None)
                tr = obs._state.trace             # noqa: SLF001
                flagged = set(tr.failed.get(position, ())) | set(tr.error.get(position, ()))
                oracle = [_independent_verdict(a, ns0) for a in st.assertions]
                missed = [j for j, v in enumerate(oracle) if v in ("fail", "error") and j not in flagged]
                if missed or obs._state.position != position + 1:   # noqa: SLF001
                    part.violation("every assertion of the statement that does not hold in the verification execution is "
                                   "recorded (failed or error) at the statement's position",
                                   "observer-misses-nonholding:" + ("first-nonholding-only" if flagged and missed else "other"),
                                   {"assertion_verdicts": list(vec), "position": position, "recorded_failed": {k: list(v) for k, v in tr.failed.items()},
                                    "recorded_error": {k: list(v) for k, v in tr.error.items()}, "not_recorded": missed},
                                   target=f"{ATO}:RemoteAssertionVerificationObserver.after_statement_execution")
    # statements that carry only an exception assertion are judged against the exception the executor captured
    for raised, expected, want in ((None, "ValueError", "failed"), (KeyError("k"), "ValueError", "error"), (ValueError("v"), "ValueError", None)):
        part.case()
        obs = ato.RemoteAssertionVerificationObserver()
        st = _stmt([ass.ExceptionAssertion("builtins", expected)])
        obs.after_statement_execution(st, None, {}, raised)
        tr = obs._state.trace                     # noqa: SLF001
        got = "failed" if 0 in tr.failed.get(0, ()) else "error" if 0 in tr.error.get(0, ()) else None
        if (want is None) != (got is None):
            part.violation("an exception assertion that does not hold (no exception, or another one) is recorded",
                           "observer-exception-assertion", {"raised": repr(raised), "expected": expected, "recorded": got},
                           target=f"{ATO}:RemoteAssertionVerificationObserver.after_statement_execution")


def bounded_observer(tier, seed):
    p = Part("C21", "verification-observer", [f"{ATO}:RemoteAssertionVerificationObserver.after_statement_execution"],
             scope="the real observer on one statement carrying every vector of <= 4 (thorough 5) assertions with verdicts in "
                   "{holds, fails, raises} at positions 0 and 2, plus the three exception-assertion cases; oracle: each rendered "
                   "assertion evaluated independently on a copy of the namespace", bound="assertions per statement <= 4 (5)")
    return guarded(p, _check_observer, tier, seed)


def _subsets(n):
    return itertools.chain.from_iterable(itertools.combinations(range(n), r) for r in range(n + 1))


def _check_remove(part: Part, tier, seed):
    import pynguin.assertion.assertiongenerator as ag
    import pynguin.testcase.testcase as tc
    from pynguin.assertion.assertion_trace import AssertionVerificationTrace
    from pynguin.testcase.execution_result import ExecutionResult
    remove = ag.AssertionGenerator._AssertionGenerator__remove_non_holding_assertions   # noqa: SLF001
    n_max = 4 if tier == "thorough" else 3
    for n0, n1 in itertools.product(range(n_max + 1), range(0, 3)):
        for f0 in _subsets(n0):
            for e0 in _subsets(n0):
                for f1 in _subsets(n1):
                    part.case(n0 > 0)
                    t = tc.TestCase()
                    a0 = [_mk_assertion("hold", j) for j in range(n0)]
                    a1 = [_mk_assertion("hold", 10 + j) for j in range(n1)]
                    t.add_statement(_stmt(a0, 0))
                    t.add_statement(_stmt(a1, 1))
                    tr = AssertionVerificationTrace()
                    for j in f0:
                        tr.failed[0].add(j)
                    for j in e0:
                        tr.error[0].add(j)
                    for j in f1:
                        tr.failed[1].add(j)
                    res = ExecutionResult()
                    res.assertion_verification_trace = tr
                    remove(t, res)
                    exp0 = [a for j, a in enumerate(a0) if j not in f0 and j not in e0]
                    exp1 = [a for j, a in enumerate(a1) if j not in f1]
                    got0, got1 = t.statements()[0].assertions, t.statements()[1].assertions
                    bad0 = [j for j, a in enumerate(a0) if (j in f0 or j in e0) and any(a is g for g in got0)]
                    bad1 = [j for j, a in enumerate(a1) if j in f1 and any(a is g for g in got1)]
                    if bad0 or bad1:
                        part.violation("every assertion the verification trace reports as failed or erroneous is removed from its statement",
                                       "nonholding-kept", {"assertions": [n0, n1], "failed": {"0": list(f0), "1": list(f1)}, "error": {"0": list(e0)},
                                                           "kept_although_reported": {"0": bad0, "1": bad1}},
                                       target=f"{AG}:AssertionGenerator.__remove_non_holding_assertions")
                    elif [id(a) for a in got0] != [id(a) for a in exp0] or [id(a) for a in got1] != [id(a) for a in exp1]:
                        part.violation("exactly the reported assertions are removed (the others stay, in order)", "holding-removed",
                                       {"assertions": [n0, n1], "failed": {"0": list(f0), "1": list(f1)}, "error": {"0": list(e0)},
                                        "kept": [len(got0), len(got1)], "expected_kept": [len(exp0), len(exp1)]},
                                       target=f"{AG}:AssertionGenerator.__remove_non_holding_assertions")


def bounded_remove(tier, seed):
    p = Part("C21", "remove-non-holding", [f"{AG}:AssertionGenerator.__remove_non_holding_assertions"],
             scope="two statements with <= 3 (thorough 4) and <= 2 pairwise different assertions, every pair of failed/error index "
                   "sets for the first and every failed set for the second", bound="assertions per statement <= 3 (4)")
    return guarded(p, _check_remove, tier, seed)


def _check_glue(part: Part, tier, seed):
    """The glue between verification traces and the proved selection: after __remove_non_relevant_assertions (with and without
    minimization) the kept assertions still kill (through the same traces) every non-timed-out mutant the full set killed."""
    import random
    import pynguin.assertion.assertiongenerator as ag
    import pynguin.configuration as config
    import pynguin.testcase.testcase as tc
    from pynguin.assertion.assertion_trace import AssertionVerificationTrace
    from pynguin.testcase.execution_result import ExecutionResult
    rel = ag.MutationAnalysisAssertionGenerator._MutationAnalysisAssertionGenerator__remove_non_relevant_assertions   # noqa: SLF001
    rng = random.Random(seed)
    rounds = 1500 if tier == "thorough" else 400
    saved = config.configuration.test_case_output.assertion_minimization
    try:
        for r in range(rounds):
            part.case()
            minimize = bool(r % 2)
            config.configuration.test_case_output.assertion_minimization = minimize
            n_stmts, n_mut = rng.randint(1, 3), rng.randint(0, 5)
            sizes = [rng.randint(0, 3) for _ in range(n_stmts)]
            t = tc.TestCase()
            originals = []
            for k, sz in enumerate(sizes):
                a = [_mk_assertion("hold", 10 * k + j) for j in range(sz)]
                originals.append(a)
                t.add_statement(_stmt(a, k))
            infos, results, kills = [], [], {}
            for m in range(n_mut):
                timed = rng.random() < 0.2
                infos.append(ag._MutantInfo(m, timed_out_by=[0] if timed else [], killed_by=[]))   # noqa: SLF001
                if rng.random() < 0.15:
                    results.append(None)
                    continue
                tr = AssertionVerificationTrace()
                for k, sz in enumerate(sizes):
                    for j in range(sz):
                        if rng.random() < 0.3:
                            (tr.failed if rng.random() < 0.7 else tr.error)[k].add(j)
                            if not timed:
                                kills.setdefault((k, j), set()).add(m)
                res = ExecutionResult()
                res.assertion_verification_trace = tr
                results.append(res)
            rel([t], [results], ag._MutationSummary(infos))    # noqa: SLF001
            kept = {(k, j) for k, a in enumerate(originals) for j, x in enumerate(a) if any(x is g for g in t.statements()[k].assertions)}
            all_killed = set().union(*kills.values()) if kills else set()
            kept_killed = set().union(*[v for key, v in kills.items() if key in kept]) if kills else set()
            if kept_killed != all_killed:
                part.violation("the kept assertions together still kill every mutant killed by the full set",
                               "kills-lost:" + ("minimization" if minimize else "relevance-filter"),
                               {"minimization": minimize, "assertions_per_statement": sizes,
                                "kill_map": {f"{k}": sorted(v) for k, v in sorted(kills.items())}, "kept": sorted(kept),
                                "lost_mutants": sorted(all_killed - kept_killed)},
                               target=f"{AG}:MutationAnalysisAssertionGenerator.__minimize_assertions")
            extra = [len(s.assertions) - sum(1 for x in originals[k] if any(x is g for g in s.assertions)) for k, s in enumerate(t.statements())]
            if any(extra):
                part.violation("assertion minimization keeps a subset of the assertions", "not-a-subset",
                               {"assertions_per_statement": sizes, "foreign_assertions": extra},
                               target=f"{AG}:MutationAnalysisAssertionGenerator.__minimize_assertions")
    finally:
        config.configuration.test_case_output.assertion_minimization = saved


def bounded_glue(tier, seed):
    p = Part("C21", "traces-to-kill-map", [f"{AG}:MutationAnalysisAssertionGenerator.__remove_non_relevant_assertions",
                                           f"{AG}:MutationAnalysisAssertionGenerator.__minimize_assertions",
                                           f"{AG}:MutationAnalysisAssertionGenerator.__build_kill_map"],
             scope="400 (thorough 1500) seeded random histories: 1-3 statements with 0-3 assertions, 0-5 mutants (timed out with "
                   "p=0.2, unchecked with p=0.15), each assertion violated on each mutant with p=0.3; both settings of "
                   "assertion_minimization", bound="sampled, not exhaustive")
    return guarded(p, _check_glue, tier, seed)


_E2E_MODULE = "c21_tickets"
_E2E_SOURCE = '''
import itertools

_serial = itertools.count(1)
_calls = []


class Ticket:
    def __init__(self, price):
        self.number = next(_serial)
        self.label = "T-" + str(self.number)
        self.price = price + 1
        self.tax = price * 2


def issue(price):
    return Ticket(price)


def visits(tag):
    _calls.append(tag)
    return len(_calls)


def total(a, b):
    return a + b
'''


def _check_e2e(part: Part, tier, seed):
    import ast as _ast, importlib, inspect, logging, shutil, sys, tempfile  # noqa: E401
    from pathlib import Path
    import libcst as cst
    import pytest
    import pynguin.assertion.assertiongenerator as ag
    import pynguin.assertion.mutation_analysis.mutators as mu
    import pynguin.assertion.mutation_analysis.operators as mo
    import pynguin.configuration as config
    import pynguin.ga.testcasechromosome as tcc
    import pynguin.ga.testsuitechromosome as tsc
    import pynguin.testcase.testcase as tc
    from pynguin.assertion.assertion_to_ast import assertion_to_cst
    from pynguin.assertion.mutation_analysis.controller import MutationController
    from pynguin.assertion.mutation_analysis.transformer import ParentNodeTransformer
    from pynguin.instrumentation.machinery import install_import_hook
    from pynguin.instrumentation.tracer import SubjectProperties
    from pynguin.testcase.execution import TestCaseExecutor
    from pynguin.utils.naming import get_module_alias
    logging.disable(logging.CRITICAL)
    workdir = Path(tempfile.mkdtemp(prefix="c21_"))
    (workdir / f"{_E2E_MODULE}.py").write_text(_E2E_SOURCE)
    sys.path.insert(0, str(workdir))
    saved = (config.configuration.module_name, config.configuration.test_case_output.assertion_minimization)
    config.configuration.module_name = _E2E_MODULE
    alias = get_module_alias(_E2E_MODULE)
    sp = SubjectProperties()
    hook = install_import_hook(_E2E_MODULE, sp)
    hook.__enter__()
    try:
        with sp.instrumentation_tracer:
            sys.modules.pop(_E2E_MODULE, None)
            module = importlib.import_module(_E2E_MODULE)

        def stmt(code, var, typ=None):
            return tc.Statement(node=cst.parse_module(code + "\n").body[0], bound_variable=var, bound_type=typ)
        blocks = {
            "issue": [("int_0 = 41", "int_0", int), (f"ticket_0 = {alias}.issue(int_0)", "ticket_0", None)],
            "visits": [("str_0 = 'a'", "str_0", str), (f"int_1 = {alias}.visits(str_0)", "int_1", None)],
            "total": [("int_2 = 3", "int_2", int), (f"int_3 = {alias}.total(int_2, int_2)", "int_3", None)],
            "issue2": [("int_4 = 7", "int_4", int), (f"ticket_1 = {alias}.issue(int_4)", "ticket_1", None)],
        }
        combos = [c for r in (1, 2, 3) for c in itertools.permutations(blocks, r)]
        if tier != "thorough":
            combos = [c for c in combos if len(c) <= 2]

        def make(label, executor):
            if label == "plain":
                return ag.AssertionGenerator(executor)
            module_ast = ParentNodeTransformer.create_ast(inspect.getsource(module))
            controller = MutationController(mu.FirstOrderMutator([mo.ArithmeticOperatorReplacement, mo.ConstantReplacement]),
                                            module_ast, module)
            return ag.MutationAnalysisAssertionGenerator(executor, controller)
        for combo in combos:
            for label, minim in (("plain", False), ("mutation-analysis", False), ("mutation-analysis", True)):
                part.case()
                config.configuration.test_case_output.assertion_minimization = minim
                gen = make(label, TestCaseExecutor(sp))
                t = tc.TestCase()
                for b in combo:
                    for code, var, typ in blocks[b]:
                        t.add_statement(stmt(code, var, typ))
                suite = tsc.TestSuiteChromosome()
                suite.add_test_case_chromosome(tcc.TestCaseChromosome(t))
                suite.accept(gen)
                # independent re-execution on the unmutated module
                ns = {"__builtins__": __builtins__, "pytest": pytest, alias: module}
                violated = []
                with sp.instrumentation_tracer:
                    for s in t.statements():
                        exec(cst.Module(body=[s.node]).code, ns)  # noqa: S102
                        for a in s.assertions:
                            node = assertion_to_cst(a)
                            if node is None:
                                continue
                            code = cst.Module(body=[node]).code.strip()
                            try:
                                exec(code, ns)  # noqa: S102
                            except BaseException as e:  # noqa: BLE001
                                violated.append(f"{code} -> {type(e).__name__}")
                if violated:
                    part.violation("every assertion left on a test case after assertion generation holds when the test case is "
                                   "re-executed on the unmutated module", f"kept-assertion-fails:{label}",
                                   {"generator": label, "assertion_minimization": minim, "blocks": list(combo),
                                    "test": [cst.Module(body=[s.node]).code.strip() for s in t.statements()],
                                    "kept_assertions_that_fail": violated},
                                   target=f"{AG}:AssertionGenerator._add_assertions")
    finally:
        hook.__exit__(None, None, None)
        sys.modules.pop(_E2E_MODULE, None)
        sys.path.remove(str(workdir))
        shutil.rmtree(workdir, ignore_errors=True)
        config.configuration.module_name, config.configuration.test_case_output.assertion_minimization = saved
        logging.disable(logging.NOTSET)


def bounded_e2e(tier, seed):
    p = Part("C21", "generation-then-reexecution", [f"{AG}:AssertionGenerator._add_assertions", f"{AG}:AssertionGenerator.__remove_non_holding_assertions",
                                                    f"{ATO}:RemoteAssertionVerificationObserver.after_statement_execution",
                                                    f"{AG}:MutationAnalysisAssertionGenerator._handle_add_assertions"],
             scope="real AssertionGenerator and MutationAnalysisAssertionGenerator (first-order arithmetic/constant mutants, with and "
                   "without assertion minimization) with a real instrumented executor on a module whose results depend on a "
                   "module-level counter (two and more non-holding assertions per statement) next to stable ones; every ordered "
                   "selection of <= 2 (thorough 3) of 4 call blocks as the test case; afterwards the test case is re-executed by an "
                   "independent evaluator and every kept assertion must hold",
             bound="16 (40) test cases x 3 generator configurations")
    return guarded(p, _check_e2e, tier, seed)


def _check_select_sampled(part: Part, tier, seed):
    """The contract of _select_minimal_assertions on sampled kill maps that are larger than the native search's default scope
    (up to 6 assertions over 8 mutants): needed when a change takes the function out of the verifier's subset."""
    import random
    from pynguin.assertion.assertiongenerator import _select_minimal_assertions
    rnd = random.Random(seed)
    n = 300000 if tier == "thorough" else 40000
    for _ in range(n):
        nk = rnd.randint(2, 6)
        km = {(i // 2, i % 2): set(rnd.sample(range(8), rnd.randint(0, 4))) for i in rnd.sample(range(8), nk)}
        part.case(any(km.values()))
        snapshot = {k: set(v) for k, v in km.items()}
        try:
            kept = _select_minimal_assertions(km)
        except Exception as e:  # noqa: BLE001
            part.violation("_select_minimal_assertions returns for every kill map", "select-raises",
                           {"kill_map": repr(snapshot), "error": f"{type(e).__name__}: {e}"[:200]}, target=F)
            return
        all_killed = set().union(*snapshot.values()) if snapshot else set()
        kept_killed = set().union(*[snapshot[k] for k in kept if k in snapshot]) if kept else set()
        bad = None
        if not set(kept) <= set(snapshot):
            bad = "a kept key is not an assertion of the kill map"
        elif kept_killed != all_killed:
            bad = "the kept assertions do not kill every mutant the full set kills"
        elif any(not snapshot[k] for k in kept):
            bad = "an assertion that kills nothing is kept"
        elif km != snapshot:
            bad = "the kill map was changed"
        if bad:
            part.violation("the kept assertions kill exactly the mutants the full assertion set kills", "select-minimal",
                           {"kill_map": repr(snapshot), "kept": repr(sorted(kept)), "lost_mutants": sorted(all_killed - kept_killed), "what": bad},
                           target=F)
            return


def bounded_select(tier, seed):
    p = Part("C21", "select-minimal-sampled", [F],
             scope="%d seeded random kill maps (2-6 assertions, kill sets of 0-4 out of 8 mutants) against the function's contract; the "
                   "unbounded statement is the proof of the same function" % (300000 if tier == "thorough" else 40000),
             bound="assertions <= 6, mutants <= 8; sampled, not exhaustive")
    return guarded(p, _check_select_sampled, tier, seed)


BOUNDED = [bounded_summary, bounded_observer, bounded_remove, bounded_glue, bounded_e2e, bounded_select]
