"""C21 — kept assertions hold on the original module and preserve mutant kills."""
from __future__ import annotations

import itertools

from pyvc.bounded import Part, guarded
from pyvc.contracts import contract, for_property, klass, loop, predicate, value_type

for_property("C21")
AG = "pynguin.assertion.assertiongenerator"

value_type("AKey")      # an assertion key (stmt_idx, assertion_idx): abstract value with structural equality
klass(f"{AG}:_MutationMetrics", fields={"num_created_mutants": "int", "num_killed_mutants": "int",
                                        "num_timeout_mutants": "int"})

# -- the mutation score ------------------------------------------------------------------------------------------
contract(f"{AG}:_MutationMetrics.get_score",
         requires=["self.num_killed_mutants >= 0", "self.num_timeout_mutants >= 0",
                   "self.num_killed_mutants + self.num_timeout_mutants <= self.num_created_mutants"],
         ensures=["0 <= result and result <= 1",
                  "implies(self.num_created_mutants == self.num_timeout_mutants, result == 1)",
                  "implies(self.num_created_mutants != self.num_timeout_mutants, "
                  "        result == real(self.num_killed_mutants) / real(self.num_created_mutants - self.num_timeout_mutants))"])

# -- greedy set cover + pruning: the kept assertions kill exactly the mutants the full set kills ----------------
predicate("killed_by_some(km, ks, m)", "any(m in km[k] for k in ks)")
SIG = {"kill_map": "dict[AKey, set[int]]"}
contract(f"{AG}:_select_minimal_assertions", sig=SIG, returns="set[AKey]", type_map={"tuple[int, int]": "AKey"},
         ensures=["result <= keys(kill_map)",
                  "forall(lambda m: killed_by_some(kill_map, keys(kill_map), m) == killed_by_some(kill_map, result, m), 'int')",
                  "all(kill_map[k] != set() for k in result)"])
F = f"{AG}:_select_minimal_assertions"
loop(F, 0, invariant=["forall(lambda m: (m in universe) == any(m in kill_map[k] for k in _done), 'int')"])
INV_COMMON = [
    "forall(lambda m: (m in universe) == killed_by_some(kill_map, keys(kill_map), m), 'int')",
    "keep <= keys(kill_map)",
    "all(kill_map[k] != set() for k in keep)",
]
loop(F, 1, invariant=INV_COMMON + [
    "forall(lambda m: (m in uncovered) == ((m in universe) and not killed_by_some(kill_map, keep, m)), 'int')",
    "forall(lambda k: (k in candidates) == ((k in kill_map) and kill_map[k] != set() and k not in keep), 'AKey')",
    "all(same(candidates[k], kill_map[k]) for k in keys(candidates))",
], decreases="len(uncovered)")
loop(F, 2, invariant=[
    "(best_key is None) == (best_cover == 0)", "best_cover >= 0",
    "implies(best_key is not None, best_key in candidates and "
    "        any(m in candidates[best_key] and m in uncovered for m in universe))",
    # every key processed so far whose kill set meets `uncovered` made best_key non-None
    "implies(best_key is None, all(disjoint(candidates[_seq[j]], uncovered) for j in range(_i)))",
], exit_asserts=[
    # every candidate key was visited (sorted() is a permutation of the keys) ...
    "all(any(_seq[j] == k for j in range(_n)) for k in keys(candidates))",
    # ... so if nothing was picked, no candidate kills an uncovered mutant
    "implies(best_key is None, all(disjoint(candidates[k], uncovered) for k in keys(candidates)))",
])
loop(F, 3, invariant=INV_COMMON + [
    "forall(lambda m: implies(m in universe, killed_by_some(kill_map, keep, m)), 'int')"])
loop(F, 4, invariant=[
    "forall(lambda m: (m in others) == any(m in kill_map[o] and o != key for o in _done), 'int')"])


# ---------------------------------------------------------------------------------------------------------------
# bounded stand-in: the mutation summary (partition of mutants, score in [0, 1], time-outs and unchecked mutants
# ignored).  The three list comprehensions with *different* filters cannot be summed by the SMT back end (that
# needs induction over the list), so this part is an exhaustive small-scope run of the real classes.
def _check_summary(part: Part, tier, seed):
    from pynguin.assertion.assertiongenerator import _MutantInfo, _MutationSummary
    n_max = 6 if tier == "thorough" else 5
    shapes = [([], []), ([0], []), ([], [1]), ([0], [1]), ([0, 2], [1])]
    for n in range(0, n_max + 1):
        for combo in itertools.product(range(len(shapes)), repeat=n):
            part.case(n > 0)
            infos = [_MutantInfo(i, timed_out_by=list(shapes[c][1]), killed_by=list(shapes[c][0])) for i, c in enumerate(combo)]
            s = _MutationSummary(infos)
            killed, timeout, survived = s.get_killed(), s.get_timeout(), s.get_survived()
            ids = lambda xs: [x.mut_num for x in xs]   # noqa: E731
            detail = {"mutants(killed_by,timed_out_by)": [shapes[c] for c in combo], "killed": ids(killed),
                      "timeout": ids(timeout), "survived": ids(survived)}
            if sorted(ids(killed) + ids(timeout) + ids(survived)) != list(range(n)):
                part.violation("killed, timed-out and survived mutants partition the checked mutants",
                               "summary-partition", detail, target=f"{AG}:_MutationSummary.get_killed")
            if any(x.timed_out_by for x in killed) or any(not x.killed_by for x in killed):
                part.violation("a timed-out mutant is never counted as killed", "killed-includes-timeout", detail,
                               target=f"{AG}:_MutationSummary.get_killed")
            m = s.get_metrics()
            try:
                score = m.get_score()
            except AssertionError as e:
                part.violation("get_score never fails", "score-raises", {**detail, "exception": repr(e)},
                               target=f"{AG}:_MutationMetrics.get_score")
                continue
            exp = 1.0 if n - len(timeout) == 0 else len([c for c in combo if shapes[c][0] and not shapes[c][1]]) / (n - len(timeout))
            if not (0.0 <= score <= 1.0) or abs(score - exp) > 1e-12:
                part.violation("mutation score lies in [0,1] and ignores timed-out mutants", "score-range",
                               {**detail, "score": score, "expected": exp}, target=f"{AG}:_MutationSummary.get_metrics")


def bounded_summary(tier, seed):
    p = Part("C21", "mutation-summary", [f"{AG}:_MutationSummary.get_killed/get_timeout/get_survived/get_metrics"],
             scope="all lists of <= %d mutants, each with (killed_by, timed_out_by) in {([],[]),([0],[]),([],[1]),([0],[1]),"
                   "([0,2],[1])}" % (6 if tier == "thorough" else 5), bound="mutants <= %d" % (6 if tier == "thorough" else 5))
    return guarded(p, _check_summary, tier, seed)


BOUNDED = [bounded_summary]
