"""C34 — ordered sets behave as insertion-ordered sets and sequences.

Two parts:
 * deductive (pyvc): the methods whose bodies are loops/comprehensions over the backing dict, with the dict
   modelled as an ordered map (member set + rank) and `Iterable` arguments as possibly one-shot sequences;
 * bounded stand-in (labelled bounded, never counted as proved): the real classes against the reference model
   "duplicate-free list" over an exhaustive small scope, for the methods that go through itertools /
   varargs / self.__class__ which the verifier's subset does not admit.
"""
from __future__ import annotations

import itertools

from pyvc.bounded import Part, guarded
from pyvc.contracts import contract, for_property, klass, loop, predicate

for_property("C34")
OS = "pynguin.utils.orderedset"

META = {
    "level": "other",
    "explanation": "bounded contract check of the real OrderedSet/FrozenOrderedSet against the reference model "
                   "(duplicate-free list) over an exhaustive small scope; see bounded_parts for the bound",
    "rule": "one case = (initial ordered set over {0,1,2}, operation, argument value, argument kind); non-trivial = the "
            "argument or the set is non-empty",
    "trusted": ["the reference model in contracts/c34.py (25 lines)"],
}


# ---------------------------------------------------------------------------------------------------------------
# reference model: a duplicate-free list in first-insertion order
def m_from(it):
    out = []
    for x in it:
        if x not in out:
            out.append(x)
    return out


def m_union(a, *bs):
    return m_from(list(a) + [x for b in bs for x in b])


def m_inter(a, *bs):
    return [x for x in a if all(x in b for b in bs)]


def m_diff(a, *bs):
    return [x for x in a if not any(x in b for b in bs)]


def m_symdiff(a, b):
    b = m_from(b)
    return [x for x in a if x not in b] + [x for x in b if x not in a]


KINDS = ["list", "tuple", "set", "OrderedSet", "iterator", "generator", "dictkeys"]


def mk_arg(kind, vals_, OrderedSet):
    """An iterable of the given kind holding vals_ (in that order)."""
    if kind == "list":
        return list(vals_)
    if kind == "tuple":
        return tuple(vals_)
    if kind == "set":
        return set(vals_)
    if kind == "OrderedSet":
        return OrderedSet(vals_)
    if kind == "iterator":
        return iter(list(vals_))
    if kind == "generator":
        return (x for x in list(vals_))
    if kind == "dictkeys":
        return dict.fromkeys(vals_).keys()
    raise ValueError(kind)


def arg_model(kind, vals_):
    """Iteration order of the argument as the reference model sees it (sets: any order -> only used as a set)."""
    return m_from(vals_)


def _scope(tier):
    elems = [0, 1, 2]
    states = [list(p) for n in range(0, 4) for p in itertools.permutations(elems, n)]          # 16 ordered sets
    argvals = [list(p) for n in range(0, 3) for p in itertools.product([0, 1, 2, 3], repeat=n)]  # 21 sequences
    if tier == "thorough":
        argvals = [list(p) for n in range(0, 4) for p in itertools.product([0, 1, 2, 3], repeat=n)]
    return states, argvals


def _check(part: Part, tier, seed):
    from pynguin.utils.orderedset import FrozenOrderedSet, OrderedSet
    states, argvals = _scope(tier)

    def fail(clause, cls, **detail):
        part.violation(clause, cls, {k: repr(v) for k, v in detail.items()}, target=f"{OS}:OrderedSet")

    # ---- sequence protocol / queries on every state
    for st in states:
        s = OrderedSet(st)
        part.case(bool(st))
        if list(s) != st:
            fail("iteration is first-insertion order", "iter", state=st, got=list(s))
        if len(s) != len(st):
            fail("len", "len", state=st, got=len(s))
        for x in range(-1, 4):
            if (x in s) != (x in st):
                fail("membership", "contains", state=st, x=x)
        for i in range(-len(st) - 1, len(st) + 1):
            part.case(bool(st))
            try:
                exp = ("ok", st[i])
            except IndexError:
                exp = ("IndexError", None)
            try:
                got = ("ok", s[i])
            except IndexError:
                got = ("IndexError", None)
            if got != exp:
                fail("sequence protocol: s[i] as for a list, incl. negative indices",
                     "negative-index" if i < 0 else "index", state=st, index=i, expected=exp, got=got)
        if list(reversed(s)) != list(reversed(st)):
            fail("reversed", "reversed", state=st, got=list(reversed(s)))
        for st2 in states:
            if (s == OrderedSet(st2)) != (st == st2):
                fail("equality is order-sensitive sequence equality", "eq", a=st, b=st2)
        f = FrozenOrderedSet(st)
        if list(f) != st or hash(f) != hash(FrozenOrderedSet(list(reversed(st)))):
            fail("frozen: same order; equal member sets hash equal", "frozen", state=st)

    # ---- constructors and operations with every kind of iterable argument
    for vals_ in argvals:
        for kind in KINDS:
            part.case(bool(vals_))
            got = list(OrderedSet(mk_arg(kind, vals_, OrderedSet)))
            exp = m_from(vals_)
            if (sorted(got) != sorted(exp)) if kind == "set" else (got != exp):
                fail("constructor keeps first-insertion order", f"ctor-{kind}", vals=vals_, got=got)
    pure_ops = {
        "union": (lambda s, a: s.union(a), m_union, True),
        "intersection": (lambda s, a: s.intersection(a), m_inter, False),
        "difference": (lambda s, a: s.difference(a), m_diff, False),
        "symmetric_difference": (lambda s, a: s.symmetric_difference(a), m_symdiff, True),
        "__or__": (lambda s, a: s | a, m_union, True),
        "__and__": (lambda s, a: s & a, m_inter, False),
        "__xor__": (lambda s, a: s ^ a, m_symdiff, True),
    }
    mut_ops = {
        "update": (lambda s, a: s.update(a), m_union, True),
        "difference_update": (lambda s, a: s.difference_update(a), m_diff, False),
        "intersection_update": (lambda s, a: s.intersection_update(a), m_inter, False),
        "symmetric_difference_update": (lambda s, a: s.symmetric_difference_update(a), m_symdiff, True),
    }
    for st in states:
        for vals_ in argvals:
            for kind in KINDS:
                unordered = kind == "set"
                for name, (op, model, uses_arg_order) in {**pure_ops, **mut_ops}.items():
                    part.case(bool(st) or bool(vals_))
                    s = OrderedSet(st)
                    arg = mk_arg(kind, vals_, OrderedSet)
                    exp = model(st, arg_model(kind, vals_))
                    try:
                        r = op(s, arg)
                        got = list(s) if name in mut_ops else list(r)
                    except Exception as e:  # noqa: BLE001
                        fail(f"{name}: accepts any iterable", f"{name}-raises-{kind}", state=st, arg=vals_, kind=kind,
                             exception=f"{type(e).__name__}: {e}")
                        continue
                    ok = (set(got) == set(exp) and len(got) == len(exp) and
                          [x for x in got if x in st] == [x for x in exp if x in st]) if (unordered and uses_arg_order) \
                        else got == exp
                    if not ok:
                        cls = f"{name}-oneshot" if kind in ("iterator", "generator") else f"{name}-{kind}"
                        fail(f"{name}: same elements as the mathematical set operation, first-insertion order "
                             "(self's elements first)", cls, state=st, arg=vals_, kind=kind, expected=exp, got=got)
                    if name in pure_ops and list(s) != st:
                        fail(f"{name}: leaves self unchanged", f"{name}-mutates-self", state=st, arg=vals_, kind=kind)
                # subset / superset
                for name, op, exp in (("issubset", lambda s, a: s.issubset(a), set(st) <= set(vals_)),
                                      ("issuperset", lambda s, a: s.issuperset(a), set(st) >= set(vals_))):
                    part.case(bool(st) or bool(vals_))
                    try:
                        got = op(OrderedSet(st), mk_arg(kind, vals_, OrderedSet))
                    except Exception as e:  # noqa: BLE001
                        fail(f"{name}: accepts any iterable", f"{name}-raises-{kind}", state=st, arg=vals_, kind=kind,
                             exception=f"{type(e).__name__}: {e}")
                        continue
                    if got != exp:
                        cls = f"{name}-oneshot" if kind in ("iterator", "generator") else f"{name}-{kind}"
                        fail(f"{name}: the set-theoretic answer", cls, state=st, arg=vals_, kind=kind, expected=exp, got=got)
        # element operations and aliasing (argument is the set itself)
        for x in range(0, 4):
            part.case(True)
            s = OrderedSet(st)
            s.add(x)
            if list(s) != m_union(st, [x]):
                fail("add appends a new element, keeps an existing one in place", "add", state=st, x=x, got=list(s))
            s = OrderedSet(st)
            s.discard(x)
            if list(s) != [y for y in st if y != x]:
                fail("discard removes exactly x", "discard", state=st, x=x, got=list(s))
        for name, exp in (("update", st), ("difference_update", []), ("intersection_update", st),
                          ("symmetric_difference_update", [])):
            part.case(bool(st))
            s = OrderedSet(st)
            try:
                getattr(s, name)(s)
                if list(s) != exp:
                    fail(f"{name} with the set itself as argument", f"{name}-alias", state=st, expected=exp, got=list(s))
            except Exception as e:  # noqa: BLE001
                fail(f"{name} with the set itself as argument", f"{name}-alias", state=st,
                     exception=f"{type(e).__name__}: {e}")
        s = OrderedSet(st)
        s.clear()
        if list(s) != []:
            fail("clear", "clear", state=st)

    # ---- short histories of mutating operations against the model
    hist_ops = [("add", [0]), ("add", [3]), ("discard", [1]), ("update", [2, 3, 0]), ("difference_update", [0, 3]),
                ("intersection_update", [1, 2, 3]), ("symmetric_difference_update", [3, 1])]
    depth = 3 if tier == "thorough" else 2
    for st in states[::3]:
        for seq in itertools.product(range(len(hist_ops)), repeat=depth):
            part.case(True)
            s, m = OrderedSet(st), list(st)
            for oi in seq:
                nm, a = hist_ops[oi]
                if nm == "add":
                    s.add(a[0]); m = m_union(m, a)
                elif nm == "discard":
                    s.discard(a[0]); m = [y for y in m if y != a[0]]
                elif nm == "update":
                    s.update(iter(a)); m = m_union(m, a)
                elif nm == "difference_update":
                    s.difference_update(iter(a)); m = m_diff(m, a)
                elif nm == "intersection_update":
                    s.intersection_update(iter(a)); m = m_inter(m, a)
                else:
                    s.symmetric_difference_update(iter(a)); m = m_symdiff(m, a)
            if list(s) != m:
                fail("operation history agrees with the reference model", "history", state=st,
                     ops=[hist_ops[i] for i in seq], expected=m, got=list(s))


def bounded_orderedset(tier, seed):
    states, argvals = _scope(tier)
    p = Part("C34", "orderedset-vs-reference-model",
             [f"{OS}:_AbstractOrderedSet.*", f"{OS}:OrderedSet.*", f"{OS}:FrozenOrderedSet.__hash__"],
             scope=f"all {len(states)} ordered sets over {{0,1,2}} x all {len(argvals)} argument sequences over {{0,1,2,3}} "
                   f"(length <= {2 if tier != 'thorough' else 3}) x argument kinds {KINDS} x every public operation; indices "
                   "-len-1..len; self-aliasing arguments; operation histories of length "
                   f"{3 if tier == 'thorough' else 2} from 7 operations",
             bound="elements 0..3, set size <= 3, argument length <= %d" % (3 if tier == "thorough" else 2))
    return guarded(p, _check, tier, seed)


BOUNDED = [bounded_orderedset]


def classify(g):
    return g.get("class", "")
