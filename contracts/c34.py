"""C34 — ordered sets behave as insertion-ordered sets and sequences.

Two parts:
 * deductive (pyvc): the methods that work on the backing dict directly, with the dict modelled as an ordered map
   (member set + insertion rank; iteration follows the rank) and `Iterable` arguments as re-iterable sequences;
 * bounded stand-in (labelled bounded, never counted as proved): the real classes against the reference model
   "duplicate-free list" over an exhaustive small scope, for the methods that go through itertools /
   varargs / self.__class__ which the verifier's subset does not admit.
"""
from __future__ import annotations

import itertools

from pyvc.bounded import Part, guarded
from pyvc.contracts import contract, for_property, klass, loop, predicate

for_property("C34")
OS = "pynguin.utils.orderedset"

META = {
    "level": "proof",
    "explanation": "deductive proofs of the methods that work on the backing dict (dict = finite map + insertion rank); the other "
                   "operations and one-shot / self-aliasing arguments by the bounded contract check against the reference model "
                   "(duplicate-free list) over an exhaustive small scope, see bounded_parts",
    "rule": "obligations: one per contract clause / loop invariant / raise site; bounded part: one case = (initial ordered set over "
            "{0,1,2}, operation, argument value, argument kind); non-trivial = the argument or the set is non-empty",
    "trusted": ["the reference model in contracts/c34.py (25 lines)"],
}


# ---------------------------------------------------------------------------------------------------------------
# deductive part: the backing dict as an ordered map (member set + rank; iteration follows the rank)
from pyvc.contracts import assumption, value_type  # noqa: E402

value_type("Elem")
klass(f"{OS}:_AbstractOrderedSet", fields={"_items": "odict[Elem,None]"})
klass(f"{OS}:OrderedSet", fields={}, bases=["_AbstractOrderedSet"])
assumption("A-ODICT: a dict is a finite map with an insertion rank: storing a new key ranks it above every existing key, storing an "
           "existing key, deleting another key and filtering by a dict comprehension over the dict itself keep the relative ranks; "
           "iteration (keys(), iter, list, enumerate) visits every key exactly once in increasing rank")
assumption("elements are hashable values whose == and hash agree with identity of the abstract value (type Elem)")

contract(f"{OS}:_AbstractOrderedSet.__len__", sig={"self": "_AbstractOrderedSet"}, returns="int",
         ensures=["result == len(self._items)"])
contract(f"{OS}:_AbstractOrderedSet.__contains__", sig={"self": "_AbstractOrderedSet", "key": "Elem"}, returns="bool",
         ensures=["result == (key in self._items)"])
contract(f"{OS}:_AbstractOrderedSet.__getitem__", sig={"self": "_AbstractOrderedSet", "index": "int"}, returns="Elem",
         raises={"IndexError": "not (-len(self._items) <= index < len(self._items))"},
         ensures=["-len(self._items) <= index < len(self._items)",
                  "result is list(self._items)[index if index >= 0 else index + len(self._items)]"])
loop(f"{OS}:_AbstractOrderedSet.__getitem__", 0, invariant=["not (0 <= index < _i)"])

ORDER_KEPT = ("all(all(implies(a in self._items and b in self._items, (rank(self._items, a) < rank(self._items, b)) == "
              "(rank(old(self._items), a) < rank(old(self._items), b))) for b in keys(old(self._items))) for a in keys(old(self._items)))")
contract(f"{OS}:OrderedSet.add", sig={"self": "OrderedSet", "value": "Elem"}, modifies=["self._items"],
         ensures=["keys(self._items) == keys(old(self._items)) | {value}", ORDER_KEPT,
                  "implies(value not in old(self._items), all(rank(self._items, a) < rank(self._items, value) for a in keys(old(self._items))))"])
contract(f"{OS}:OrderedSet.discard", sig={"self": "OrderedSet", "value": "Elem"}, modifies=["self._items"],
         ensures=["keys(self._items) == keys(old(self._items)) - {value}", ORDER_KEPT])

contract(f"{OS}:OrderedSet.clear", sig={"self": "OrderedSet"}, modifies=["self._items"], ensures=["len(self._items) == 0", "keys(self._items) == set()"])

# update: old members keep their order and precede the new ones; new members are ordered by their first occurrence
OLD_FIRST = ("all(all(implies(a in self._items and b not in old(self._items), rank(self._items, a) < rank(self._items, b)) "
             "for b in keys(self._items)) for a in keys(old(self._items)))")


def _first_occ(seq, upto, new_if, also_p=False):
    gp = f" and {new_if.format(x=seq + '[p]')}" if also_p else ""
    return (f"all(all(implies(p < q and {seq}[p] != {seq}[q] and {new_if.format(x=seq + '[q]')}{gp} and all({seq}[j] != {seq}[q] for j in range(q)), "
            f"rank(self._items, {seq}[p]) < rank(self._items, {seq}[q])) for p in range({upto})) for q in range({upto}))")


def _grown_by(seq, upto):
    return [f"all(k in self._items for k in keys(old(self._items)))",
            f"all({seq}[j] in self._items for j in range({upto}))",
            f"all(k in old(self._items) or any({seq}[j] == k for j in range({upto})) for k in keys(self._items))"]


contract(f"{OS}:OrderedSet.update", sig={"self": "OrderedSet", "iterable": "list[Elem]"}, modifies=["self._items"], oneshot=["iterable"],
         ensures=_grown_by("iterable", "len(iterable)") + [ORDER_KEPT, OLD_FIRST,
                                                            _first_occ("iterable", "len(iterable)", "{x} not in old(self._items)")])
loop(f"{OS}:OrderedSet.update", 0,
     invariant=_grown_by("iterable", "_i") + [ORDER_KEPT, OLD_FIRST, _first_occ("iterable", "_i", "{x} not in old(self._items)")])

contract(f"{OS}:OrderedSet.intersection_update", sig={"self": "OrderedSet", "other": "list[Elem]"}, modifies=["self._items"], oneshot=["other"],
         ensures=["all((k in self._items) == (k in other) for k in keys(old(self._items)))",
                  "all(k in old(self._items) for k in keys(self._items))", ORDER_KEPT])
contract(f"{OS}:OrderedSet.difference_update", sig={"self": "OrderedSet", "others": "list[list[Elem]]"}, modifies=["self._items"],
         type_map={"set[T]": "set[Elem]"},
         ensures=["all((k in self._items) == (not any(k in others[j] for j in range(len(others)))) for k in keys(old(self._items)))",
                  "all(k in old(self._items) for k in keys(self._items))", ORDER_KEPT])

loop(f"{OS}:OrderedSet.difference_update", 0,
     invariant=["all(all(others[j][m] in items_to_remove for m in range(len(others[j]))) for j in range(_i))",
                "all(any(k in others[j] for j in range(_i)) for k in items_to_remove)"])

# symmetric_difference_update: members of exactly one side; kept old members first (in their order), then the new ones by first occurrence
contract(f"{OS}:_AbstractOrderedSet.__init__", sig={"self": "_AbstractOrderedSet", "iterable": "Optional[list[Elem]]"}, oneshot=["iterable"],
         modifies=["self._items"],
         ensures=["implies(iterable is None, len(self._items) == 0)",
                  "implies(iterable is not None, all(iterable[j] in self._items for j in range(len(iterable))))",
                  "implies(iterable is not None, all(any(iterable[j] == k for j in range(len(iterable))) for k in keys(self._items)))",
                  "implies(iterable is not None, all(all(implies(p < q and iterable[p] != iterable[q] and all(iterable[j] != iterable[q] for j in range(q)), "
                  "rank(self._items, iterable[p]) < rank(self._items, iterable[q])) for p in range(len(iterable))) for q in range(len(iterable))))"])
# symmetric_difference_update: the list of new elements is a filtered copy of `other` (order-preserving); the invariants restate that
contract(f"{OS}:OrderedSet.symmetric_difference_update", sig={"self": "OrderedSet", "other": "list[Elem]"}, modifies=["self._items"], oneshot=["other"],
         type_map={"set[T]": "set[Elem]"},
         ensures=["all((k in self._items) == (k not in other) for k in keys(old(self._items)))",
                  "all(implies(other[j] not in old(self._items), other[j] in self._items) for j in range(len(other)))",
                  "all(k in old(self._items) or k in other for k in keys(self._items))",
                  ORDER_KEPT, OLD_FIRST, _first_occ("other", "len(other)", "{x} not in old(self._items)", also_p=True)])
loop(f"{OS}:OrderedSet.symmetric_difference_update", 0,
     invariant=["all((k in self._items) == (k not in other) for k in keys(old(self._items)))",
                "all(items_to_add[j] in self._items for j in range(_i))",
                "all(k in old(self._items) or any(items_to_add[j] == k for j in range(_i)) for k in keys(self._items))",
                ORDER_KEPT, OLD_FIRST, _first_occ("items_to_add", "_i", "True")])

contract(f"{OS}:_AbstractOrderedSet.issuperset", sig={"self": "_AbstractOrderedSet", "other": "list[Elem]"}, returns="bool", oneshot=["other"],
         ensures=["result == all(other[j] in self._items for j in range(len(other)))"])

# native replay of refuted obligations: real OrderedSet objects over small ints
from pyvc.enumerate import sampler  # noqa: E402
from pyvc.replay import NATIVE_HELPERS  # noqa: E402

NATIVE_HELPERS["rank"] = lambda d, k: list(d).index(k)


@sampler("opaque:Elem")
def _s_elem(sc):
    return sc.rnd.choice([0, 1, 2, 3])


def _s_oset(sc, cls):
    import pynguin.utils.orderedset as osm
    xs = [0, 1, 2, 3]
    sc.rnd.shuffle(xs)
    return ("$py", osm.OrderedSet(xs[:sc.rnd.randint(0, 4)]))


sampler("OrderedSet")(_s_oset)
sampler("_AbstractOrderedSet")(_s_oset)
NATIVE = {f"{OS}:OrderedSet.difference_update": lambda self, others: type(self).difference_update(self, *others)}
SCOPE = {f"{OS}:OrderedSet.difference_update": {"maxlen": 3}}

# ---------------------------------------------------------------------------------------------------------------
# reference model: a duplicate-free list in first-insertion order
def m_from(it):
    out = []
    for x in it:
        if x not in out:
            out.append(x)
    return out


def m_union(a, *bs):
    return m_from(list(a) + [x for b in bs for x in b])


def m_inter(a, *bs):
    return [x for x in a if all(x in b for b in bs)]


def m_diff(a, *bs):
    return [x for x in a if not any(x in b for b in bs)]


def m_symdiff(a, b):
    b = m_from(b)
    return [x for x in a if x not in b] + [x for x in b if x not in a]


KINDS = ["list", "tuple", "set", "OrderedSet", "iterator", "generator", "dictkeys"]


def mk_arg(kind, vals_, OrderedSet):
    """An iterable of the given kind holding vals_ (in that order)."""
    if kind == "list":
        return list(vals_)
    if kind == "tuple":
        return tuple(vals_)
    if kind == "set":
        return set(vals_)
    if kind == "OrderedSet":
        return OrderedSet(vals_)
    if kind == "iterator":
        return iter(list(vals_))
    if kind == "generator":
        return (x for x in list(vals_))
    if kind == "dictkeys":
        return dict.fromkeys(vals_).keys()
    raise ValueError(kind)


def arg_model(kind, vals_):
    """Iteration order of the argument as the reference model sees it (sets: any order -> only used as a set)."""
    return m_from(vals_)


def _scope(tier):
    elems = [0, 1, 2]
    states = [list(p) for n in range(0, 4) for p in itertools.permutations(elems, n)]          # 16 ordered sets
    argvals = [list(p) for n in range(0, 3) for p in itertools.product([0, 1, 2, 3], repeat=n)]  # 21 sequences
    if tier == "thorough":
        argvals = [list(p) for n in range(0, 4) for p in itertools.product([0, 1, 2, 3], repeat=n)]
    return states, argvals


def _check(part: Part, tier, seed):
    from pynguin.utils.orderedset import FrozenOrderedSet, OrderedSet
    states, argvals = _scope(tier)

    def fail(clause, cls, **detail):
        part.violation(clause, cls, {k: repr(v) for k, v in detail.items()}, target=f"{OS}:OrderedSet")

    # ---- sequence protocol / queries on every state
    for st in states:
        s = OrderedSet(st)
        part.case(bool(st))
        if list(s) != st:
            fail("iteration is first-insertion order", "iter", state=st, got=list(s))
        if len(s) != len(st):
            fail("len", "len", state=st, got=len(s))
        for x in range(-1, 4):
            if (x in s) != (x in st):
                fail("membership", "contains", state=st, x=x)
        for i in range(-len(st) - 1, len(st) + 1):
            part.case(bool(st))
            try:
                exp = ("ok", st[i])
            except IndexError:
                exp = ("IndexError", None)
            try:
                got = ("ok", s[i])
            except IndexError:
                got = ("IndexError", None)
            if got != exp:
                fail("sequence protocol: s[i] as for a list, incl. negative indices",
                     "negative-index" if i < 0 else "index", state=st, index=i, expected=exp, got=got)
        if list(reversed(s)) != list(reversed(st)):
            fail("reversed", "reversed", state=st, got=list(reversed(s)))
        for st2 in states:
            if (s == OrderedSet(st2)) != (st == st2):
                fail("equality is order-sensitive sequence equality", "eq", a=st, b=st2)
        f = FrozenOrderedSet(st)
        if list(f) != st or hash(f) != hash(FrozenOrderedSet(list(reversed(st)))):
            fail("frozen: same order; equal member sets hash equal", "frozen", state=st)

    # ---- constructors and operations with every kind of iterable argument
    for vals_ in argvals:
        for kind in KINDS:
            part.case(bool(vals_))
            got = list(OrderedSet(mk_arg(kind, vals_, OrderedSet)))
            exp = m_from(vals_)
            if (sorted(got) != sorted(exp)) if kind == "set" else (got != exp):
                fail("constructor keeps first-insertion order", f"ctor-{kind}", vals=vals_, got=got)
    pure_ops = {
        "union": (lambda s, a: s.union(a), m_union, True),
        "intersection": (lambda s, a: s.intersection(a), m_inter, False),
        "difference": (lambda s, a: s.difference(a), m_diff, False),
        "symmetric_difference": (lambda s, a: s.symmetric_difference(a), m_symdiff, True),
        "__or__": (lambda s, a: s | a, m_union, True),
        "__and__": (lambda s, a: s & a, m_inter, False),
        "__xor__": (lambda s, a: s ^ a, m_symdiff, True),
    }
    mut_ops = {
        "update": (lambda s, a: s.update(a), m_union, True),
        "difference_update": (lambda s, a: s.difference_update(a), m_diff, False),
        "intersection_update": (lambda s, a: s.intersection_update(a), m_inter, False),
        "symmetric_difference_update": (lambda s, a: s.symmetric_difference_update(a), m_symdiff, True),
    }
    for st in states:
        for vals_ in argvals:
            for kind in KINDS:
                unordered = kind == "set"
                for name, (op, model, uses_arg_order) in {**pure_ops, **mut_ops}.items():
                    part.case(bool(st) or bool(vals_))
                    s = OrderedSet(st)
                    arg = mk_arg(kind, vals_, OrderedSet)
                    exp = model(st, arg_model(kind, vals_))
                    try:
                        r = op(s, arg)
                        got = list(s) if name in mut_ops else list(r)
                    except Exception as e:  # noqa: BLE001
                        fail(f"{name}: accepts any iterable", f"{name}-raises-{kind}", state=st, arg=vals_, kind=kind,
                             exception=f"{type(e).__name__}: {e}")
                        continue
                    ok = (set(got) == set(exp) and len(got) == len(exp) and
                          [x for x in got if x in st] == [x for x in exp if x in st]) if (unordered and uses_arg_order) \
                        else got == exp
                    if not ok:
                        cls = f"{name}-oneshot" if kind in ("iterator", "generator") else f"{name}-{kind}"
                        fail(f"{name}: same elements as the mathematical set operation, first-insertion order "
                             "(self's elements first)", cls, state=st, arg=vals_, kind=kind, expected=exp, got=got)
                    if name in pure_ops and list(s) != st:
                        fail(f"{name}: leaves self unchanged", f"{name}-mutates-self", state=st, arg=vals_, kind=kind)
                # subset / superset
                for name, op, exp in (("issubset", lambda s, a: s.issubset(a), set(st) <= set(vals_)),
                                      ("issuperset", lambda s, a: s.issuperset(a), set(st) >= set(vals_))):
                    part.case(bool(st) or bool(vals_))
                    try:
                        got = op(OrderedSet(st), mk_arg(kind, vals_, OrderedSet))
                    except Exception as e:  # noqa: BLE001
                        fail(f"{name}: accepts any iterable", f"{name}-raises-{kind}", state=st, arg=vals_, kind=kind,
                             exception=f"{type(e).__name__}: {e}")
                        continue
                    if got != exp:
                        cls = f"{name}-oneshot" if kind in ("iterator", "generator") else f"{name}-{kind}"
                        fail(f"{name}: the set-theoretic answer", cls, state=st, arg=vals_, kind=kind, expected=exp, got=got)
        # element operations and aliasing (argument is the set itself)
        for x in range(0, 4):
            part.case(True)
            s = OrderedSet(st)
            s.add(x)
            if list(s) != m_union(st, [x]):
                fail("add appends a new element, keeps an existing one in place", "add", state=st, x=x, got=list(s))
            s = OrderedSet(st)
            s.discard(x)
            if list(s) != [y for y in st if y != x]:
                fail("discard removes exactly x", "discard", state=st, x=x, got=list(s))
        for name, exp in (("update", st), ("difference_update", []), ("intersection_update", st),
                          ("symmetric_difference_update", [])):
            part.case(bool(st))
            s = OrderedSet(st)
            try:
                getattr(s, name)(s)
                if list(s) != exp:
                    fail(f"{name} with the set itself as argument", f"{name}-alias", state=st, expected=exp, got=list(s))
            except Exception as e:  # noqa: BLE001
                fail(f"{name} with the set itself as argument", f"{name}-alias", state=st,
                     exception=f"{type(e).__name__}: {e}")
        s = OrderedSet(st)
        s.clear()
        if list(s) != []:
            fail("clear", "clear", state=st)
        # the operations that take several iterables, with two arguments of mixed kinds
        for a1, a2 in itertools.product([[], [0], [1, 3], [2, 0]], [[], [1], [3, 0], [2, 2]]):
            for k1, k2 in (("list", "iterator"), ("generator", "set"), ("OrderedSet", "tuple")):
                for name, model in (("union", m_union), ("intersection", m_inter), ("difference", m_diff), ("difference_update", m_diff)):
                    part.case(True)
                    s = OrderedSet(st)
                    try:
                        got = getattr(s, name)(mk_arg(k1, a1, OrderedSet), mk_arg(k2, a2, OrderedSet))
                        got = list(s) if name == "difference_update" else list(got)
                    except Exception as e:  # noqa: BLE001
                        fail(f"{name} with two iterables", f"{name}-two-raises", state=st, args=[a1, a2], kinds=[k1, k2],
                             exception=f"{type(e).__name__}: {e}")
                        continue
                    want = model(st, *[m_from(list(set(a_))) if k_ == "set" else m_from(a_) for k_, a_ in ((k1, a1), (k2, a2))])   # (a set iterates in its own order)
                    if got != want:
                        fail(f"{name} with two iterables: the set-theoretic answer in first-insertion order", f"{name}-two",
                             state=st, args=[a1, a2], kinds=[k1, k2], expected=want, got=got)

    # ---- short histories of mutating operations against the model
    hist_ops = [("add", [0]), ("add", [3]), ("discard", [1]), ("update", [2, 3, 0]), ("difference_update", [0, 3]),
                ("intersection_update", [1, 2, 3]), ("symmetric_difference_update", [3, 1])]
    depth = 3 if tier == "thorough" else 2
    for st in states[::3]:
        for seq in itertools.product(range(len(hist_ops)), repeat=depth):
            part.case(True)
            s, m = OrderedSet(st), list(st)
            for oi in seq:
                nm, a = hist_ops[oi]
                if nm == "add":
                    s.add(a[0]); m = m_union(m, a)
                elif nm == "discard":
                    s.discard(a[0]); m = [y for y in m if y != a[0]]
                elif nm == "update":
                    s.update(iter(a)); m = m_union(m, a)
                elif nm == "difference_update":
                    s.difference_update(iter(a)); m = m_diff(m, a)
                elif nm == "intersection_update":
                    s.intersection_update(iter(a)); m = m_inter(m, a)
                else:
                    s.symmetric_difference_update(iter(a)); m = m_symdiff(m, a)
            if list(s) != m:
                fail("operation history agrees with the reference model", "history", state=st,
                     ops=[hist_ops[i] for i in seq], expected=m, got=list(s))


def bounded_orderedset(tier, seed):
    states, argvals = _scope(tier)
    p = Part("C34", "orderedset-vs-reference-model",
             [f"{OS}:_AbstractOrderedSet.*", f"{OS}:OrderedSet.*", f"{OS}:FrozenOrderedSet.__hash__"],
             scope=f"all {len(states)} ordered sets over {{0,1,2}} x all {len(argvals)} argument sequences over {{0,1,2,3}} "
                   f"(length <= {2 if tier != 'thorough' else 3}) x argument kinds {KINDS} x every public operation; indices "
                   "-len-1..len; self-aliasing arguments; operation histories of length "
                   f"{3 if tier == 'thorough' else 2} from 7 operations",
             bound="elements 0..3, set size <= 3, argument length <= %d" % (3 if tier == "thorough" else 2))
    return guarded(p, _check, tier, seed)


BOUNDED = [bounded_orderedset]


def classify(g):
    return g.get("class", "")
