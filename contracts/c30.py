"""C30 — test executions are isolated and restore process state."""
from pyvc.contracts import assumption, contract, for_property, klass, lemma, loop, predicate, ufun

for_property("C30")
EX = "pynguin.testcase.execution"
EI = "pynguin.testcase.execution_isolation"


# ==== bounded stand-in: histories of test cases on the real executor ============================================================
import itertools  # noqa: E402

from pyvc.bounded import Part, guarded  # noqa: E402

_MODULE = "c30_subject"
_SOURCE = '''
import logging
import random
import sys

GEN = random.Random(2024)          # long-lived generator with an explicit seed
FRESH = random.Random()            # long-lived generator without a seed


def chatter():
    print("to stdout")
    print("to stderr", file=sys.stderr)
    return 1


def boom():
    raise ValueError("boom")


def close_streams():
    sys.stdout.close()
    sys.stderr.close()
    return 2


def close_fds():
    import os
    for fd in (1, 2):
        try:
            os.close(fd)
        except OSError:
            pass
    return 3


def close_stdin():
    import os
    try:
        os.close(0)
    except OSError:
        pass
    return 4


def hush():
    logging.disable(logging.CRITICAL)
    return 4


def unhush():
    logging.disable(logging.NOTSET)
    return 5


def reseed():
    random.seed(99)
    GEN.seed(7)
    FRESH.seed(8)
    return 6


def burn():
    return [random.random(), GEN.random(), FRESH.random(), random.Random(5).random()][0] > 2


def draw():
    return (random.randint(0, 10 ** 9), GEN.randint(0, 10 ** 9), FRESH.randint(0, 10 ** 9))


def replace_stdout():
    import io
    sys.stdout = io.StringIO()
    sys.stderr = None
    return 7


def then_spin(which):
    """Change some process-wide state, then never return (the executor has to abandon this execution)."""
    {"hush": hush, "reseed": reseed, "chatter": chatter, "replace_stdout": replace_stdout, "burn": burn, "unhush": unhush}[which]()
    n = 0
    while True:
        n += 1


def probe(flag):
    a, b, c = draw()
    if flag and (a + b + c) % 2 == 0:
        raise KeyError(a)
    return (a, b, c)
'''
_CALLS = ["chatter()", "boom()", "close_streams()", "close_fds()", "close_stdin()", "hush()", "unhush()", "reseed()", "burn()", "draw()",
          "replace_stdout()"]


def _setup():
    import importlib, sys, tempfile  # noqa: E401
    from pathlib import Path
    import pynguin.configuration as config
    import pynguin.generator as gen
    from pynguin.instrumentation.machinery import install_import_hook
    from pynguin.instrumentation.tracer import SubjectProperties
    from pynguin.testcase.execution import TestCaseExecutor
    workdir = Path(tempfile.mkdtemp(prefix="c30_"))
    (workdir / f"{_MODULE}.py").write_text(_SOURCE)
    sys.path.insert(0, str(workdir))
    config.configuration.module_name = _MODULE
    config.configuration.seeding.seed = 1234
    gen._patch_random()      # noqa: SLF001  (the generator's set-up order: patch, then import the module under test)
    sp = SubjectProperties()
    hook = install_import_hook(_MODULE, sp)
    hook.__enter__()
    with sp.instrumentation_tracer:
        sys.modules.pop(_MODULE, None)
        importlib.import_module(_MODULE)
    return workdir, hook, TestCaseExecutor(sp)


def _tc(call):
    import libcst as cst
    import pynguin.testcase.testcase as tc
    from pynguin.utils.naming import get_module_alias
    t = tc.TestCase()
    t.add_statement(tc.Statement(node=cst.parse_module(f"var_0 = {get_module_alias(_MODULE)}.{call}\n").body[0],
                                 bound_variable="var_0", bound_type=None))
    return t


def _state():
    import logging, os, sys  # noqa: E401
    from pynguin.testcase.execution_isolation import OutputSuppressionContext
    from pynguin.utils import randomness
    fds = []
    for fd in (0, 1, 2):
        try:
            st_ = os.fstat(fd)
            fds.append((st_.st_dev, st_.st_ino))     # open, and the same open file as before
        except OSError:
            fds.append(False)
    return {"stdout_is_original": sys.stdout is sys.__stdout__, "stderr_is_original": sys.stderr is sys.__stderr__,
            "stdout_closed": bool(getattr(sys.__stdout__, "closed", False)), "stderr_closed": bool(getattr(sys.__stderr__, "closed", False)),
            "fds_open": fds, "logging_disable": logging.root.manager.disable, "rng_state": hash(randomness.RNG.getstate())}
    # (the shared null file the executor installs as sys.stdout during an execution is an implementation detail: whether a
    #  closed one leaks into later executions shows in the order-independence clause through the printing probe)


class _Values:
    """Remote observer recording the value bound by the last statement (to compare results across histories)."""


def _observe(executor):
    import pynguin.testcase.execution as ex

    class Obs(ex.RemoteExecutionObserver):
        def __init__(self):
            super().__init__()
            self.values = []

        def before_test_case_execution(self, test_case):
            pass

        def after_test_case_execution(self, executor, test_case, result):
            pass

        def before_statement_execution(self, statement, node, exec_ctx):
            return node

        def after_statement_execution(self, statement, executor, exec_ctx, exception):
            try:
                self.values.append(repr(exec_ctx.get("var_0")) if hasattr(exec_ctx, "get") else None)
            except Exception:  # noqa: BLE001
                self.values.append("?")
    return Obs


def _check_c30(part: Part, tier, seed):
    import logging, shutil, sys  # noqa: E401
    logging.disable(logging.NOTSET)
    workdir, hook, executor = _setup()
    try:
        base = _state()
        if base["fds_open"][0] and not _SAVED_STDIN:
            _SAVED_STDIN.append(__import__("os").dup(0))
        probes = ["probe(False)", "probe(True)", "chatter()"]
        hists = [()] + [(c,) for c in _CALLS] + [(a, b) for a in _CALLS for b in _CALLS]
        if tier == "thorough":
            rnd = __import__("random").Random(seed)
            tri = [(a, b, c) for a in _CALLS for b in _CALLS for c in _CALLS]
            rnd.shuffle(tri)
            hists += tri[:300]
        reference = {}
        for h in hists:
            for pr in probes:
                part.case()
                for call in h:
                    executor.execute(_tc(call))
                    now = _state()
                    bad = [k for k in base if now[k] != base[k]]
                    if bad:
                        part.violation("after executing a test case Pynguin's standard streams, logging state and own random "
                                       "stream are as before", f"state:{','.join(bad)}:{call}",
                                       {"history": list(h), "after": call, "changed": {k: (base[k], now[k]) for k in bad}},
                                       target=f"{EX}:TestCaseExecutor.execute")
                        _repair(base)
                res = executor.execute(_tc(pr))
                now = _state()
                bad = [k for k in base if now[k] != base[k]]
                if bad:
                    part.violation("after executing a test case Pynguin's standard streams, logging state and own random stream "
                                   "are as before", f"state:{','.join(bad)}:{pr}", {"history": list(h), "after": pr,
                                                                                     "changed": {k: (base[k], now[k]) for k in bad}},
                                   target=f"{EX}:TestCaseExecutor.execute")
                    _repair(base)
                tr = res.execution_trace
                sig = (res.timeout, sorted((k, type(v).__name__, str(v)) for k, v in res.exceptions.items()),
                       sorted(tr.covered_line_ids) if tr else None, sorted(tr.executed_predicates) if tr else None)
                if pr not in reference:
                    reference[pr] = (h, sig)
                elif reference[pr][1] != sig:
                    part.violation("the result of a test case does not depend on which test cases ran before it",
                                   f"order:{pr}:{'+'.join(h)}",
                                   {"probe": pr, "history": list(h), "result": repr(sig)[:300], "reference_history": list(reference[pr][0]),
                                    "reference_result": repr(reference[pr][1])[:300]}, target=f"{EX}:TestCaseExecutor.execute")
    finally:
        hook.__exit__(None, None, None)
        sys.modules.pop(_MODULE, None)
        shutil.rmtree(workdir, ignore_errors=True)
        logging.disable(logging.NOTSET)


_SAVED_STDIN = []      # a duplicate of the harness's own fd 0, taken before the first execution


def _repair(base):
    """Put the process back after a recorded violation so that later cases are judged on their own."""
    import logging, os, sys  # noqa: E401
    from pynguin.testcase.execution_isolation import OutputSuppressionContext
    logging.disable(base["logging_disable"])
    sys.stdout, sys.stderr = sys.__stdout__, sys.__stderr__
    if base["fds_open"][0] and _state()["fds_open"][0] != base["fds_open"][0] and _SAVED_STDIN:
        os.dup2(_SAVED_STDIN[0], 0)
    if OutputSuppressionContext._null_file.closed:   # noqa: SLF001
        OutputSuppressionContext._null_file = open(os.devnull, "w")   # noqa: SLF001, PTH123, SIM115


def bounded_c30(tier, seed):
    p = Part("C30", "execution-histories", [f"{EX}:TestCaseExecutor.execute", f"{EX}:TestCaseExecutor._execute_test_case",
                                            f"{EI}:OutputSuppressionContext.__enter__", f"{EI}:OutputSuppressionContext.restore",
                                            f"{EI}:_make_deterministic", "pynguin.generator:_patch_random"],
             scope="real TestCaseExecutor (set up in the generator's order: _patch_random, import hook, module import) on a module "
                   "whose functions print, raise, close sys.stdout/sys.stderr, close fds 1/2, close fd 0, replace sys.stdout, disable and "
                   "re-enable logging, reseed and consume the module-level random and two long-lived random.Random instances: "
                   "every history of 0, 1 and 2 of these 10 calls (thorough: + 300 of length 3) followed by each of 3 probe test "
                   "cases; after every execution the process state (sys.stdout/stderr identity and closedness, fds 0-2, logging "
                   "disable level, state of randomness.RNG, the shared null file) is compared with the state before, and the "
                   "probe's result (timeout flag, exceptions, covered lines and predicates) with its result after the empty history",
             bound="history length <= 2 (3 sampled)")
    return guarded(p, _check_c30, tier, seed)


def _check_aborted(part: Part, tier, seed):
    """The same isolation after executions the executor has to abandon (time-out): the worker thread never reaches its own clean-up."""
    import logging, shutil, sys, threading  # noqa: E401
    from pynguin.testcase.execution import TestCaseExecutor
    logging.disable(logging.NOTSET)
    workdir, hook, executor = _setup()
    try:
        fast = TestCaseExecutor(executor.subject_properties, maximum_test_execution_timeout=0.3, test_execution_time_per_statement=0.3)
        base = _state()
        probes = ["probe(False)", "chatter()"]
        reference = {}
        from .c32 import execute_terminating
        for pr in probes:
            res = None
            for _attempt in range(5):          # (a time-out of a probe means: machine overloaded, wait and retry)
                res = execute_terminating(fast, lambda pr=pr: _tc(pr))
                if res is not None and not res.timeout:
                    break
                __import__("time").sleep(3)
            if res is None:
                return                  # persistently overloaded: no verdict from this part in this run
            reference[pr] = (res.timeout, sorted((k, type(v).__name__, str(v)) for k, v in res.exceptions.items()))
        whiches = ["hush", "reseed", "chatter", "replace_stdout", "burn", "unhush"]
        for which in whiches:
            for pr in probes:
                part.case()
                res = fast.execute(_tc(f"then_spin({which!r})"))
                if not res.timeout:
                    part.error(f"then_spin({which!r}) did not time out")
                    continue
                now = _state()
                bad = [k for k in base if now[k] != base[k]]
                if bad:
                    part.violation("after executing a test case Pynguin's standard streams, logging state and own random stream are "
                                   "as before", f"state-after-timeout:{','.join(bad)}:{which}",
                                   {"test_case": f"then_spin({which!r}) (changes the state, then loops until the executor gives up)",
                                    "changed": {k: (base[k], now[k]) for k in bad}}, target=f"{EX}:TestCaseExecutor.execute")
                    _repair(base)
                from .c32 import execute_terminating
                res2 = execute_terminating(fast, lambda: _tc(pr))
                if res2 is None:
                    continue            # overloaded machine: the probe keeps timing out, no verdict for this scenario
                sig = (res2.timeout, sorted((k, type(v).__name__, str(v)) for k, v in res2.exceptions.items()))
                if sig != reference[pr]:
                    part.violation("the result of a test case does not depend on which test cases ran before it",
                                   f"order-after-timeout:{pr}:{which}", {"probe": pr, "before_it": f"then_spin({which!r}) timed out",
                                                                          "result": repr(sig)[:300], "reference_result": repr(reference[pr])[:300]},
                                   target=f"{EX}:TestCaseExecutor.execute")
                for th in threading.enumerate():
                    if th is not threading.current_thread() and th.daemon:
                        th.join(timeout=2)
    finally:
        hook.__exit__(None, None, None)
        sys.modules.pop(_MODULE, None)
        shutil.rmtree(workdir, ignore_errors=True)
        logging.disable(logging.NOTSET)


def bounded_aborted(tier, seed):
    p = Part("C30", "abandoned-executions", [f"{EX}:TestCaseExecutor.execute", f"{EX}:TestCaseExecutor._execute_test_case"],
             scope="real TestCaseExecutor with a 0.3 s time-out: 6 test cases that change process-wide state (disable / re-enable "
                   "logging, reseed, print, replace sys.stdout, consume random numbers) and then loop until the executor abandons "
                   "them, each followed by 2 probe test cases; state and probe result compared as in the other part",
             bound="6 x 2 scenarios")
    return guarded(p, _check_aborted, tier, seed)


BOUNDED = [bounded_c30, bounded_aborted]
META = {"level": "other", "explanation": "bounded contract check of the real executor over enumerated execution histories",
        "rule": "one case per (history, probe)"}


def classify(g):
    return g.get("class", "")
