"""C25 — subtyping is a preorder consistent with the class hierarchy."""
from pyvc.contracts import assumption, contract, for_property, klass, lemma, loop, predicate, ufun

for_property("C25")
TS = "pynguin.analyses.typesystem"


# ==== bounded stand-in: the laws of the statement on the real TypeSystem over generated hierarchies and small types ============
import itertools  # noqa: E402

from pyvc.bounded import Part, guarded  # noqa: E402


def _hierarchies(tier, seed):
    """Bases of C1..C3 chosen among the lower-numbered classes: every DAG on 4 classes that Python accepts."""
    out = []
    for b1 in ([], [0]):
        for b2 in ([], [0], [1], [1, 0]):
            for b3 in ([], [0], [1], [2], [1, 0], [2, 0], [2, 1], [2, 1, 0]):
                out.append((b1, b2, b3))
    if tier != "thorough":
        rnd = __import__("random").Random(seed)
        fixed = [([0], [1], [2]), ([0], [0], [2, 1]), ([], [], []), ([0], [], [2, 0])]      # chain, diamond, unrelated, mixed
        rest = [h for h in out if h not in fixed]
        rnd.shuffle(rest)
        out = fixed + rest[:4]
    return out


def _module_source(h):
    lines = ["class C0:\n    pass\n"]
    for i, bases in enumerate(h, start=1):
        b = ", ".join(f"C{j}" for j in bases)
        lines.append(f"class C{i}({b}):\n    pass\n" if b else f"class C{i}:\n    pass\n")
    lines.append("def use(a: C0, b: C1, c: C2, d: C3, e: list[C0], f: dict[str, C1], g: tuple[C2, C3], h: set[C3]) -> int:\n    return 0\n")
    return "\n".join(lines)


def _shard_c25(args):
    idx, nshards, tier, seed = args
    import importlib, os, shutil, sys, tempfile, typing  # noqa: E401
    import pynguin.configuration as config
    from pynguin.analyses.module import generate_test_cluster
    from pynguin.analyses.typesystem import AnyType
    res, n = [], 0
    for hi, h in enumerate(_hierarchies(tier, seed)):
        if hi % nshards != idx:
            continue
        d = tempfile.mkdtemp(prefix="c25mod")
        name = f"c25_subject_{hi}"
        try:
            with open(os.path.join(d, name + ".py"), "w", encoding="utf-8") as f:
                f.write(_module_source(h))
            sys.path.insert(0, d)
            try:
                mod = importlib.import_module(name)
            except TypeError:
                continue            # Python rejects this base-class order (inconsistent MRO)
            config.configuration.module_name = name
            for tower in (True,):
                # (the cluster's type system always has the numeric tower enabled: module.__resolve_dependencies)
                ts = generate_test_cluster(name).type_system
                T = ts.convert_type_hint
                cls = [mod.C0, mod.C1, mod.C2, mod.C3]
                prim = [int, float, bool, complex, str]
                atoms = [T(c) for c in cls + prim] + [T(type(None)), T(typing.Any)]
                atom_hints = cls + prim + [type(None), typing.Any]
                types = list(atoms)
                small = cls + [int, float, type(None), typing.Any]
                types += [T(list[a]) for a in small] + [T(set[a]) for a in cls[:2]] + [T(dict[str, a]) for a in cls[:2] + [typing.Any]]
                types += [T(tuple[a, b]) for a in cls[:3] + [typing.Any] for b in cls[1:] + [int]]
                types += [T(a | b) for a, b in itertools.combinations(cls + [int, float, type(None)], 2)]
                types += [T(tuple[cls[0] | cls[2], cls[1]]), T(tuple[cls[3]] | None), T(list[cls[1] | cls[3]]), T(tuple[cls[1]] | tuple[cls[2]]),
                          T(list[cls[2]] | None), T(tuple[cls[1] | cls[3]]), T(tuple[cls[2]]), T(tuple[cls[1]])]
                # tuples of unknown size and of other lengths than two
                types += [T(tuple), T(tuple[cls[0], cls[1], cls[2]]), T(tuple[cls[1], cls[1], int]), T(tuple[typing.Any])]
                uniq = []
                for t in types:
                    if t not in uniq:
                        uniq.append(t)
                types = uniq
                label = {"hierarchy": repr(h), "numeric_tower": tower}
                sub = {(a, b): ts.is_subtype(a, b) for a in types for b in types}
                maybe = {(a, b): ts.is_maybe_subtype(a, b) for a in types for b in types}
                n += len(types) ** 2

                def has_any(t):
                    return "AnyType" in repr(t)
                for a in types:
                    if not sub[(a, a)]:
                        res.append(("subsumption is reflexive", "reflexive", {**label, "type": repr(a)}))
                    if not ts.is_subtype(a, AnyType()):
                        res.append(("everything is a subtype of Any", "top", {**label, "type": repr(a)}))
                    dist = ts.subtype_distance(a, a)
                    if dist != 0:
                        kind = ("AnyType" if type(a).__name__ == "AnyType" else "contains-Any" if has_any(a) else
                                "union-without-instance-member" if type(a).__name__ == "UnionType" and dist is None else "other")
                        res.append(("the subtype distance of a type to itself is zero", f"distance-self:{kind}",
                                    {**label, "type": repr(a), "distance": dist}))
                for a in types:
                    for b in types:
                        if sub[(a, b)] and not maybe[(a, b)]:
                            res.append(("a subtype may be a subtype", "sub-implies-maybe", {**label, "left": repr(a), "right": repr(b)}))
                        dist = ts.subtype_distance(a, b)          # (supertype, subtype)
                        if dist is not None and not maybe[(b, a)]:
                            # witness class: the distance adds up the distances of generic arguments (covariantly) while
                            # the subtype checks treat hard-coded generics as invariant (known finding); anything else differs
                            generic = all(any(f"builtins.{g})(" in repr(t) for g in ("list", "set", "dict")) for t in (a, b))
                            res.append(("a subtype distance from T to S is defined only when S may be a subtype of T",
                                        "distance-defined:generic-arguments" if generic else "distance-defined",
                                        {**label, "supertype": repr(a), "subtype": repr(b), "distance": dist}))
                        if type(a).__name__ == "UnionType":
                            want = all(sub[(x, b)] for x in a.items if (x, b) in sub) if all((x, b) in sub for x in a.items) else None
                            if want is not None and sub[(a, b)] != want:
                                res.append(("a union is a subtype exactly when all its members are", "union-rule",
                                            {**label, "union": repr(a), "right": repr(b), "got": sub[(a, b)]}))
                for a, b in sub:
                    if not sub[(a, b)]:
                        continue
                    for c in types:
                        if sub[(b, c)] and not sub[(a, c)]:
                            kind = "transitive-through-any" if has_any(b) else "transitive"
                            res.append(("subsumption is transitive", kind, {**label, "a": repr(a), "b": repr(b), "c": repr(c)}))
                            break
                infos = {c: ts.to_type_info(c) for c in cls + [int, float, bool, complex, object]}
                for x, y in itertools.product(infos, repeat=2):
                    want = issubclass(x, y)
                    if tower and (x, y) in {(bool, float), (bool, complex), (int, float), (int, complex), (float, complex)}:
                        want = True
                    if ts.is_subclass(infos[x], infos[y]) != want:
                        res.append(("class subsumption agrees with issubclass (plus the numeric tower)", "subclass",
                                    {**label, "left": x.__name__, "right": y.__name__, "got": not want}))
                if len(res) > 60:
                    break
        finally:
            sys.modules.pop(name, None)
            if d in sys.path:
                sys.path.remove(d)
            shutil.rmtree(d, ignore_errors=True)
    return n, res


def _check_c25(part: Part, tier, seed):
    import multiprocessing as mp
    nsh = 8
    with mp.get_context("fork").Pool(nsh) as pool:
        out = pool.map(_shard_c25, [(i, nsh, tier, seed) for i in range(nsh)])
    for n, res in out:
        part.inputs_run += n
        part.nontrivial += n
        for clause, cls, detail in res:
            part.violation(clause, cls, detail, target=f"{TS}:TypeSystem.is_subtype")


def bounded_c25(tier, seed):
    p = Part("C25", "subtyping-laws", [f"{TS}:TypeSystem.is_subtype", f"{TS}:TypeSystem.is_maybe_subtype", f"{TS}:TypeSystem.is_subclass",
                                       f"{TS}:TypeSystem.subtype_distance", f"{TS}:TypeSystem.enable_numeric_tower",
                                       f"{TS}:_SubtypeVisitor", f"{TS}:_MaybeSubtypeVisitor", f"{TS}:_SubtypeDistanceVisitor"],
             scope="real TypeSystem built by generate_test_cluster from generated modules: 8 (thorough: all 64) inheritance DAGs on 4 "
                   "classes incl. chain, diamond, unrelated, with and without the numeric tower; ~80 proper types (the 4 classes, "
                   "int/float/bool/complex/str, None, Any, list/set/dict/tuple of them, binary unions, unions nested in tuples and "
                   "lists, unions of tuples); reflexivity, top, union rule, sub-implies-maybe, distance laws on all pairs, "
                   "transitivity on all triples, is_subclass against issubclass",
             bound="4 classes, types of depth <= 2")
    return guarded(p, _check_c25, tier, seed)


def _check_tower_histories(part: Part, tier, seed):
    """The laws hold at every moment of a history, not only on a freshly built system: queries asked before the numeric tower
    is enabled (or before an edge arrives) must not survive the update (shared harness with C26: cache transparency)."""
    from . import c26
    c26.type_query_histories(part, tier, seed, pid="C25")


def bounded_tower_histories(tier, seed):
    p = Part("C25", "queries-interleaved-with-updates", [f"{TS}:TypeSystem.enable_numeric_tower", f"{TS}:TypeSystem.add_subclass_edge",
                                                         f"{TS}:TypeSystem.is_subclass", f"{TS}:TypeSystem.is_subtype",
                                                         f"{TS}:TypeSystem.subtype_distance"],
             scope="bare TypeSystem over 4 classes and int/float/bool/complex/object: 48 (thorough 240) seeded orders of 5 "
                   "add_subclass_edge updates and enable_numeric_tower, all cached queries on all pairs after every update compared "
                   "with the answers after emptying every lru cache (numeric-tower agreement, transitivity and distance laws are "
                   "laws of the recomputed answers, checked by the other part)", bound="9 classes, 6 updates per history")
    return guarded(p, _check_tower_histories, tier, seed)


BOUNDED = [bounded_c25, bounded_tower_histories]
META = {"level": "other", "explanation": "bounded contract check of the real TypeSystem over generated hierarchies and a fixed "
                                         "family of small proper types (exhaustive over pairs and triples of that family)",
        "rule": "one case per ordered pair of types per hierarchy"}


def classify(g):
    return g.get("class", "")
