"""C17 — search stops as soon as a configured budget is exhausted."""
from pyvc.contracts import (assumption, contract, for_property, global_var, klass, lemma, loop, predicate)
from . import common  # noqa: F401

for_property("C17")
SC = "pynguin.ga.stoppingcondition"
GA = "pynguin.ga.algorithms.generationalgorithm"
MI, MT, MS = "MaxIterationsStoppingCondition", "MaxTestExecutionsStoppingCondition", "MaxStatementExecutionsStoppingCondition"

klass("pynguin.ga.searchobserver:SearchObserver", fields={})
klass("pynguin.testcase.execution:ExecutionObserver", fields={})
klass(f"{SC}:StoppingCondition", fields={"_observes_execution": "bool"}, bases=["SearchObserver", "ExecutionObserver"])
klass(f"{SC}:{MI}", fields={"_num_iterations": "int", "_max_iterations": "int"})
klass(f"{SC}:{MT}", fields={"_num_executed_tests": "int", "_max_test_executions": "int"})
klass(f"{SC}:{MS}", fields={"_num_executed_statements": "int", "_max_executed_statements": "int",
                            "_remote_observer": "RemoteMaxStatementExecutionsObserver"})
klass("pynguin.ga.testsuitechromosome:TestSuiteChromosome", fields={})
klass("pynguin.testcase.testcase:TestCase", fields={})

# ---------------------------------------------------------------------------------------------------------------
# 1. the three budget conditions: counter semantics, every method, nothing else changes
for cls, cur, lim in ((MI, "_num_iterations", "_max_iterations"), (MT, "_num_executed_tests", "_max_test_executions"),
                      (MS, "_num_executed_statements", "_max_executed_statements")):
    contract(f"{SC}:{cls}.is_fulfilled", ensures=[f"result == (self.{cur} >= self.{lim})"])
    contract(f"{SC}:{cls}.current_value", ensures=[f"result == self.{cur}"])
    contract(f"{SC}:{cls}.limit", ensures=[f"result == self.{lim}"])
    contract(f"{SC}:{cls}.reset", modifies=[f"self.{cur}"], ensures=[f"self.{cur} == 0"])
    contract(f"{SC}:{cls}.before_search_start", modifies=[f"self.{cur}"], ensures=[f"self.{cur} == 0"])
    contract(f"{SC}:{cls}.set_limit", modifies=[f"self.{lim}"], ensures=[f"self.{lim} == limit"])
contract(f"{SC}:{MI}.after_search_iteration", sig={"best": "TestSuiteChromosome"}, modifies=["self._num_iterations"],
         ensures=["self._num_iterations == old(self._num_iterations) + 1"])
contract(f"{SC}:{MT}.before_remote_test_case_execution", sig={"test_case": "TestCase"},
         modifies=["self._num_executed_tests"],
         ensures=["self._num_executed_tests == old(self._num_executed_tests) + 1"])
contract(f"{SC}:{MS}.after_remote_test_case_execution", sig={"test_case": "TestCase", "result": "ExecutionResult"},
         requires=["result.num_executed_statements >= 0"],
         modifies=["self._num_executed_statements"],
         ensures=["self._num_executed_statements == old(self._num_executed_statements) + result.num_executed_statements",
                  "self._num_executed_statements >= old(self._num_executed_statements)"])

# ---------------------------------------------------------------------------------------------------------------
# 2. what a caller that only knows the base classes may rely on.  These contracts are *assumed* at call sites
#    through the base class; each clause is exactly the verified contract of the overriding method above
#    (behavioural subtyping: the remaining subclasses - time, memory, coverage plateaus - are unconstrained).
predicate("budget_left(sc)",
          f"implies(typeis(sc, '{MI}'), sc._num_iterations < sc._max_iterations) and "
          f"implies(typeis(sc, '{MT}'), sc._num_executed_tests < sc._max_test_executions) and "
          f"implies(typeis(sc, '{MS}'), sc._num_executed_statements < sc._max_executed_statements)")
contract(f"{SC}:StoppingCondition.is_fulfilled", mode="assume",
         ensures=[f"implies(typeis(self, '{MI}'), result == (self._num_iterations >= self._max_iterations))",
                  f"implies(typeis(self, '{MT}'), result == (self._num_executed_tests >= self._max_test_executions))",
                  f"implies(typeis(self, '{MS}'), result == (self._num_executed_statements >= self._max_executed_statements))"])
contract("pynguin.ga.searchobserver:SearchObserver.after_search_iteration", mode="assume",
         sig={"self": "SearchObserver", "best": "TestSuiteChromosome"},
         modifies=["self._num_iterations"],
         ensures=[f"implies(typeis(self, '{MI}'), self._num_iterations == old(self._num_iterations) + 1)"],
         note="observers other than MaxIterationsStoppingCondition change only their own state (not tracked)")
contract("pynguin.ga.searchobserver:SearchObserver.before_search_start", mode="assume",
         sig={"self": "SearchObserver", "start_time_ns": "int"},
         modifies=["self._num_iterations", "self._num_executed_tests", "self._num_executed_statements"],
         ensures=[f"implies(typeis(self, '{MI}'), self._num_iterations == 0)",
                  f"implies(typeis(self, '{MT}'), self._num_executed_tests == 0)",
                  f"implies(typeis(self, '{MS}'), self._num_executed_statements == 0)"])
contract("pynguin.ga.searchobserver:SearchObserver.before_first_search_iteration", mode="assume",
         sig={"self": "SearchObserver", "initial": "TestSuiteChromosome"})
contract("pynguin.ga.searchobserver:SearchObserver.after_search_finish", mode="assume", sig={"self": "SearchObserver"})

# ---------------------------------------------------------------------------------------------------------------
# 3. the algorithm base class
klass(f"{GA}:GenerationAlgorithm", fields={
    "_stopping_conditions": "list[StoppingCondition]",
    "_search_observers": "list[SearchObserver]",
}, ghost={"g_checked": "bool"})

# every stopping condition is registered as a search observer, each observer once (what
# TestSuiteGenerationAlgorithmFactory.get_search_algorithm sets up)
predicate("wf_alg(a)",
          "all(any(a._search_observers[j] is a._stopping_conditions[i] for j in range(len(a._search_observers))) "
          "    for i in range(len(a._stopping_conditions))) and "
          "all(all(implies(i != j, a._search_observers[i] is not a._search_observers[j]) "
          "    for j in range(len(a._search_observers))) for i in range(len(a._search_observers)))")
predicate("iters_within_budget(a)",
          f"all(implies(typeis(sc, '{MI}'), sc._num_iterations <= sc._max_iterations) for sc in a._stopping_conditions)")

contract(f"{GA}:GenerationAlgorithm.resources_left",
         modifies=["self.g_checked"], ghost_updates={"self.g_checked": "result"},
         ensures=[
                  "implies(result, all(budget_left(sc) for sc in self._stopping_conditions))",
                  "self.g_checked == result"])

ITERS = f"{MI}._num_iterations['*']"
contract(f"{GA}:GenerationAlgorithm.after_search_iteration", sig={"best": "TestSuiteChromosome"},
         requires=["wf_alg(self)", "self.g_checked"],
         modifies=[ITERS, "self.g_checked"], ghost_updates={"self.g_checked": "False"},
         ensures=[f"all(implies(typeis(sc, '{MI}'), sc._num_iterations == old(sc._num_iterations) + 1) "
                  "for sc in self._stopping_conditions)",
                  "not self.g_checked"])
loop(f"{GA}:GenerationAlgorithm.after_search_iteration", 0, invariant=[
    f"all(implies(typeis(self._search_observers[j], '{MI}'), self._search_observers[j]._num_iterations == "
    "old(self._search_observers[j]._num_iterations) + ite(j < _i, 1, 0)) for j in range(len(self._search_observers)))"])

contract(f"{GA}:GenerationAlgorithm.before_search_start",
         requires=["wf_alg(self)"],
         modifies=[ITERS, f"{MT}._num_executed_tests['*']", f"{MS}._num_executed_statements['*']", "self.g_checked"],
         ghost_updates={"self.g_checked": "False"},
         ensures=[f"all(implies(typeis(sc, '{MI}'), sc._num_iterations == 0) for sc in self._stopping_conditions)",
                  "not self.g_checked"])
loop(f"{GA}:GenerationAlgorithm.before_search_start", 0, invariant=[
    f"all(implies(typeis(self._search_observers[j], '{MI}') and j < _i, self._search_observers[j]._num_iterations == 0)"
    " for j in range(len(self._search_observers)))"])

# ---------------------------------------------------------------------------------------------------------------
# 4. every algorithm's main loop.  The search steps are *assumed* to (a) run only after a positive resource check
#    (their `requires`), (b) leave the iteration counters alone, (c) possibly raise the execution counters.
from pyvc.contracts import exception  # noqa: E402

exception("ConstructionFailedException")
exception("GenerationException")
ALG = "pynguin.ga.algorithms"
EXEC = [f"{MT}._num_executed_tests['*']", f"{MS}._num_executed_statements['*']"]
klass(f"{ALG}.abstractmosaalgorithm:AbstractMOSAAlgorithm", fields={}, bases=["GenerationAlgorithm"])
klass(f"{ALG}.mosaalgorithm:MOSAAlgorithm", fields={}, bases=["AbstractMOSAAlgorithm"])
klass(f"{ALG}.dynamosaalgorithm:DynaMOSAAlgorithm", fields={}, bases=["AbstractMOSAAlgorithm"])
klass(f"{ALG}.mioalgorithm:MIOAlgorithm", fields={}, bases=["GenerationAlgorithm"])
klass(f"{ALG}.wholesuitealgorithm:WholeSuiteAlgorithm", fields={}, bases=["GenerationAlgorithm"])
klass(f"{ALG}.randomalgorithm:RandomAlgorithm", fields={}, bases=["GenerationAlgorithm"])
klass(f"{ALG}.randomsearchalgorithm:RandomTestSuiteSearchAlgorithm", fields={}, bases=["GenerationAlgorithm"])
klass(f"{ALG}.randomsearchalgorithm:RandomTestCaseSearchAlgorithm", fields={}, bases=["GenerationAlgorithm"])

STEPS = {
    "mosaalgorithm:MOSAAlgorithm": ["evolve"],
    "dynamosaalgorithm:DynaMOSAAlgorithm": ["evolve"],
    "mioalgorithm:MIOAlgorithm": ["evolve", "_update_parameters"],
    "wholesuitealgorithm:WholeSuiteAlgorithm": ["evolve"],
    "randomalgorithm:RandomAlgorithm": ["generate_sequence"],
}
for k, steps in STEPS.items():
    for s_ in steps:
        contract(f"{ALG}.{k}.{s_}", mode="assume", requires=["self.g_checked"], modifies=EXEC,
                 raises=({"ConstructionFailedException": "True", "GenerationException": "True"}
                         if s_ == "generate_sequence" else {}))
contract(f"{ALG}.abstractmosaalgorithm:AbstractMOSAAlgorithm.local_search", mode="assume",
         requires=["self.g_checked"], modifies=EXEC)
# population construction executes tests but is not a search iteration
for k, m in (("mosaalgorithm:MOSAAlgorithm", "_get_random_population"),):
    pass

GT_REQ = ["wf_alg(self)",
          f"all(implies(typeis(sc, '{MI}'), sc._max_iterations >= 0) for sc in self._stopping_conditions)"]
GT_INV = ["wf_alg(self)", "iters_within_budget(self)", "not self.g_checked",
          f"all(implies(typeis(sc, '{MI}'), sc._max_iterations >= 0) for sc in self._stopping_conditions)"]
GT_MOD = [ITERS, "self.g_checked"] + EXEC + ["self.ALL"]

contract(f"{ALG}.mosaalgorithm:MOSAAlgorithm._initialize_generation",
         requires=GT_REQ, modifies=GT_MOD,
         ensures=[f"all(implies(typeis(sc, '{MI}'), sc._num_iterations == 0) for sc in self._stopping_conditions)",
                  "not self.g_checked", "wf_alg(self)",
                  "self._stopping_conditions == old(self._stopping_conditions)"])
for k in ("mosaalgorithm:MOSAAlgorithm", "dynamosaalgorithm:DynaMOSAAlgorithm", "mioalgorithm:MIOAlgorithm",
          "wholesuitealgorithm:WholeSuiteAlgorithm", "randomalgorithm:RandomAlgorithm",
          "randomsearchalgorithm:RandomTestSuiteSearchAlgorithm", "randomsearchalgorithm:RandomTestCaseSearchAlgorithm"):
    contract(f"{ALG}.{k}.generate_tests", requires=GT_REQ, modifies=GT_MOD, returns="TestSuiteChromosome",
             ensures=["iters_within_budget(self)"])
    nloops = {"dynamosa": 2, "randomalgorithm:": 3}
    for li in range(next((v for kk, v in nloops.items() if kk in k), 1)):
        loop(f"{ALG}.{k}.generate_tests", li, invariant=GT_INV)

# ---------------------------------------------------------------------------------------------------------------
# native replay support
from pyvc.replay import NATIVE_HELPERS, builder  # noqa: E402

NATIVE_HELPERS["typeis"] = lambda x, name: type(x).__name__ == name


def _mk_sc(clsname, cur, lim):
    @builder(clsname)
    def _b(f, ctx):
        import pynguin.ga.stoppingcondition as sc
        k = getattr(sc, clsname)
        o = k.__new__(k)
        sc.StoppingCondition.__init__(o, observes_execution=(clsname != MI))
        if clsname == MS:
            o._remote_observer = sc.RemoteMaxStatementExecutionsObserver()
        setattr(o, cur, f.get(cur, 0))
        setattr(o, lim, f.get(lim, 0))
        return o
    return _b


_mk_sc(MI, "_num_iterations", "_max_iterations")
_mk_sc(MT, "_num_executed_tests", "_max_test_executions")
_mk_sc(MS, "_num_executed_statements", "_max_executed_statements")


@builder("StoppingCondition")
def _b_sc(f, ctx):
    import pynguin.ga.stoppingcondition as sc
    return sc.MaxCoverageStoppingCondition(50)


@builder("SearchObserver")
def _b_so(f, ctx):
    import pynguin.ga.searchobserver as so
    return so.LogSearchObserver()


@builder("TestSuiteChromosome")
def _b_tsc(f, ctx):
    import pynguin.ga.testsuitechromosome as tsc
    return tsc.TestSuiteChromosome()


@builder("GenerationAlgorithm")
def _b_ga(f, ctx):
    from pynguin.ga.algorithms.generationalgorithm import GenerationAlgorithm

    class _Alg(GenerationAlgorithm):
        def generate_tests(self):
            raise NotImplementedError
    a = _Alg()
    a._stopping_conditions = list(f.get("_stopping_conditions", []))
    a._search_observers = list(f.get("_search_observers", []))
    a.g_checked = f.get("g_checked", False)
    return a

# ---------------------------------------------------------------------------------------------------------------
# 5. every configured budget becomes a stopping condition (the factory side of "every configured stopping condition")
from pyvc.contracts import global_var as _gv  # noqa: E402

klass("pynguin.configuration:StoppingConfiguration", fields={
    "maximum_iterations": "int", "maximum_statement_executions": "int", "maximum_test_executions": "int",
    "maximum_search_time": "int", "maximum_coverage": "int", "maximum_coverage_plateau": "int",
    "minimum_coverage": "int", "minimum_plateau_iterations": "int", "maximum_memory": "int"})
klass("pynguin.configuration:Configuration", fields={"stopping": "StoppingConfiguration"})
_gv("pynguin.configuration.configuration", "Configuration")
klass(f"{SC}:MaxSearchTimeStoppingCondition", fields={"_start_time": "int", "_max_seconds": "int"})
klass(f"{SC}:MaxCoverageStoppingCondition", fields={"__max_coverage": "int", "__current_coverage": "int"})
klass(f"{SC}:CoveragePlateauStoppingCondition",
      fields={"__previous_coverage": "float", "__unchanged_iterations": "int", "__iterations": "int"})
klass(f"{SC}:MinimumCoveragePlateauStoppingCondition",
      fields={"__minimum_coverage": "int", "__plateau_iterations": "int", "__last_coverage": "int", "__iterations": "int"})
klass(f"{SC}:MaxMemoryStoppingCondition", fields={"_memory_limit_bytes": "int", "_memory_usage": "int"})
klass(f"{SC}:RemoteMaxStatementExecutionsObserver", fields={})
klass("pynguin.ga.generationalgorithmfactory:GenerationAlgorithmFactory", fields={})


F = "pynguin.ga.generationalgorithmfactory"
contract(f"{F}:GenerationAlgorithmFactory.get_stopping_conditions", returns="list[StoppingCondition]",
         globals_in={"pynguin.configuration.configuration": "Configuration"},
         raises={"AssertionError": "config.configuration.stopping.maximum_iterations == 0 or config.configuration.stopping.maximum_statement_executions == 0 or "
                                   "config.configuration.stopping.maximum_test_executions == 0 or config.configuration.stopping.maximum_search_time == 0 or "
                                   "config.configuration.stopping.maximum_coverage < 0 or config.configuration.stopping.maximum_coverage_plateau == 0 or "
                                   "(config.configuration.stopping.maximum_coverage_plateau < 0 and False) or config.configuration.stopping.minimum_coverage <= 0 or "
                                   "(config.configuration.stopping.minimum_coverage < 100 and config.configuration.stopping.minimum_plateau_iterations <= 0)"},
         ensures=[
             f"implies(config.configuration.stopping.maximum_iterations >= 0, any(typeis(c, '{MI}') and c._max_iterations == config.configuration.stopping.maximum_iterations "
             "and c._num_iterations == 0 for c in result))",
             f"implies(config.configuration.stopping.maximum_statement_executions >= 0, any(typeis(c, '{MS}') and "
             "c._max_executed_statements == config.configuration.stopping.maximum_statement_executions and c._num_executed_statements == 0 for c in result))",
             f"implies(config.configuration.stopping.maximum_test_executions >= 0, any(typeis(c, '{MT}') and "
             "c._max_test_executions == config.configuration.stopping.maximum_test_executions and c._num_executed_tests == 0 for c in result))",
             "implies(config.configuration.stopping.maximum_search_time >= 0, any(typeis(c, 'MaxSearchTimeStoppingCondition') and "
             "c._max_seconds == config.configuration.stopping.maximum_search_time for c in result))",
             "len(result) >= 1",
         ])

NATIVE_HELPERS["config"] = __import__("pynguin.configuration", fromlist=["x"])


@builder("GenerationAlgorithmFactory")
def _b_gaf(f, ctx):
    import pynguin.ga.generationalgorithmfactory as gaf
    return gaf.TestSuiteGenerationAlgorithmFactory.__new__(gaf.TestSuiteGenerationAlgorithmFactory)


@builder("StoppingConfiguration")
def _b_stopcfg(f, ctx):
    import pynguin.configuration as config
    s_ = config.StoppingConfiguration()
    for k_, v_ in f.items():
        setattr(s_, k_, v_)
    return s_


@builder("Configuration")
def _b_cfg(f, ctx):
    import pynguin.configuration as config
    c_ = config.Configuration(project_path="", module_name="",
                              test_case_output=config.TestCaseOutputConfiguration(output_path=""))
    c_.stopping = f.get("stopping") or config.StoppingConfiguration()
    return c_


for _n in ("MaxSearchTimeStoppingCondition", "MaxCoverageStoppingCondition", "CoveragePlateauStoppingCondition",
           "MinimumCoveragePlateauStoppingCondition", "MaxMemoryStoppingCondition"):
    pass
