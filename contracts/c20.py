"""C20 — rendered assertions are valid Python and hold for the observed value."""
from pyvc.contracts import assumption, contract, for_property, klass, lemma, loop, predicate, ufun
from . import c23  # noqa: F401  (libcst node schema, A-STRNUM, native helpers)

for_property("C20")
AA = "pynguin.assertion.assertion_to_ast"
LG = "pynguin.testcase.literalgen"

# ---- proved: the float literal used by exact float rendering and by pytest.approx ---------------------------------------------
# (token validity + 'evaluates to a double equal to the value'; -0.0 may come out as 0.0, which compares equal)
contract(f"{AA}:_make_float_literal", sig={"value": "fp"}, returns="BaseExpression", fp=True,
         ensures=["is_float_lit(result)", "float_ok(result)",
                  "implies(not isnan(value), float_of(result) == value)",
                  "implies(isnan(value), isnan(float_of(result)))"])


# ==== bounded stand-in: observe -> render -> compile -> evaluate against the observed value ===================================
import math as _math  # noqa: E402

from pyvc.bounded import Part, guarded  # noqa: E402

_SUBJECT = '''
import enum
class Color(enum.Enum):
    RED = 1
    GREEN = "g"
class Level(enum.IntEnum):
    LOW = 1
    HIGH = 2
class Word(enum.StrEnum):
    A = "a"
    Q = "it's"
class Perm(enum.Flag):
    R = 1
    W = 2
class Plain:
    def __init__(self):
        self.x = 3
        self.y = [1.5]
        self._hidden = 4
class Sized:
    def __len__(self):
        return 2
'''


def _mk_subject():
    import importlib.util, os, sys, tempfile  # noqa: E401
    d = tempfile.mkdtemp(prefix="c20mod")
    path = os.path.join(d, "c20_subject.py")
    with open(path, "w", encoding="utf-8") as f:
        f.write(_SUBJECT)
    spec = importlib.util.spec_from_file_location("c20_subject", path)
    mod = importlib.util.module_from_spec(spec)
    sys.modules["c20_subject"] = mod
    spec.loader.exec_module(mod)
    return d, mod


def _c20_values(mod, tier):
    inf, nan = _math.inf, _math.nan
    scal = [0, 1, -1, 2 ** 80, -(10 ** 30), True, False, None, "", "a", "it's", 'say "hi"', "back\\slash", "new\nline\ttab",
            "\x00\x7f\x85", "é€😀", "\ud800", "'''\"\"\"", "{x}", b"", b"a'b\"", b"\x00\xff\\\n",
            0.0, -0.0, 1.5, -2.25, 1e16, 1e22, 1e-7, 5e-324, -5e-324, 1.7976931348623157e308, 0.1 + 0.2, 1e308 * 10, inf, -inf, nan,
            complex(1, -2), complex(0, 0), complex(-0.0, 1.5), complex(inf, 1), complex(nan, 0), 3j,
            mod.Color.RED, mod.Color.GREEN, mod.Level.HIGH, mod.Word.A, mod.Word.Q, mod.Perm.R, mod.Perm.R | mod.Perm.W]
    vals = list(scal)
    for p in scal:
        vals += [[p], (p,), [p, p], (p, 1), {"k": p}, [[p]], ([p],), {1: [p]}, [[[[p]]]], [[[[[p]]]]]]
        try:
            hash(p)
        except TypeError:
            continue
        vals += [{p}, frozenset([p]), {p: 1}, {(p,): 2}, {p: {p: 1}}]
    vals += [[], (), set(), frozenset(), {}, [[]], ((),), {"a": {}}, [1, "a", None, True, (2,)], {1, 2, 3}, {None: None},
             {frozenset({1}): 1}, {int: 1}, {(0, nan): 0}, [{"ok": 1}, {frozenset(): 2}], {1.5: "float key"}, {(1.5,): 1},
             int, mod.Color, mod.Plain(), mod.Sized(), object(), range(3), bytearray(b"ab"), iter([1]), lambda: 0, [mod.Plain()],
             {"a": mod.Plain()}, (mod.Sized(),), Exception("x"), type(None), ...]
    return vals


def _check_render(part: Part, tier, seed):
    import shutil, sys  # noqa: E401
    import libcst as cst
    import pytest
    import pynguin.assertion.assertion_trace as at
    import pynguin.assertion.assertiontraceobserver as ato
    import pynguin.configuration as config
    from pynguin.assertion.assertion_to_ast import assertion_to_cst
    from pynguin.utils.naming import get_module_alias
    d, mod = _mk_subject()
    old_name = config.configuration.module_name
    config.configuration.module_name = "c20_subject"
    try:
        public = {n: getattr(mod, n) for n in dir(mod) if not n.startswith("_")}
        for value in _c20_values(mod, tier):
            for max_depth in (1, 2):
                observer = ato.RemoteAssertionTraceObserver()
                trace = at.AssertionTrace()
                try:
                    observer._check_value("var_0", value, 0, trace, depth=0, max_depth=max_depth)   # noqa: SLF001
                except Exception as e:  # noqa: BLE001
                    part.violation("deciding what to assert on never fails", f"observe:{type(value).__name__}",
                                   {"value": repr(value)[:200], "error": f"{type(e).__name__}: {e}"},
                                   target="pynguin.assertion.assertiontraceobserver:RemoteAssertionTraceObserver._check_value")
                    continue
                for a in trace.get_assertions(0):
                    part.case()
                    kind = type(a).__name__
                    vt = type(value).__name__
                    detail = {"observed_value": repr(value)[:300], "assertion": repr(a)[:300]}
                    try:
                        node = assertion_to_cst(a)
                        code = cst.Module(body=[node]).code
                    except Exception as e:  # noqa: BLE001
                        part.violation("rendering the assertion never fails", f"render:{kind}:{_vclass(value)}",
                                       {**detail, "error": f"{type(e).__name__}: {str(e)[:200]}"}, target=f"{AA}:assertion_to_cst")
                        continue
                    detail["rendered"] = code.strip()
                    try:
                        compiled = compile(code, "<exported test>", "exec")
                    except (SyntaxError, ValueError) as e:
                        part.violation("the rendered assertion is valid Python", f"syntax:{kind}:{_vclass(value)}",
                                       {**detail, "error": f"{type(e).__name__}: {e}"}, target=f"{AA}:assertion_to_cst")
                        continue
                    ns = {"pytest": pytest, get_module_alias("c20_subject"): mod, **public, "var_0": value}
                    try:
                        exec(compiled, ns)   # noqa: S102
                    except AssertionError:
                        part.violation("the rendered assertion passes against the observed value", f"false:{kind}:{_vclass(value)}",
                                       detail, target=f"{AA}:assertion_to_cst")
                    except Exception as e:  # noqa: BLE001
                        part.violation("the rendered assertion evaluates without error in the test namespace",
                                       f"eval-error:{kind}:{_vclass(value)}", {**detail, "error": f"{type(e).__name__}: {e}"},
                                       target=f"{AA}:assertion_to_cst")
        # the assertion describes the value *as observed*: code that runs later and changes the object in place (also deep
        # inside it) must not change what was recorded for the earlier position
        import copy

        def grow(v, depth=0):
            """Mutate every mutable container reachable from v in place; returns whether anything was changed."""
            changed = False
            if isinstance(v, list):
                for x in list(v):
                    changed |= grow(x, depth + 1)
                v.append("later")
                changed = True
            elif isinstance(v, dict):
                for x in list(v.values()):
                    changed |= grow(x, depth + 1)
                v["later"] = 0
                changed = True
            elif isinstance(v, set):
                v.add("later")
                changed = True
            elif isinstance(v, tuple):
                for x in v:
                    changed |= grow(x, depth + 1)
            elif isinstance(v, (mod.Plain,)):
                changed |= grow(v.y, depth + 1)
                v.x += 1
                changed = True
            return changed
        for value in _c20_values(mod, tier):
            try:
                snapshot = copy.deepcopy(value)
            except Exception:  # noqa: BLE001
                continue
            observer = ato.RemoteAssertionTraceObserver()
            trace = at.AssertionTrace()
            try:
                observer._check_value("var_0", value, 0, trace, depth=0, max_depth=2)   # noqa: SLF001
            except Exception:  # noqa: BLE001
                continue            # (reported by the loop above)
            if not grow(value):
                continue
            for a in trace.get_assertions(0):
                part.case()
                try:
                    code = cst.Module(body=[assertion_to_cst(a)]).code
                    compiled = compile(code, "<exported test>", "exec")
                except Exception:  # noqa: BLE001
                    continue        # (reported by the loop above)
                ns = {"pytest": pytest, get_module_alias("c20_subject"): mod, **public, "var_0": snapshot}
                try:
                    exec(compiled, ns)   # noqa: S102
                except AssertionError:
                    part.violation("the rendered assertion passes against the observed value", f"not-a-snapshot:{type(a).__name__}:{_vclass(snapshot)}",
                                   {"observed_value": repr(snapshot)[:300], "value_after_later_in_place_changes": repr(value)[:300],
                                    "rendered_after_the_changes": code.strip()},
                                   target="pynguin.assertion.assertiontraceobserver:RemoteAssertionTraceObserver._check_value")
                except Exception:  # noqa: BLE001, S110
                    pass
    finally:
        config.configuration.module_name = old_name
        sys.modules.pop("c20_subject", None)
        shutil.rmtree(d, ignore_errors=True)


def _vclass(v, depth=0):
    """Witness class of an observed value: its type, refined for the float/complex specials and by what it contains."""
    import enum
    if isinstance(v, enum.Enum):
        return "enum-" + "".join(b.__name__ for b in type(v).__mro__[1:3])
    if isinstance(v, float):
        return "float-nan" if v != v else ("float-inf" if _math.isinf(v) else "float")
    if isinstance(v, complex):
        return "complex-nan" if v != v else "complex"
    if isinstance(v, (list, tuple, set, frozenset)) and depth < 6:
        inner = sorted({_vclass(x, depth + 1) for x in v})
        return f"{type(v).__name__}[{','.join(inner)}]"
    if isinstance(v, dict) and depth < 6:
        ks = sorted({_vclass(x, depth + 1) for x in v})
        vs = sorted({_vclass(x, depth + 1) for x in v.values()})
        return f"dict[{','.join(ks)}:{','.join(vs)}]"
    return type(v).__name__


def bounded_render(tier, seed):
    p = Part("C20", "observe-render-evaluate", [f"{AA}:assertion_to_cst", f"{AA}:_value_to_cst", f"{AA}:_object_assertion_to_cst",
                                                f"{AA}:_float_assertion_to_cst", "pynguin.utils.type_utils:is_assertable",
                                                "pynguin.assertion.assertiontraceobserver:RemoteAssertionTraceObserver._check_value"],
             scope="real _check_value -> assertion_to_cst -> compile -> exec against the observed value (namespace: pytest, the "
                   "module alias, the module's public names) for ~70 scalar values (ints incl. huge, bools, None, str/bytes with "
                   "quotes, backslashes, control/non-BMP/surrogate characters, floats incl. -0.0, subnormals, max, inf, NaN, "
                   "complex incl. NaN/inf components, Enum/IntEnum/StrEnum/Flag members) each alone and wrapped in list, tuple, "
                   "set, frozenset, dict (as key and value) up to depth 5, plus dicts with unhashable-literal keys, objects, "
                   "types, sized objects, iterators; observer depth 1 and 2",
             bound="fixed value list; nesting depth <= 5")
    return guarded(p, _check_render, tier, seed)


BOUNDED = [bounded_render]
META = {"level": "other",
        "explanation": "bounded contract check of the real observe -> render -> evaluate pipeline over a fixed value scope, plus "
                       "discharged obligations for _make_float_literal (IEEE doubles); see bounded_parts for the scope",
        "rule": "obligations: one per contract clause/site of _make_float_literal; bounded part: one case per recorded assertion"}


def classify(g):
    return g.get("class", "")
