"""C01 — instrumentation does not change the behaviour of the module under test (bounded, H-prog)."""
from pyvc.contracts import for_property

for_property("C01")
from pyvc.bounded import Part, guarded  # noqa: E402
from .c03 import run_hprog  # noqa: E402

TRC = "pynguin.instrumentation.tracer"


def judge_behaviour(part, mk, fn, k, base, res, trace, sp, imp):
    (r0, _lines, _branches) = base
    if r0 == res:
        return
    out0, std0, args0 = r0
    out1, std1, args1 = res
    detail = {"function": fn, "vector": k, "metrics": mk, "uninstrumented": repr((out0, std0))[:300], "instrumented": repr((out1, std1))[:300]}
    if out0 == out1 and (std0 != std1 or args0 != args1) and std1.startswith(std0[:0]) and set(std1.split("\n")) <= set(std0.split("\n")) | {""}:
        # same result, but the comparison / truth operators of a value of the module ran additional times (their prints and
        # counters show it): the tracer re-evaluates the operator to compute branch distances - by design
        cls = f"extra-operator-evaluation:{fn}"
    elif "OneShot" in repr(args0) and out0 != out1:
        cls = f"iterator-consumed:{fn}"
    else:
        cls = f"behaviour:{fn}:{out0[0]}->{out1[0]}" + (f":{out1[1]}" if out1[0] == "raised" else "")
    part.violation("the instrumented function returns / raises / prints / mutates exactly like the original", cls, detail,
                   target="pynguin.instrumentation.transformer:InstrumentationTransformer.instrument_code")


def bounded_c01(tier, seed):
    p = Part("C01", "behaviour-vs-original", ["pynguin.instrumentation.transformer:InstrumentationTransformer.instrument_code",
                                              f"{TRC}:ExecutionTracer.executed_compare_predicate", f"{TRC}:ExecutionTracer.executed_bool_predicate",
                                              "pynguin.instrumentation.version.python3_12:Python312InstrumentationInstructionsGenerator"],
             scope="H-prog (see C03): returned value (structurally, NaN equal to NaN), exception type, stdout and final state of the "
                   "arguments of the uninstrumented call against the call of the module instrumented through the real import hook "
                   "(dynamic seeding always on) under the metric sets {} (seeding only), {BRANCH}, {LINE}, {BRANCH, LINE}",
             bound="the listed functions and vectors")
    return guarded(p, lambda part, t, s: run_hprog(part, t, s, judge_behaviour, ("S", "B", "L", "BL")), tier, seed)


_CHILD = r'''
import json, sys, tempfile
sys.path.insert(0, sys.argv[2])
from contracts import hprog as H
import pynguin.configuration as config
fn = sys.argv[1]
d = tempfile.mkdtemp(prefix="hprog_c_")
try:
    plain, _p = H.load_plain("hp_plain_c", d)
    inst, sp, _i = H.load_instrumented("hp_inst_c", d, {config.CoverageMetric[m] for m in sys.argv[3].split(",")})
    vp, vi = H.argument_vectors(plain), H.argument_vectors(inst)
    out = []
    for k, (fp, fi) in enumerate(zip(vp[fn], vi[fn])):
        a = H.call(getattr(plain, fn), fp())
        b, _tr = H.traced(inst, sp, fn, fi)
        out.append((k, a == b, repr(a)[:300], repr(b)[:300]))
    print("HPROG-RESULT " + json.dumps(out))
finally:
    import shutil
    shutil.rmtree(d, ignore_errors=True)
'''


_CHILD_STD = r'''
import json, sys, tempfile
sys.path.insert(0, sys.argv[2])
from contracts import hprog as H, hstd
import pynguin.configuration as config
name = sys.argv[1][len("std:"):]
modname, extra, vec = hstd.SUBJECTS[name]
src = hstd._source(modname, extra)
d = tempfile.mkdtemp(prefix="hstd_c_")
try:
    plain, _p = H.load_plain("hs_plain_" + name, d, src)
    inst, sp, _i = H.load_instrumented("hs_inst_" + name, d, {config.CoverageMetric[m] for m in sys.argv[3].split(",")}, src)
    vp, vi = vec(plain), vec(inst)
    out = []
    for fn in vp:
        for k, (fp, fi) in enumerate(zip(vp[fn], vi[fn])):
            a = H.call(getattr(plain, fn), fp())
            b, _tr = H.traced(inst, sp, fn, fi)
            out.append((f"{fn}#{k}", a == b, repr(a)[:300], repr(b)[:300]))
    print("HPROG-RESULT " + json.dumps(out))
finally:
    import shutil
    shutil.rmtree(d, ignore_errors=True)
'''


def _run_child(job):
    import os, subprocess, sys  # noqa: E401
    fn, metrics = job
    root = os.path.dirname(os.path.dirname(os.path.abspath(__file__)))
    env = dict(os.environ)
    try:
        r = subprocess.run([sys.executable, "-c", _CHILD_STD if fn.startswith("std:") else _CHILD, fn, root, metrics],   # noqa: S603
                           capture_output=True, text=True, timeout=600, env=env)
    except subprocess.TimeoutExpired:
        return fn, metrics, None, "timeout", ""
    line = next((ln for ln in r.stdout.splitlines() if ln.startswith("HPROG-RESULT ")), None)
    return fn, metrics, r.returncode, line, r.stderr[-600:]


def _check_checked(part: Part, tier, seed):
    """CHECKED coverage rewrites far more instructions (every load, store, attribute and subscript access, call, jump, return);
    an invalid rewrite can crash the interpreter itself, so every function runs in a process of its own."""
    import ast, json  # noqa: E401
    import multiprocessing as mp
    from . import hprog as H
    names = [n.name for n in ast.parse(H.SOURCE).body if isinstance(n, ast.FunctionDef)]
    # (BRANCH is left out of these sets: its known findings - operators evaluated again, one-shot iterators - are judged in
    #  the other part and would only repeat here)
    jobs = [(fn, m) for fn in names for m in ("CHECKED", "CHECKED,LINE")]
    from . import hstd
    jobs += [(f"std:{n}", "CHECKED") for n in hstd.SUBJECTS]          # each module of the stdlib corpus, all its calls
    with mp.get_context("fork").Pool(8) as pool:
        results = pool.map(_run_child, jobs)
    tgt = "pynguin.instrumentation.version.python3_12:CheckedCoverageInstrumentation"
    for fn, metrics, rc, line, err in results:
        if line is None or line == "timeout":
            part.case()
            kind = "interpreter-crash" if (rc is not None and rc < 0) else "instrumented-module-fails"
            part.violation("the instrumented function returns / raises / prints / mutates exactly like the original",
                           f"{kind}:{fn}", {"function": fn, "metrics": metrics, "exit_status_of_the_process": rc,
                                            "stderr_tail": err[-400:], "note": "negative exit status = killed by that signal (11: segmentation fault)"},
                           target=tgt)
            continue
        for k, same, a, b in json.loads(line[len("HPROG-RESULT "):]):
            part.case()
            if not same:
                part.violation("the instrumented function returns / raises / prints / mutates exactly like the original",
                               f"behaviour-under-checked:{fn}", {"function": fn, "vector": k, "metrics": metrics, "uninstrumented": a,
                                                                 "instrumented": b}, target=tgt)


def bounded_checked(tier, seed):
    p = Part("C01", "behaviour-under-checked-coverage", ["pynguin.instrumentation.version.python3_12:CheckedCoverageInstrumentation",
                                                         "pynguin.instrumentation.version.python3_10:CheckedCoverageInstrumentation.visit_jump"],
             scope="H-prog under the metric sets {CHECKED} and {CHECKED, LINE}: every function in a process of its own (a wrong "
                   "rewrite can crash the interpreter), all argument vectors, same comparison with the uninstrumented call",
             bound="the listed functions and vectors")
    return guarded(p, _check_checked, tier, seed)


def bounded_stdlib(tier, seed):
    from . import hstd
    p = Part("C01", "stdlib-corpus", ["pynguin.instrumentation.transformer:InstrumentationTransformer.instrument_code",
                                      "pynguin.instrumentation.version.python3_12:BranchCoverageInstrumentation",
                                      "pynguin.instrumentation.version.python3_12:LineCoverageInstrumentation",
                                      "pynguin.instrumentation.version.python3_12:DynamicSeedingInstrumentation"],
             scope=hstd.SCOPE_TEXT + "; same comparison of the instrumented with the uninstrumented call as for H-prog, under {BRANCH}, "
                   "{LINE}, {BRANCH, LINE} (dynamic seeding always on); a module that cannot be imported through the import hook counts "
                   "as a violation", bound="the listed modules and calls")
    return guarded(p, lambda part, t, s: hstd.run_corpus(part, t, s, "C01", "c01", "judge_behaviour", ("B", "L", "BL"),
                                                          import_failure_is_violation=True), tier, seed)


def _sweep_worker(job):
    """Instrument (not run) the given source files with one set of adapters; returns [(file, error)]."""
    paths, which = job
    import traceback
    from pynguin.analyses.constants import ConstantPool, DynamicConstantProvider, EmptyConstantProvider
    from pynguin.instrumentation.tracer import SubjectProperties
    from pynguin.instrumentation.transformer import InstrumentationTransformer
    from pynguin.instrumentation.version import (BranchCoverageInstrumentation, CheckedCoverageInstrumentation,
                                                 DynamicSeedingInstrumentation, LineCoverageInstrumentation)
    bad, n = [], 0
    for path in paths:
        try:
            with open(path, encoding="utf-8") as f:
                code = compile(f.read(), path, "exec")
        except Exception:  # noqa: BLE001, S112
            continue
        n += 1
        sp = SubjectProperties()
        if which == "CHECKED":
            adapters = [CheckedCoverageInstrumentation(sp)]
        else:
            dcp = DynamicConstantProvider(ConstantPool(), EmptyConstantProvider(), probability=0, max_constant_length=1)
            adapters = [BranchCoverageInstrumentation(sp), LineCoverageInstrumentation(sp), DynamicSeedingInstrumentation(dcp)]
        try:
            InstrumentationTransformer(sp, adapters).instrument_code(code, "m")
        except BaseException as e:  # noqa: BLE001
            tb = traceback.extract_tb(e.__traceback__)[-1]
            bad.append((path, f"{type(e).__name__}: {str(e)[:120]} (in {tb.name})"))
    return n, bad


def _check_sweep(part: Part, tier, seed):
    import multiprocessing as mp
    import os, random, sysconfig  # noqa: E401
    lib = sysconfig.get_paths()["stdlib"]
    skip = {"test", "tests", "site-packages", "idlelib", "lib2to3", "__pycache__", "turtledemo", "tkinter", "ensurepip"}
    files = []
    for root, dirs, fs in os.walk(lib):
        dirs[:] = sorted(d for d in dirs if d not in skip and not d.startswith("config-"))
        files += [os.path.join(root, f) for f in sorted(fs) if f.endswith(".py")]
    if tier != "thorough":
        rng = random.Random(seed)
        files = rng.sample([f for f in files if os.path.getsize(f) < 60000], 64)
    jobs = [(files[i::16], which) for which in ("BRANCH+LINE+SEEDING", "CHECKED") for i in range(16)]
    with mp.get_context("fork").Pool(16) as pool:
        results = pool.map(_sweep_worker, jobs)
    for (paths, which), (n, bad) in zip(jobs, results):
        part.inputs_run += n
        part.nontrivial += n
        for path, err in bad:
            part.violation("instrumentation never raises: every syntactically valid module can be instrumented",
                           f"not-instrumentable:{which}:{err.split(':')[0]}",
                           {"file": os.path.relpath(path, lib), "adapters": which, "error": err},
                           target="pynguin.instrumentation.transformer:InstrumentationTransformer.instrument_code")


def bounded_sweep(tier, seed):
    p = Part("C01", "stdlib-instrumentability", ["pynguin.instrumentation.transformer:InstrumentationTransformer.instrument_code"],
             scope="the code objects of a seeded sample of 64 (thorough: all ~510) .py files of the running interpreter's standard "
                   "library (tests, idlelib, tkinter, lib2to3 left out) are instrumented - not executed - once with branch + line + "
                   "dynamic-seeding adapters and once with the checked-coverage adapter; any exception is a violation",
             bound="instrumentation only, no execution")
    return guarded(p, _check_sweep, tier, seed)


BOUNDED = [bounded_c01, bounded_checked, bounded_stdlib, bounded_sweep]
META = {"level": "other", "explanation": "bounded differential contract check: the uninstrumented run is the oracle",
        "rule": "one case per (function, argument vector, metric set)"}


def classify(g):
    return g.get("class", "")
