"""C01 — instrumentation does not change the behaviour of the module under test (bounded, H-prog)."""
from pyvc.contracts import for_property

for_property("C01")
from pyvc.bounded import Part, guarded  # noqa: E402
from .c03 import run_hprog  # noqa: E402

TRC = "pynguin.instrumentation.tracer"


def judge_behaviour(part, mk, fn, k, base, res, trace, sp, imp):
    (r0, _lines, _branches) = base
    if r0 == res:
        return
    out0, std0, args0 = r0
    out1, std1, args1 = res
    detail = {"function": fn, "vector": k, "metrics": mk, "uninstrumented": repr((out0, std0))[:300], "instrumented": repr((out1, std1))[:300]}
    if out0 == out1 and (std0 != std1 or args0 != args1) and std1.startswith(std0[:0]) and set(std1.split("\n")) <= set(std0.split("\n")) | {""}:
        # same result, but the comparison / truth operators of a value of the module ran additional times (their prints and
        # counters show it): the tracer re-evaluates the operator to compute branch distances - by design
        cls = f"extra-operator-evaluation:{fn}"
    elif "OneShot" in repr(args0) and out0 != out1:
        cls = f"iterator-consumed:{fn}"
    else:
        cls = f"behaviour:{fn}:{out0[0]}->{out1[0]}" + (f":{out1[1]}" if out1[0] == "raised" else "")
    part.violation("the instrumented function returns / raises / prints / mutates exactly like the original", cls, detail,
                   target="pynguin.instrumentation.transformer:InstrumentationTransformer.instrument_code")


def bounded_c01(tier, seed):
    p = Part("C01", "behaviour-vs-original", ["pynguin.instrumentation.transformer:InstrumentationTransformer.instrument_code",
                                              f"{TRC}:ExecutionTracer.executed_compare_predicate", f"{TRC}:ExecutionTracer.executed_bool_predicate",
                                              "pynguin.instrumentation.version.python3_12:Python312InstrumentationInstructionsGenerator"],
             scope="H-prog (see C03): returned value (structurally, NaN equal to NaN), exception type, stdout and final state of the "
                   "arguments of the uninstrumented call against the call of the module instrumented through the real import hook "
                   "(dynamic seeding always on) under the metric sets {BRANCH}, {LINE}, {BRANCH, LINE}",
             bound="the listed functions and vectors; CHECKED coverage is not run (see level_note)")
    return guarded(p, lambda part, t, s: run_hprog(part, t, s, judge_behaviour, ("B", "L", "BL")), tier, seed)


BOUNDED = [bounded_c01]
META = {"level": "other", "explanation": "bounded differential contract check: the uninstrumented run is the oracle",
        "rule": "one case per (function, argument vector, metric set)"}


def classify(g):
    return g.get("class", "")
