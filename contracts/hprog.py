"""H-prog: the shared bounded harness of C01 / C02 / C03 — a module of small functions, argument vectors, and three views of
one call: the uninstrumented run (with the interpreter's own LINE and BRANCH events from sys.monitoring) and the run of the
module instrumented by the real import hook under the real tracer."""
from __future__ import annotations

import contextlib
import decimal
import fractions
import io
import math
import os
import sys

SOURCE = '''
import math


class OnlyLt:
    def __init__(self, v):
        self.v = v

    def __lt__(self, other):
        return self.v < other.v


class Loud:
    """every comparison prints: a second evaluation would be visible"""

    def __init__(self, v):
        self.v = v
        self.calls = 0

    def __eq__(self, other):
        self.calls += 1
        print("eq", self.v)
        return self.v == getattr(other, "v", other)

    def __lt__(self, other):
        self.calls += 1
        print("lt", self.v)
        return self.v < getattr(other, "v", other)

    def __bool__(self):
        self.calls += 1
        print("bool", self.v)
        return bool(self.v)

    def __len__(self):
        self.calls += 1
        return 3

    def __hash__(self):
        return hash(self.v)


class LoudStr(str):
    """a str whose length protocol prints: dynamic seeding must not ask a value of the module for it"""

    def __len__(self):
        print("len")
        return str.__len__(self)


def cmp_eq(a, b):
    if a == b:
        return "eq"
    return "ne"


def cmp_ne(a, b):
    if a != b:
        return "ne"
    return "eq"


def cmp_lt(a, b):
    if a < b:
        return "lt"
    return "ge"


def cmp_le(a, b):
    if a <= b:
        return "le"
    return "gt"


def cmp_gt_ge(a, b):
    r = []
    if a > b:
        r.append("gt")
    if a >= b:
        r.append("ge")
    return r


def contains(a, b):
    if a in b:
        return "in"
    if a not in b:
        return "not in"
    return "neither"


def identity(a, b):
    if a is b:
        return "is"
    elif a is not None:
        return "not none"
    return "none"


def none_check(a):
    if a is None:
        return 0
    if a is not None and a:
        return 1
    return 2


def truthy(a):
    if a:
        return "t"
    if not a:
        return "f"
    return "?"


def bool_ops(a, b, c):
    if (a and b) or c:
        return 1
    return 0 if a or (b and not c) else -1


def chained(a, b, c):
    if a < b < c:
        return "asc"
    if a >= b >= c:
        return "desc"
    return "mixed"


def while_counter(n):
    i = 0
    while i < n:
        i += 1
        if i == 3:
            continue
        if i > 5:
            break
    else:
        i = -i
    return i


def for_loop(xs):
    total = 0
    for x in xs:
        if x is None:
            break
        total += 1
    else:
        total += 100
    return total


def nested_loops(n):
    out = []
    for i in range(n):
        for j in range(i):
            if (i + j) % 2:
                out.append((i, j))
    return out


def try_except(a, b):
    try:
        r = a / b
    except ZeroDivisionError:
        r = "zero"
    except TypeError:
        r = "type"
    else:
        r = ("ok", r)
    finally:
        a = None
    return r


def raises(a):
    if a < 0:
        raise ValueError(a)
    return math.sqrt(a)


def comprehension(xs):
    return [x * 2 for x in xs if x], {x for x in xs if x is not None}, {x: 1 for x in xs if x}


def string_ops(s, p):
    r = []
    if s.startswith(p):
        r.append("starts")
    if s.endswith(p):
        r.append("ends")
    if s.isdigit():
        r.append("digit")
    if s.isalpha() or s.isspace():
        r.append("alpha-or-space")
    if s == "needle":
        r.append("found")
    return r


def subscript(xs, i):
    if xs[i]:
        return xs[i]
    return xs[i:i + 2]


def mutate_args(xs, d):
    xs.append(len(xs))
    if xs[0] in d:
        d[xs[0]] += 1
    else:
        d[xs[0]] = 0
    return None


def generator(n):
    def gen(k):
        for i in range(k):
            if i % 2:
                yield i
        yield -1
    return list(gen(n))


def with_stmt(a):
    import contextlib
    with contextlib.suppress(KeyError):
        if a:
            raise KeyError(a)
        return "no raise"
    return "suppressed"


def match_stmt(p):
    match p:
        case (0, y):
            return ("zero", y)
        case {"k": v} if v:
            return ("dict", v)
        case [a, *rest]:
            return ("seq", a)
        case str() | bytes():
            return ("text", p)
        case _:
            return None


def ternary_lambda(a):
    f = lambda v: v if v else None
    return (1 if a else 2, f(a))


def asserting(a):
    assert a != 0, "nonzero"
    return 1 / a


def printing(a):
    print("value", a)
    if a:
        print("truthy")
    return a


def early_returns(a, b):
    if a is None:
        return "none"
    if b:
        return "b"
    for x in (a, b):
        if x == 0:
            return "zero"
    return "end"


def exception_flow(a):
    try:
        try:
            if a:
                raise KeyError(a)
        finally:
            a = 0
    except (KeyError, IndexError) as e:
        return type(e).__name__
    return "none"


def while_try_finally(a, b, xs):
    out = []
    while b < 4:
        if a == 3:
            b += 2
        try:
            if b == 4:
                a += 1
            out.append(xs[b])
        except IndexError:
            out.append(-1)
        finally:
            b += 1
        b += 1
    while a < 2:
        try:
            a += 1
        finally:
            out.append(a)
    return a, b, out
'''


class OneShot:
    """a one-shot iterator"""

    def __init__(self, items):
        self._it = iter(items)

    def __iter__(self):
        return self

    def __next__(self):
        return next(self._it)

    def __repr__(self):
        return "OneShot(...)"


def argument_vectors(mod):
    """function name -> list of zero-argument factories of argument tuples (fresh objects per call)."""
    nan, inf = math.nan, math.inf
    D, F = decimal.Decimal, fractions.Fraction
    nums = [0, 1, -1, 2 ** 53, 2 ** 53 + 1, 10 ** 400, -(10 ** 400), 0.0, -0.0, 1.5, nan, inf, -inf, True, D("1.5"), F(1, 3), 1 + 2j]
    pairs = [(a, b) for a in nums[:14:2] for b in nums[1:14:3]] + [(nan, nan), (inf, inf), (2 ** 53 + 1, float(2 ** 53)), (10 ** 400, 1.0),
                                                                  (D(1), 1.5), (F(1, 2), 0.5), (D("9e999999"), D("-9e999999")), (D("sNaN"), 1), (D("NaN"), D("NaN")), (1 + 2j, 1 + 2j), ("a", "b"), ("a", 1),
                                                                  (None, None), ((1, 2), (1, 3)), ([1], [1]), (b"a", "a"), ({1}, {2}),
                                                                  # bytes that are not text in any particular encoding
                                                                  (b"\x89PNG", b"\xff\xd8\xff"), (b"\xff", b"a"), (bytearray(b"\x80"), b"\x80\x81"),
                                                                  (b"\xc3", b"\xc3\xa9"), (b"", b"\xfe"),
                                                                  # floats closer than one machine epsilon, and denormals
                                                                  (0.1 + 0.2, 0.3), (0.3, 0.1 + 0.2), (1.0, 1.0 + 2 ** -52), (5e-324, 0.0), (1e-300, -1e-300),
                                                                  (1e16, 1e16 + 2.0)]
    vec = {}
    L = lambda *xs: [lambda xs=xs: xs]     # noqa: E731
    def many(items):
        return [lambda it=it: it for it in items]
    vec["cmp_eq"] = many(pairs) + [lambda: (mod.Loud(1), mod.Loud(1)), lambda: (mod.OnlyLt(1), mod.OnlyLt(1)),
                                   lambda: (mod.LoudStr("abc"), "abc"), lambda: (mod.LoudStr("abc"), mod.LoudStr("abc"))]
    vec["cmp_ne"] = many(pairs)
    vec["cmp_lt"] = many(pairs) + [lambda: (mod.OnlyLt(1), mod.OnlyLt(2)), lambda: (mod.OnlyLt(2), mod.OnlyLt(1)), lambda: (mod.Loud(1), mod.Loud(2))]
    vec["cmp_le"] = many(pairs) + [lambda: (mod.OnlyLt(1), mod.OnlyLt(2))]
    vec["cmp_gt_ge"] = many(pairs[:20]) + [lambda: (mod.OnlyLt(2), mod.OnlyLt(1))]
    vec["contains"] = many([(0.1 + 0.2, [0.3, 1.0]), (1e-300, [0.0]), (1, [1, 2]), (3, [1, 2]), ("a", "abc"), ("z", "abc"), (1, {1: 2}), (nan, [nan]), (float("nan"), [float("nan")]), (1, 5),
                            (None, (None,)), (2 ** 53 + 1, [float(2 ** 53)]), ("a", {"a", "b"}), ((1,), [(1,)])]) + [
        lambda: (2, OneShot([1, 2, 3])), lambda: (9, OneShot([1, 2, 3])), lambda: (mod.Loud(1), [mod.Loud(1)])]
    vec["identity"] = many([(None, None), (1, None), (None, 1), ((), ()), (nan, nan), ("a", "a")])
    vec["none_check"] = many([(None,), (0,), (1,), ("",), ([],), (nan,)]) + [lambda: (mod.Loud(0),)]
    vec["truthy"] = many([(v,) for v in [0, 1, "", "a", [], [0], None, nan, 0.0, -0.0, D(0), F(0), 0j, 10 ** 400, (), {}, b"", D("sNaN"), D("NaN"), D("9e999999"), F(10 ** 400, 3), 5e-324, 1e-300, -1e-17, 2 ** -60]]) + [
        lambda: (mod.Loud(1),), lambda: (mod.Loud(0),), lambda: (mod.OnlyLt(1),)]
    vec["bool_ops"] = many([(a, b, c) for a in (0, 1) for b in (0, "x") for c in (None, [1])])
    vec["chained"] = many([(1, 2, 3), (3, 2, 1), (1, 3, 2), (1, nan, 2), (1, 1, 1), ("a", "b", "c"), (1, "a", 2)])
    vec["while_counter"] = many([(0,), (1,), (3,), (4,), (9,)])
    vec["for_loop"] = many([([],), ([1, 2],), ([1, None, 2],), ((),), ("ab",), (5,)]) + [lambda: (OneShot([1, None]),)]
    vec["nested_loops"] = many([(0,), (1,), (4,)])
    vec["try_except"] = many([(1, 2), (1, 0), ("a", 2), (1.0, 0.0), (10 ** 400, 0.5)])
    vec["raises"] = many([(4,), (-1,), (nan,), ("x",), (10 ** 400,)])
    vec["comprehension"] = many([([],), ([0, 1, None, 2],), ((3, 3),)]) + [lambda: (OneShot([1, 0, 2]),)]
    vec["string_ops"] = many([("needle", "nee"), ("abc", "bc"), ("123", "1"), ("   ", " "), ("", ""), ("abc", ("a", "b")), ("abc", ("x", "c")),
                              ("abc", 1), (b"abc", b"a"), ("needle", "needle")]) + [
        lambda: (mod.LoudStr("needle"), "nee"), lambda: (mod.LoudStr("needle"), mod.LoudStr("dle"))]
    vec["subscript"] = many([([0, 1, 2], 1), ([0, 1, 2], 0), ("abc", 1), ({1: 0}, 1), ([1], 5)])
    vec["mutate_args"] = [lambda: ([7], {7: 1}), lambda: ([7], {}), lambda: (["k", 1], {"j": 0})]
    vec["generator"] = many([(0,), (1,), (5,)])
    vec["with_stmt"] = many([(0,), (1,), ("k",)])
    vec["match_stmt"] = many([((0, 5),), ({"k": 1},), ({"k": 0},), ([1, 2, 3],), ("text",), (b"b",), (None,), (7,)])
    vec["ternary_lambda"] = many([(0,), (1,), ("",), ([1],)])
    vec["asserting"] = many([(1,), (0,), (0.0,), (nan,)])
    vec["printing"] = many([(0,), (1,), ("s",)])
    vec["early_returns"] = many([(None, 1), (1, 1), (0, 0), (1, 0), (nan, 0)])
    vec["exception_flow"] = many([(0,), (1,), ("k",)])
    vec["while_try_finally"] = many([(3, 0, [1, 2]), (0, 0, list(range(9))), (0, 5, []), (1, 3, (7,)), (0, 0, None)])
    return vec


def show(v, depth=0):
    """A structural description of a value in which NaN equals NaN and object identities do not matter."""
    if isinstance(v, float):
        return ("float", "nan") if v != v else ("float", repr(v))
    if isinstance(v, __import__("enum").Enum):
        return (type(v).__name__, v.name)            # (the repr of a module-level enum names the module: copies differ in that)
    if isinstance(v, complex):
        return ("complex", show(v.real), show(v.imag))
    if isinstance(v, (int, str, bytes, bool, type(None), decimal.Decimal, fractions.Fraction)):
        return (type(v).__name__, repr(v))
    if isinstance(v, (list, tuple)) and depth < 6:
        return (type(v).__name__, [show(x, depth + 1) for x in v])
    if isinstance(v, (set, frozenset)) and depth < 6:
        return (type(v).__name__, sorted((show(x, depth + 1) for x in v), key=repr))
    if isinstance(v, dict) and depth < 6:
        return ("dict", [(show(k, depth + 1), show(x, depth + 1)) for k, x in v.items()])
    if hasattr(v, "v") and hasattr(v, "__dict__"):
        return (type(v).__name__, sorted((k, show(x, depth + 1)) for k, x in vars(v).items()))
    return (type(v).__name__,)


def call(func, args):
    """(outcome, stdout, final argument state)"""
    buf = io.StringIO()
    with contextlib.redirect_stdout(buf), contextlib.redirect_stderr(io.StringIO()):      # (stderr: kept out of the check's output)
        try:
            out = ("returned", show(func(*args)))
        except BaseException as e:  # noqa: BLE001
            out = ("raised", type(e).__name__)
    return out, buf.getvalue(), show(list(args))


def load_plain(name, directory, source=None):
    """The module, uninstrumented (own file name so that monitoring can tell its code objects)."""
    import importlib.util
    path = os.path.join(directory, name + ".py")
    with open(path, "w", encoding="utf-8") as f:
        f.write(SOURCE if source is None else source)
    spec = importlib.util.spec_from_file_location(name, path)
    mod = importlib.util.module_from_spec(spec)
    sys.modules[name] = mod          # (modules such as calendar look themselves up in sys.modules while they are imported)
    spec.loader.exec_module(mod)
    return mod, path


def load_instrumented(name, directory, metrics, source=None):
    import importlib
    import pynguin.configuration as config
    from pynguin.instrumentation.machinery import install_import_hook
    from pynguin.instrumentation.tracer import SubjectProperties
    path = os.path.join(directory, name + ".py")
    with open(path, "w", encoding="utf-8") as f:
        f.write(SOURCE if source is None else source)
    if directory not in sys.path:
        sys.path.insert(0, directory)
    sys.modules.pop(name, None)
    config.configuration.module_name = name
    sp = SubjectProperties()
    with install_import_hook(name, sp, coverage_metrics=set(metrics)):
        with sp.instrumentation_tracer:
            mod = importlib.import_module(name)
        sp.instrumentation_tracer.store_import_trace()      # as the generator does: later traces start from the import trace
    return mod, sp, path


def monitored(func, args, path):
    """Run the uninstrumented function under sys.monitoring: (call result, executed lines, taken (line, outcome) pairs)."""
    import dis
    mon = sys.monitoring
    tool = mon.COVERAGE_ID
    class _Lines(set):
        """executed lines; .entered holds the (name, first line) of every code object of the module that was entered"""
    lines, branches = _Lines(), set()
    lines.entered = set()
    instr_cache = {}

    def instrs(code):
        if code not in instr_cache:
            instr_cache[code] = {i.offset: i for i in dis.get_instructions(code)}
        return instr_cache[code]

    def on_line(code, line):
        if code.co_filename == path:
            lines.add(line)
            lines.entered.add((code.co_name, code.co_firstlineno))
        else:
            return mon.DISABLE
        return None

    def on_branch(code, src, dst):
        if code.co_filename != path:
            return mon.DISABLE
        ins = instrs(code)[src]
        later = [o for o in instrs(code) if o > src]       # (dis lists no CACHE entries: the next listed offset is the fall-through)
        nxt = min(later) if later else None
        jumped = dst != nxt
        op = ins.opname
        if op in ("POP_JUMP_IF_FALSE", "FOR_ITER"):
            outcome = not jumped
        elif op in ("POP_JUMP_IF_TRUE", "POP_JUMP_IF_NONE", "POP_JUMP_IF_NOT_NONE"):
            outcome = jumped
        else:
            return None
        line = ins.positions.lineno if ins.positions else None
        branches.add((code.co_name, line, op, outcome))
        return None
    mon.use_tool_id(tool, "hprog")
    try:
        mon.register_callback(tool, mon.events.LINE, on_line)
        mon.register_callback(tool, mon.events.BRANCH, on_branch)
        mon.set_events(tool, mon.events.LINE | mon.events.BRANCH)
        try:
            res = call(func, args)
        finally:
            mon.set_events(tool, 0)
            mon.register_callback(tool, mon.events.LINE, None)
            mon.register_callback(tool, mon.events.BRANCH, None)
    finally:
        mon.free_tool_id(tool)
    return res, lines, branches


def traced(mod, sp, fname, factory):
    """Run the instrumented function under the real tracer: (call result, trace).  The arguments are built inside the
    tracer's context (their classes live in the instrumented module) and the trace is reset before the call."""
    tracer = sp.instrumentation_tracer
    with tracer:
        args = factory()
        tracer.init_trace()
        res = call(getattr(mod, fname), args)
    return res, tracer.get_trace()
