"""Execution state of the symbolic executor."""
from __future__ import annotations

import z3

from .values import V


class FieldAlias:
    """A local name that aliases the container stored in a field (d = self.d)."""

    __slots__ = ("ref", "cls", "field")

    def __init__(self, ref, cls, field):
        self.ref, self.cls, self.field = ref, cls, field


class Frame:
    __slots__ = ("locals", "module", "cls", "target", "fn")

    def __init__(self, module, cls, target, fn, locals_=None):
        self.locals = dict(locals_ or {})
        self.module, self.cls, self.target, self.fn = module, cls, target, fn

    def copy(self):
        return Frame(self.module, self.cls, self.target, self.fn, self.locals)


class State:
    __slots__ = ("pc", "frames", "heap", "alloc", "old", "ghost", "shared")

    def __init__(self):
        self.pc: list = []
        self.frames: list[Frame] = []
        self.heap: dict = {}       # (cls, field) -> list of z3 arrays (one per component)
        self.alloc = z3.Int("alloc0")
        self.old: State | None = None
        self.ghost: dict = {}
        self.shared: frozenset = frozenset()

    def fork(self) -> "State":
        s = State()
        s.pc = list(self.pc)
        s.frames = [f.copy() for f in self.frames]
        s.heap = dict(self.heap)
        s.alloc = self.alloc
        s.old = self.old
        s.ghost = dict(self.ghost)
        s.shared = self.shared
        return s

    # -- functional updates ---------------------------------------------------------
    def assume(self, c) -> "State":
        if z3.is_true(c):
            return self
        s = self.fork()
        s.pc.append(c)
        return s

    def with_local(self, name, val) -> "State":
        s = self.fork()
        s.frames[-1].locals[name] = val
        return s

    @property
    def frame(self) -> Frame:
        return self.frames[-1]

    def lookup(self, name):
        return self.frames[-1].locals.get(name)


class Exc:
    """An exception in flight: class name (or '$any' for an arbitrary exception) + optional value."""

    def __init__(self, name, value: V | None = None, msg=""):
        self.name, self.value, self.msg = name, value, msg

    def __repr__(self):
        return f"Exc({self.name})"


class Outcome:
    __slots__ = ("kind", "st", "val")

    def __init__(self, kind, st, val=None):
        self.kind, self.st, self.val = kind, st, val

    def __repr__(self):
        return f"<{self.kind} {self.val}>"
