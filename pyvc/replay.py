"""Counter-model -> concrete Python inputs -> call of the real function -> native contract evaluation."""
from __future__ import annotations

import ast
import copy
import importlib
import math
import traceback
from fractions import Fraction

import z3

from .contracts import REG
from .types import (TBool, TEnum, TFloat, TFP, TInt, TMap, TNone, TOpaque, TOpt, TRef, TSeq, TSet, TStr, TTuple,
                    comps, zsort)
from .values import V

BUILDERS: dict = {}          # class name -> callable(fields: dict, ctx) -> real object
NATIVE_HELPERS: dict = {}    # extra names for native spec evaluation

INT_UNIVERSE = list(range(-3, 14))
SENTINEL = 1000003


def builder(cls_name):
    def deco(fn):
        BUILDERS[cls_name] = fn
        return fn
    return deco


class DecodeError(Exception):
    pass


class Obj:
    """Decoded symbolic object (before it is turned into a real object)."""

    def __init__(self, cls, ref):
        self.cls, self.ref, self.fields = cls, ref, {}

    def __repr__(self):
        return f"<{self.cls}#{self.ref} {self.fields}>"


class Decoder:
    def __init__(self, engine, model):
        self.e, self.m = engine, model
        self.memo = {}
        self.numerals = set()
        self.truncated = False
        try:
            txt = str(model)
            import re
            for mm in re.findall(r"(?<![\w.!])-?\d+(?![\w.!/])", txt)[:4000]:
                n = int(mm)
                if -50 <= n <= 200:
                    self.numerals.add(n)
        except Exception:  # noqa: BLE001
            pass

    def ev(self, term):
        return self.m.eval(term, model_completion=True)

    def int_of(self, term):
        v = self.ev(term)
        if z3.is_int_value(v):
            return v.as_long()
        raise DecodeError(f"not an int value: {v}")

    def scalar(self, t, term):
        v = self.ev(term)
        if isinstance(t, (TInt, TRef)):
            return self.int_of(term)
        if isinstance(t, TEnum):
            return ("$enum", t.nm, t.members[self.int_of(term) % max(1, len(t.members))])
        if isinstance(t, TBool):
            return z3.is_true(v)
        if isinstance(t, TStr):
            return v.as_string() if z3.is_string_value(v) else ""
        if isinstance(t, TFP):
            return fp_to_float(v)
        if isinstance(t, TOpaque):
            return ("$opaque", t.nm, str(v))
        raise DecodeError(f"scalar {t}")

    def candidates(self, t):
        if isinstance(t, (TInt,)):
            return [z3.IntVal(i) for i in sorted(set(INT_UNIVERSE) | self.numerals)] + [z3.IntVal(SENTINEL)]
        if isinstance(t, TRef):
            return [z3.IntVal(i) for i in range(1, 16)] + [z3.IntVal(SENTINEL)]
        if isinstance(t, TEnum):
            return [z3.IntVal(i) for i in range(len(t.members))]
        if isinstance(t, TBool):
            return [z3.BoolVal(False), z3.BoolVal(True)]
        if isinstance(t, TStr):
            return [z3.StringVal(s) for s in ("", "a", "b", "_a", "__a", "__a__", "ab")]
        raise DecodeError(f"cannot enumerate keys of type {t}")

    def value(self, v: V):
        t = v.t
        if isinstance(t, TNone):
            return None
        if t.scalar:
            if isinstance(t, TRef):
                return self.obj(t.cls, self.int_of(v.z))
            return self.scalar(t, v.z)
        if isinstance(t, TFloat):
            k = self.int_of(v.zs[0])
            if k == 2:
                return math.nan
            if k == 1:
                return math.inf
            if k == -1:
                return -math.inf
            r = self.ev(v.zs[1])
            if z3.is_rational_value(r):
                return float(Fraction(r.numerator_as_long(), r.denominator_as_long()))
            if z3.is_algebraic_value(r):
                return float(r.approx(20).as_fraction())
            raise DecodeError(f"real {r}")
        if isinstance(t, TOpt):
            if z3.is_true(self.ev(v.zs[0])):
                return None
            return self.value(V(t.inner, v.zs[1:]))
        if isinstance(t, TTuple):
            from .values import tuple_items
            return tuple(self.value(x) for x in tuple_items(v))
        if isinstance(t, TSet):
            out = []
            for c in self.candidates(t.elem):
                if z3.is_true(self.ev(z3.Select(v.zs[0], c))):
                    if z3.is_int_value(c) and c.as_long() == SENTINEL:
                        self.truncated = True     # co-finite set in the model: truncated to the small universe
                        continue
                    out.append(self.value(V(t.elem, [c])))
            return ("$set", out)
        if isinstance(t, TMap):
            out = []
            nv = len(comps(t.v))
            for c in self.candidates(t.k):
                if z3.is_true(self.ev(z3.Select(v.zs[0], c))):
                    if z3.is_int_value(c) and c.as_long() == SENTINEL:
                        self.truncated = True
                        continue
                    val = self.value(V(t.v, [z3.Select(a, c) for a in v.zs[1:1 + nv]]))
                    rk = self.int_of(z3.Select(v.zs[-1], c)) if t.ordered else 0
                    out.append((rk, self.value(V(t.k, [c])), val))
            if t.ordered:
                out.sort(key=lambda x: x[0])
            return ("$dict", [(k, val) for _, k, val in out])
        if isinstance(t, TSeq):
            n = self.int_of(v.zs[0])
            if n > 64:
                raise DecodeError("long sequence in model")
            return [self.value(V(t.elem, [z3.Select(a, z3.IntVal(i)) for a in v.zs[1:]])) for i in range(n)]
        raise DecodeError(f"decode {t}")

    def obj(self, cls, ref):
        if ref in self.memo:
            return self.memo[ref]
        # dynamic class from the type tag
        tag = self.int_of(z3.Select(z3.Const("H_type", z3.ArraySort(z3.IntSort(), z3.IntSort())), z3.IntVal(ref)))
        for c, ci in self.e.ct.classes.items():
            if ci.cid == tag and self.e.ct.is_subclass(c, cls):
                cls = c
        o = Obj(cls, ref)
        self.memo[ref] = o
        for f, (dc, ft) in self.e.ct.all_fields(cls).items():
            arrs = [z3.Const(f"H_{dc}_{f}{('_' + s) if s else ''}", z3.ArraySort(z3.IntSort(), so)) for s, so in comps(ft)]
            try:
                o.fields[f] = self.value(V(ft, [z3.Select(a, z3.IntVal(ref)) for a in arrs]))
            except DecodeError as e:
                o.fields[f] = ("$undecodable", str(e))
        return o


def fp_to_float(v):
    if z3.is_fp(v):
        if z3.is_fprm(v):
            return 0.0
        try:
            if v.isNaN():
                return math.nan
            if v.isInf():
                return -math.inf if v.isNegative() else math.inf
            s = v.sign()
            sig, exp = v.significand_as_long(), v.exponent_as_long(biased=True)
            if exp == 0:
                val = (sig / 2 ** 52) * 2.0 ** (-1022)
            else:
                val = (1 + sig / 2 ** 52) * 2.0 ** (exp - 1023)
            return -val if s else val
        except Exception:
            return float(eval(str(v)))
    raise DecodeError(f"fp {v}")


def small_model(ob, engine, timeout_ms=8000):
    """Re-solve the refuted query with all input containers bounded to a small universe, so that the
    model can be materialised.  Returns a model or None."""
    s = z3.Solver()
    s.set("timeout", timeout_ms)
    s.add(*ob.pc)
    s.add(z3.Not(ob.goal))
    lo, hi = 0, 9
    cons = [z3.Int("alloc0") <= 12]

    def bound_value(t, zs, depth):
        cs = dict(zip([c[0] for c in comps(t)], zs))
        out = _bound_type(t, lambda suf, so: cs[suf], [], lo, hi)
        inner = t.inner if isinstance(t, TOpt) else t
        if isinstance(inner, TRef) and depth < 2:
            ref = zs[-1]
            for f, (dc, ft) in engine.ct.all_fields(inner.cls).items():
                arrs = [z3.Const(f"H_{dc}_{f}{('_' + su) if su else ''}", z3.ArraySort(z3.IntSort(), so))
                        for su, so in comps(ft)]
                out += bound_value(ft, [z3.Select(a, ref) for a in arrs], depth + 1)
        return out
    for nme, v in engine.input_vars.items():
        cons += bound_value(v.t, v.zs, 0)
    s.add(*cons)
    if s.check() == z3.sat:
        return s.model()
    return None


def _bound_type(t, comp_term, qvars, lo, hi, prefix=""):
    """Constraints that bound every container inside a value of type t; comp_term(suffix, sort) gives the term
    of a flattened component."""
    out = []
    if isinstance(t, TOpt):
        return _bound_type(t.inner, lambda suf, so: comp_term("v" + suf, so), qvars, lo, hi)
    if isinstance(t, TSet) and isinstance(t.elem, (TInt, TRef)):
        x = z3.Int("bx")
        arr = comp_term("", z3.ArraySort(zsort(t.elem), z3.BoolSort()))
        body = z3.Implies(z3.Select(arr, x), z3.And(x >= lo, x <= hi))
        out.append(z3.ForAll(qvars + [x], body))
    if isinstance(t, TMap) and isinstance(t.k, (TInt, TRef)):
        x = z3.Int("bx")
        arr = comp_term("keys", z3.ArraySort(zsort(t.k), z3.BoolSort()))
        body = z3.Implies(z3.Select(arr, x), z3.And(x >= lo, x <= hi))
        out.append(z3.ForAll(qvars + [x], body))
    if isinstance(t, TSeq):
        ln = comp_term("len", z3.IntSort())
        out.append(z3.ForAll(qvars, ln <= 6) if qvars else ln <= 6)
    return out


# ---------------------------------------------------------------------------------------
# materialisation


class Ctx:
    def __init__(self, engine=None):
        self.objs = {}
        self.engine = engine

    def real(self, x):
        """Decoded value -> real Python value."""
        if isinstance(x, Obj):
            if x.ref in self.objs:
                return self.objs[x.ref]
            b = BUILDERS.get(x.cls)
            if b is None and self.engine is not None:
                for c in self.engine.ct.mro(x.cls):
                    if c in BUILDERS:
                        b = BUILDERS[c]
                        break
            if b is None:
                raise DecodeError(f"no builder for class {x.cls}")
            fields = {}
            for k, v in x.fields.items():
                if isinstance(v, tuple) and v and v[0] == "$undecodable":
                    continue
                fields[k] = self.real(v)
            o = b(fields, self)
            self.objs[x.ref] = o
            return o
        if isinstance(x, tuple) and x and x[0] == "$set":
            return set(self.real(i) for i in x[1])
        if isinstance(x, tuple) and x and x[0] == "$dict":
            return {self.real(k): self.real(v) for k, v in x[1]}
        if isinstance(x, tuple) and x and x[0] == "$enum":
            return NATIVE_HELPERS.get("$enum:" + x[1], lambda m: m)(x[2])
        if isinstance(x, tuple) and len(x) == 2 and x[0] == "$py":
            return x[1]
        if isinstance(x, tuple) and x and x[0] == "$opaque":
            return ("opaque", x[1], x[2])
        if isinstance(x, tuple):
            return tuple(self.real(i) for i in x)
        if isinstance(x, list):
            return [self.real(i) for i in x]
        return x


def native_env():
    env = {
        "implies": lambda a, b: (not a) or b,
        "iff": lambda a, b: bool(a) == bool(b),
        "ite": lambda c, a, b: a if c else b,
        "keys": lambda d: set(d.keys()) if hasattr(d, "keys") else set(d),
        "isnan": lambda x: isinstance(x, float) and math.isnan(x),
        "isinf": lambda x: isinstance(x, float) and math.isinf(x),
        "isfinite": lambda x: math.isfinite(x),
        "card": len,
        "subset": lambda a, b: set(a) <= set(b),
        "disjoint": lambda a, b: not (set(a) & set(b)),
        "same": lambda a, b: a is b or a == b or (a != a and b != b),
        "real": float,
        "inf": math.inf,
        "nan": math.nan,
        "floor": math.floor,
        "forall": _native_forall,
        "exists": _native_exists,
    }
    env.update({k: v for k, v in NATIVE_HELPERS.items() if not k.startswith("$")})
    for name, p in REG.predicates.items():
        env[name] = _mk_pred(p, env)
    return env


_UNIVERSE = {"int": list(range(-3, 14)), "bool": [False, True]}


def _native_forall(f, *types):
    """Bounded-universe evaluation of a spec quantifier: a False answer exhibits a genuine witness."""
    import itertools
    doms = [_UNIVERSE[t] for t in types]
    return all(f(*xs) for xs in itertools.product(*doms))


def _native_exists(f, *types):
    raise NotImplementedError("existential spec quantifier cannot be evaluated natively over a bounded universe")


def _mk_pred(p, env):
    return eval(f"lambda {', '.join(p.params)}: ({p.body.strip()})", env)


def eval_with(expr_src_or_tree, env, loc):
    """Evaluate an expression with `loc` as *function parameters* (so that generator expressions see them)."""
    src = expr_src_or_tree if isinstance(expr_src_or_tree, str) else ast.unparse(expr_src_or_tree)
    names = sorted(loc)
    fn = eval(f"lambda {', '.join(names)}: ({src.strip()})", env)
    return fn(**loc)


class _OldRewriter(ast.NodeTransformer):
    def __init__(self):
        self.olds = []

    def visit_Call(self, node):
        if isinstance(node.func, ast.Name) and node.func.id == "old" and len(node.args) == 1:
            self.olds.append(node.args[0])
            return ast.copy_location(ast.Name(id=f"__old_{len(self.olds) - 1}", ctx=ast.Load()), node)
        return self.generic_visit(node)


def _old_copy(val, depth=0):
    """Snapshot for old(): containers are values (copied, two levels), objects are identities (kept)."""
    if isinstance(val, dict):
        return {k: (_old_copy(v, depth + 1) if depth < 1 else v) for k, v in val.items()}
    if isinstance(val, list):
        return [(_old_copy(v, depth + 1) if depth < 1 else v) for v in val]
    if isinstance(val, (set, frozenset)):
        return set(val)
    if isinstance(val, tuple):
        return val
    if type(val).__name__ in ("OrderedSet", "FrozenOrderedSet"):
        return set(val)
    return val


def native_check(target, con, args: dict, call, ensures=None):
    """Run `call(**args)` natively and evaluate the contract.  Returns a dict describing the outcome:
    {'outcome': 'returned'|'raised', 'failed_clauses': [...], 'contract_ok': bool, ...}."""
    env = native_env()
    ensures = list(con.ensures if ensures is None else ensures) + list(getattr(con, "native_ensures", []))
    parsed = []
    pre_env = dict(args)
    olds_all = {}
    n_normal = len(ensures)
    for cl in ensures + list(con.ensures_on_raise):
        rw = _OldRewriter()
        tree = rw.visit(ast.parse(cl.strip(), mode="eval"))
        ast.fix_missing_locations(tree)
        names = {}
        for i, o in enumerate(rw.olds):
            try:
                val = eval_with(o, env, pre_env)
                names[f"__old_{i}"] = _old_copy(val)
            except Exception as e:  # noqa: BLE001
                names[f"__old_{i}"] = e
        parsed.append((cl, tree, names))
    info = {"target": target, "args": {k: _show(v) for k, v in args.items()}}
    # requires must hold natively (otherwise the model is outside the contract's domain)
    for r in con.requires:
        try:
            ok = eval_with(r, env, dict(args))
        except Exception as e:  # noqa: BLE001
            info["requires_error"] = f"{r!r}: {type(e).__name__}: {e}"
            ok = True
        if not ok:
            info["requires_failed"] = r
            info["contract_ok"] = True
            info["outcome"] = "input outside requires"
            return info
    try:
        result = call(**args)
        info["outcome"] = "returned"
        info["result"] = _show(result)
    except BaseException as e:  # noqa: BLE001
        info["outcome"] = "raised"
        info["exception"] = f"{type(e).__name__}: {e}"
        allowed = False
        for ename, cond in con.raises.items():
            if ename == "*" or type(e).__name__ == ename or any(b.__name__ == ename for b in type(e).__mro__):
                try:
                    allowed = bool(eval_with(cond, env, pre_env))
                except Exception:  # noqa: BLE001
                    allowed = True
                break
        failed = [] if allowed else [f"raises {type(e).__name__} not permitted"]
        errors = []
        for cl, tree, names in parsed[n_normal:]:
            loc = dict(args)
            loc.update(names)
            try:
                if not eval_with(tree, env, loc):
                    failed.append(f"on raise: {cl}")
            except Exception as e2:  # noqa: BLE001
                errors.append(f"{cl!r}: evaluation error {type(e2).__name__}: {e2}")
        info["contract_ok"] = not failed
        info["failed_clauses"] = failed
        info["spec_eval_errors"] = errors
        info["traceback"] = traceback.format_exc(limit=3)
        return info
    failed, errors = [], []
    for cl, tree, names in parsed[:n_normal]:
        loc = dict(args)
        loc.update(names)
        loc["ret" if "result" in args else "result"] = result     # (same naming rule as the verifier)
        try:
            ok = eval_with(tree, env, loc)
        except Exception as e:  # noqa: BLE001
            errors.append(f"{cl!r}: evaluation error {type(e).__name__}: {e}")
            continue
        if not ok:
            failed.append(cl)
    info["failed_clauses"] = failed
    info["spec_eval_errors"] = errors
    info["contract_ok"] = not failed
    return info


def _show(v, depth=0):
    try:
        r = repr(v)
    except Exception:  # noqa: BLE001
        r = object.__repr__(v)
    return r if len(r) < 600 else r[:600] + "..."


def resolve_callable(target):
    module, qual = target.split("@")[0].split(":")
    mod = importlib.import_module(module)
    obj = mod
    for part in qual.split("."):
        obj = getattr(obj, part)
    return obj
