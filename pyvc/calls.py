"""Calls: builtins, container methods, repository functions (contract / inline / unspecified)."""
from __future__ import annotations

import ast
import math

import z3

from . import extract
from .comps import Domain, EnumVal, RangeVal, ZipVal
from .contracts import REG
from .exprs import Bag, BuiltinRef, ClassRef, FuncRef, MethodRef, ModRef
from .state import Exc, FieldAlias, Frame, Outcome, State
from .types import (BOOL, FLOAT, FP, INT, NONE, STR, T, TBool, TEnum, TFloat, TFP, TInt, TMap, TNone, TOpaque, TOpt,
                    TRef, TSeq, TSet, TStr, TTuple, comps, zsort)
from . import values as vals
from .values import (NONEV, EngineError, V, coerce, fresh, fresh_name, ite, mk_bool, mk_float, mk_int, mk_str,
                     mk_tuple, opt_isnone, opt_none, opt_some, opt_val, py_eq, same, truth, tuple_items, unify)

LOGGER_NAMES = {"_LOGGER", "_logger", "logger", "LOGGER"}
SET_MUTATORS = {"add", "discard", "remove", "update", "clear", "pop", "difference_update", "intersection_update",
                "symmetric_difference_update"}
MAP_MUTATORS = {"update", "clear", "pop", "setdefault", "popitem"}
SEQ_MUTATORS = {"append", "extend", "pop", "insert", "remove", "sort", "clear", "reverse"}


def is_logger_call(node: ast.Call) -> bool:
    f = node.func
    if isinstance(f, ast.Attribute) and f.attr in ("debug", "info", "warning", "error", "exception", "critical", "log"):
        b = f.value
        if isinstance(b, ast.Name) and b.id in LOGGER_NAMES:
            return True
        if isinstance(b, ast.Attribute) and b.attr in LOGGER_NAMES:
            return True
    return False


class CallMixin:
    # ------------------------------------------------------------------ ast Call
    def ev_Call(self, e: ast.Call, st: State):
        if is_logger_call(e):
            yield st, NONEV
            return
        f = e.func
        # quantifier-like builtins get the unevaluated generator
        if isinstance(f, ast.Name) and st.lookup(f.id) is None:
            nm = f.id
            if nm in ("any", "all") and len(e.args) == 1 and isinstance(e.args[0], ast.GeneratorExp):
                st1, q = self.quantify(st, e.args[0], universal=(nm == "all"))
                yield st1, mk_bool(q)
                return
            if nm == "isinstance" and len(e.args) == 2 and not e.keywords:
                # the class operand is read syntactically (names, tuples, A | B): not evaluated
                for st1, v in self.ev(e.args[0], st):
                    yield from self.bi_isinstance(st1, [v, None], {}, e)
                return
            if self.spec and nm == "old":
                if st.old is None:
                    raise EngineError("old() without a pre-state")
                o = st.old.fork()
                # bound variables of enclosing quantifiers stay visible
                for k, v in st.frame.locals.items():
                    if k not in o.frame.locals:
                        o.frame.locals[k] = v
                o.alloc = st.old.alloc
                o.old = st.old              # old(old(e)) == old(e): nested uses inside an old() stay in the pre-state
                _, v = self.ev1(e.args[0], o)
                yield st, v
                return
            if self.spec and nm in ("forall", "exists"):
                yield st, self.spec_quant(st, e, nm == "forall")
                return
        for st1, fn in self.ev(f, st):
            yield from self.eval_args_then(st1, fn, e)

    def eval_args_then(self, st, fn, e: ast.Call):
        def go(i, st, acc):
            if i == len(e.args):
                yield from gokw(0, st, acc, {})
                return
            a = e.args[i]
            if isinstance(a, ast.Starred):
                if isinstance(fn, V) and isinstance(fn.t, (TOpaque, TRef)):
                    # pass-through of *args to a callable value: the arguments are not tracked
                    yield from go(i + 1, st, acc)
                    return
                if isinstance(fn, (FuncRef, MethodRef, BuiltinRef)):
                    for st1, v in self.ev(a.value, st):
                        v = self.as_value(v)
                        if isinstance(v.t, TTuple):
                            # f(*pair): a tuple of statically known length unpacks into positional arguments
                            yield from go(i + 1, st1, acc + list(tuple_items(v)))
                            continue
                        if not isinstance(v.t, TSeq):
                            raise EngineError(f"*args of a non-sequence at call site: {v.t}")
                        yield from go(i + 1, st1, acc + [("$star", v)])
                    return
                raise EngineError("*args at call site")
            for st1, v in self.ev(a, st):
                yield from go(i + 1, st1, acc + [v])

        def gokw(i, st, acc, kw):
            if i == len(e.keywords):
                yield from self.apply(st, fn, acc, kw, e)
                return
            k = e.keywords[i]
            if k.arg is None:
                if isinstance(fn, V) and isinstance(fn.t, (TOpaque, TRef)):
                    yield from gokw(i + 1, st, acc, kw)
                    return
                raise EngineError("**kwargs at call site")
            if isinstance(k.value, ast.Lambda):
                yield from gokw(i + 1, st, acc, {**kw, k.arg: k.value})
                return
            for st1, v in self.ev(k.value, st):
                yield from gokw(i + 1, st1, acc, {**kw, k.arg: v})
        yield from go(0, st, [])

    def apply(self, st, fn, args, kw, node):
        if isinstance(fn, BuiltinRef):
            yield from self.call_builtin(st, fn.name, args, kw, node)
        elif isinstance(fn, MethodRef):
            yield from self.call_method(st, fn, args, kw, node)
        elif isinstance(fn, FuncRef):
            yield from self.call_function(st, fn, args, kw, node)
        elif isinstance(fn, ClassRef):
            yield from self.construct(st, fn.name, args, kw, node)
        elif isinstance(fn, V) and isinstance(fn.t, TRef) and self.ct.contract_for(fn.t.cls, "__call__")[1] is not None:
            dc_, _ = self.ct.contract_for(fn.t.cls, "__call__")
            fr = FuncRef(self.ct.classes[dc_].module, f"{dc_}.__call__", bound_self=fn, cls=fn.t.cls)
            con_ = self.ct.contract_for(fn.t.cls, "__call__")[1]
            takes = [p for p in con_.sig if p != "self"]
            yield from self.call_function(st, fr, list(args)[:len(takes)], kw if takes else {}, node)
        elif isinstance(fn, V) and isinstance(fn.t, TOpaque):
            # calling an opaque callable: unspecified call
            self.note_assumed(f"call of opaque callable {ast.unparse(node.func)}")
            if getattr(self, "opaque_raise", False):
                self.raise_(st, "$any", msg="call of an opaque callable")
            yield st, fresh(TOpaque("unk"), "callres")
        else:
            raise EngineError(f"call of {fn}: {ast.unparse(node)}")

    def note_assumed(self, what):
        self.assumed_calls[what] = self.assumed_calls.get(what, 0) + 1

    # ------------------------------------------------------------------ write-back of mutated containers
    def assign_to(self, st: State, target: ast.expr, val: V, mut=False) -> State:
        """Assign a value to an lvalue expression (no path splitting expected).  mut=True: the assignment is the
        write-back of an in-place mutation of the container the lvalue holds."""
        if isinstance(target, ast.Name):
            x = st.frame.locals.get(target.id)
            if isinstance(x, FieldAlias):
                return self.field_write(st, x.ref, x.cls, x.field, val)
            if mut and target.id in st.shared and isinstance(val.t, (TSet, TMap, TSeq)):
                raise EngineError(f"mutation of local container {target.id!r} that has a local alias")
            s2 = st.with_local(target.id, val)
            if len(s2.frames) == 1:
                if mut and target.id not in s2.ghost.get("$detached", frozenset()):
                    s2.ghost["$mutated"] = s2.ghost.get("$mutated", frozenset()) | {target.id}
                elif not mut:
                    s2.ghost["$detached"] = s2.ghost.get("$detached", frozenset()) | {target.id}
            return s2
        if isinstance(target, ast.Attribute):
            (st1, base), = self._single(target.value, st)
            base = self.as_value(base)
            if isinstance(base.t, TOpt):
                self.raise_(st1, "AttributeError", opt_isnone(base))
                st1 = st1.assume(z3.Not(opt_isnone(base)))
                base = opt_val(base)
            if isinstance(base.t, TOpaque):
                self.note_assumed(f"attribute store on an opaque object: {ast.unparse(target)[:60]} (no tracked effect)")
                return st1
            if not isinstance(base.t, TRef):
                raise EngineError(f"attribute store on {base.t}")
            setter = self.ct.method(base.t.cls, "$set:" + target.attr)
            if setter is not None and self.ct.field(base.t.cls, target.attr) is None:
                fr = FuncRef(self.ct.classes[setter[0]].module, f"{setter[0]}.$set:{target.attr}", bound_self=base,
                             cls=base.t.cls)
                self.excs.append([])
                try:
                    res = list(self.call_inline(st1, setter[1], fr.module, setter[0],
                                                f"{fr.module}:{setter[0]}.{target.attr}.setter", [val], {}, base, None))
                finally:
                    ex = self.excs.pop()
                self.excs[-1].extend(ex)
                if len(res) != 1:
                    raise EngineError(f"property setter {target.attr} splits into {len(res)} paths")
                return res[0][0]
            return self.field_write(st1, base.z, base.t.cls, target.attr, val)
        if isinstance(target, ast.Subscript):
            (st1, cont), = self._single(target.value, st)
            cont = self.as_value(cont)
            (st2, idx), = self._single(target.slice, st1)
            idx = self.as_value(idx)
            if isinstance(cont.t, TMap) and isinstance(cont.t.k, TOpaque) and cont.t.k.nm == "$empty":
                cont = vals.empty_map(TMap(idx.t, val.t))
            if isinstance(cont.t, TMap):
                st2, new = self.map_put(st2, cont, self.narrow(st2, idx, cont.t.k), val)
            elif isinstance(cont.t, TSeq):
                i = coerce(idx, INT).z
                n = cont.zs[0]
                ok = z3.And(-n <= i, i < n)
                self.raise_(st2, "IndexError", z3.Not(ok))
                st2 = st2.assume(ok)
                new = vals.seq_set(cont, z3.If(i < 0, i + n, i), val)
            else:
                raise EngineError(f"subscript store on {cont.t}")
            return self.assign_to(st2, target.value, new, mut=True)
        raise EngineError(f"assignment target {ast.unparse(target)}")

    def map_put(self, st, m: V, k: V, v: V):
        """Returns (state, new map)."""
        if not m.t.ordered:
            return st, vals.map_put(m, k, v)
        # ordered map: an existing key keeps its rank, a new key gets a rank above all existing ones
        v = coerce(v, m.t.v)
        nv = len(comps(m.t.v))
        rk = m.zs[-1]
        newrank = z3.Int(fresh_name("rk"))
        q = z3.Const(fresh_name("k"), zsort(m.t.k))
        st = st.assume(z3.ForAll([q], z3.Implies(z3.Select(m.zs[0], q), z3.Select(rk, q) < newrank)))
        zs = [z3.Store(m.zs[0], k.z, z3.BoolVal(True))]
        zs += [z3.Store(a, k.z, x) for a, x in zip(m.zs[1:1 + nv], v.zs)]
        zs.append(z3.If(z3.Select(m.zs[0], k.z), rk, z3.Store(rk, k.z, newrank)))
        return st, V(m.t, zs)

    def _single(self, e, st):
        res = list(self.ev(e, st))
        if len(res) != 1:
            raise EngineError(f"expression splits where a single result is needed: {ast.unparse(e)}")
        return res

    # ------------------------------------------------------------------ builtins
    def call_builtin(self, st, name, args, kw, node):
        m = getattr(self, "bi_" + name.replace(".", "_").replace("$", "_"), None)
        if m is not None:
            yield from m(st, args, kw, node)
            return
        bcon = REG.contracts.get(f"builtins:{name}")
        if bcon is not None and not self.spec:
            # a builtin with an assumed contract (exec, compile, ...)
            yield from self.call_by_contract(st, bcon, None, "builtins", None, bcon.target, args, kw, None, node)
            return
        if name in REG.predicates and self.spec:
            p = REG.predicates[name]
            if len(args) != len(p.params):
                raise EngineError(f"predicate {name} expects {len(p.params)} arguments")
            st2 = st.fork()
            st2.frame.locals = dict(zip(p.params, args))
            # keep 'result' etc. out; but bound quantifier variables are passed explicitly
            v, ax = self.spec_eval_full(p.body, st2)
            for a_ in ax:
                st = st.assume(a_)
            if self.spec_cards:
                st = st.fork()
                st.ghost["$cards"] = self.spec_cards
            yield st, v
            return
        if name in REG.ufuns and self.spec:
            arg_ts, ret_t, fs = self.ufun(name)
            zs = []
            for a, t in zip(args, arg_ts):
                a = self.as_value(a)
                if isinstance(a.t, TOpt) and not isinstance(t, TOpt):
                    a = opt_val(a)        # spec functions are total: the value component of an Optional argument
                if isinstance(a.t, TRef) and isinstance(t, TRef) and a.t.cls != t.cls:
                    a = V(t, a.zs)        # a reference typed with a sub/superclass
                zs += coerce(a, t).zs
            res_ = V(ret_t, [f(*zs) for f in fs])
            # the value of a spec function is a well-formed value of its type (e.g. a float's kind tag is one of four)
            yield (self.assume_wf(st, res_) if isinstance(ret_t, (TFloat, TOpt)) else st), res_
            return
        if name.startswith("time."):
            yield from self.bi_time_time(st, args, kw, node)
            return
        if name in ("type", "getattr", "hasattr", "callable", "hash", "iter", "next", "vars", "issubclass", "object",
                    "reversed", "map", "filter", "ord", "chr", "bytes", "complex", "divmod"):
            # builtins without a model: an unknown value (they may run user code: may raise under opaque_raise)
            self.note_assumed(f"builtin {name}() (unknown result)")
            if name in ("getattr", "hash", "iter", "next", "reversed", "bytes", "complex"):
                self.opq_may_raise(st, f"builtin {name}() on a value of unknown type")
            yield st, fresh(TOpaque("unk"), name)
            return
        if "." in name and not name.startswith("$"):
            modname, _, fname = name.rpartition(".")
            lib_con = REG.contracts.get(f"{modname}:{fname}")
            if lib_con is not None:
                # a library function with an assumed contract
                yield from self.call_by_contract(st, lib_con, None, modname, None, lib_con.target, args, kw, None, node)
                return
        if name == "typing.cast" and len(args) == 2:
            yield st, args[1]          # typing.cast returns its second argument unchanged
            return
        if "." in name and not name.startswith(("math.", "$")):
            # a library function without a model: an unknown value; it may raise if the contract says so
            self.note_assumed(f"library call {name} (unknown result, no effect on tracked state)")
            if getattr(self, "opaque_raise", False):
                self.raise_(st, "$any", msg=f"library call {name}")
            yield st, fresh(TOpaque("unk"), "lib")
            return
        raise EngineError(f"unsupported builtin/library call {name}: {ast.unparse(node)}")

    def bi__logger(self, st, args, kw, node):
        yield st, NONEV

    def bi_len(self, st, args, kw, node):
        a = args[0]
        if isinstance(a, Bag):
            st, c = self.bag_len(st, a)
            yield st, mk_int(c)
            return
        a = self.as_value(a)
        t = a.t
        if isinstance(t, TOpt):
            self.raise_(st, "TypeError", opt_isnone(a))
            st = st.assume(z3.Not(opt_isnone(a)))
            a = opt_val(a)
            t = a.t
        if isinstance(t, TSeq):
            yield st, mk_int(a.zs[0])
        elif isinstance(t, TSet):
            st, c = self.card(st, a)
            yield st, mk_int(c)
        elif isinstance(t, TMap) and t.ordered:
            st, n_, _at = self.okeys(st, a)
            yield st, mk_int(n_)
        elif isinstance(t, TMap):
            st, c = self.card(st, vals.map_keys(a))
            yield st, mk_int(c)
        elif isinstance(t, TStr):
            yield st, mk_int(z3.Length(a.z))
        elif isinstance(t, TTuple):
            yield st, mk_int(len(t.items))
        elif isinstance(t, TRef) and self.ct.method(t.cls, "__len__"):
            m = self.ct.method(t.cls, "__len__")
            fr = FuncRef(self.ct.classes[m[0]].module, f"{m[0]}.__len__", bound_self=a, cls=t.cls)
            yield from self.call_function(st, fr, [], {}, node)
        elif isinstance(t, TOpaque):
            self.note_assumed(f"len() of an opaque value ({t.nm}): some non-negative int")
            self.opq_may_raise(st, "len() of a value of unknown type")
            n = fresh(INT, "len")
            yield st.assume(n.z >= 0), n
        else:
            raise EngineError(f"len of {t}")

    def _minmax(self, st, args, kw, node, is_min):
        if "key" in kw:
            raise EngineError("min/max with key")
        if len(args) == 1:
            # min/max of a sequence of numbers: some element that bounds all others; ValueError when empty
            if "default" in kw:
                raise EngineError("min/max with default")
            st, s = self.to_seq(st, args[0])
            et = s.t.elem
            if not isinstance(et, (TInt, TBool, TFP)):
                raise EngineError(f"min/max over a sequence of {et}")
            n, arr = s.zs[0], s.zs[1]
            self.raise_(st, "ValueError", n == 0)
            st = st.assume(n > 0)
            r = fresh(et, "min" if is_min else "max")
            i, w = z3.Int(fresh_name("i")), z3.Int(fresh_name("w"))
            if isinstance(et, TFP):
                bound = (z3.fpLEQ if is_min else z3.fpGEQ)(r.z, z3.Select(arr, i))
                no_nan = z3.ForAll([i], z3.Implies(z3.And(0 <= i, i < n), z3.Not(z3.fpIsNaN(z3.Select(arr, i)))))
            else:
                bound = (r.z <= z3.Select(arr, i)) if is_min else (r.z >= z3.Select(arr, i))
                no_nan = z3.BoolVal(True)
            facts = z3.And(0 <= w, w < n, r.z == z3.Select(arr, w),
                           z3.ForAll([i], z3.Implies(z3.And(0 <= i, i < n), bound)))
            # (with a NaN among the elements CPython's answer depends on the order: nothing is claimed then)
            yield st.assume(z3.Implies(no_nan, facts)), r
            return
        acc = self.as_value(args[0])
        for b in args[1:]:
            b = self.as_value(b)
            # Python: min keeps the first unless a later one is strictly smaller
            res = list(self.compare(st, ast.Lt() if is_min else ast.Gt(), b, acc, node))
            (st, c), = res
            acc = ite(c, b, acc)
        yield st, acc

    def bi_min(self, st, args, kw, node):
        yield from self._minmax(st, args, kw, node, True)

    def bi_max(self, st, args, kw, node):
        yield from self._minmax(st, args, kw, node, False)

    def bi_abs(self, st, args, kw, node):
        a = self.as_value(args[0])
        if isinstance(a.t, (TInt, TBool)):
            z = coerce(a, INT).z
            yield st, mk_int(z3.If(z < 0, -z, z))
        elif isinstance(a.t, TFloat):
            yield st, vals.f_abs(a)
        elif isinstance(a.t, TFP):
            yield st, vals.mk_fp(z3.fpAbs(a.z))
        else:
            if isinstance(a.t, TOpaque):
                self.opq_may_raise(st, "abs() of a value of unknown type")
                yield st, fresh(TOpaque("arith"), "abs")
                return
            raise EngineError(f"abs of {a.t}")

    def bi_round(self, st, args, kw, node):
        """round(x) with one argument: nearest integer, ties to even (CPython)."""
        if len(args) != 1 or kw:
            raise EngineError("round with ndigits")
        a = self.as_value(args[0])
        if isinstance(a.t, (TInt, TBool)):
            yield st, coerce(a, INT)
            return
        if not isinstance(a.t, TFloat):
            raise EngineError(f"round of {a.t}")
        self.raise_(st, "ValueError", vals.f_isnan(a))
        self.raise_(st, "OverflowError", vals.f_isinf(a))
        st = st.assume(vals.f_isfin(a))
        r = vals.f_r(a)
        fl = z3.ToInt(r)
        frac = r - z3.ToReal(fl)
        res = z3.If(frac < 0.5, fl, z3.If(frac > 0.5, fl + 1, z3.If(fl % 2 == 0, fl, fl + 1)))
        yield st, mk_int(res)

    def bi_int(self, st, args, kw, node):
        if not args:
            yield st, mk_int(0)
            return
        a = self.as_value(args[0])
        if isinstance(a.t, (TInt, TBool)):
            yield st, coerce(a, INT)
        elif isinstance(a.t, TStr):
            # int(s): S2I(s) for plain decimal digit tokens (DIG); anything else has an unknown outcome (A-STRNUM)
            dig = self.DIG(a.z)
            st = st.assume(z3.Implies(dig, self.S2I(a.z) >= 0))
            if not self.spec:
                self.raise_(st, "ValueError", z3.And(z3.Not(dig), z3.Bool(fresh_name("int_rejects"))))
            yield st, mk_int(z3.If(dig, self.S2I(a.z), z3.Function("int_of_str", z3.StringSort(), z3.IntSort())(a.z)))
        elif isinstance(a.t, TFloat):
            self.raise_(st, "ValueError", vals.f_isnan(a))
            self.raise_(st, "OverflowError", vals.f_isinf(a))
            st = st.assume(vals.f_isfin(a))
            r = vals.f_r(a)
            yield st, mk_int(z3.If(r >= 0, z3.ToInt(r), -z3.ToInt(-r)))
        else:
            raise EngineError(f"int() of {a.t}")

    def bi_float(self, st, args, kw, node):
        a = self.as_value(args[0])
        if self.fp_mode and isinstance(a.t, (TInt, TBool)):
            yield self.int_to_fp(st, a)          # IEEE doubles: correctly rounded, OverflowError when too large
        elif isinstance(a.t, (TInt, TBool, TFloat)):
            yield st, coerce(a, FLOAT)
        elif isinstance(a.t, TFP):
            yield st, a
        elif isinstance(a.t, TStr) and self.fp_mode:
            # float(s): an uninterpreted function of the text, defined on the texts VALIDF accepts; ValueError otherwise
            st = st.assume(self.strnum_facts())
            if not self.spec:
                self.raise_(st, "ValueError", z3.Not(self.VALIDF(a.z)))
                st = st.assume(self.VALIDF(a.z))
            yield st, vals.mk_fp(self.S2F(a.z))
        else:
            if isinstance(a.t, TOpaque):
                self.opq_may_raise(st, "float() of a value of unknown type")
                r_ = fresh(FP if self.fp_mode else FLOAT, "tofloat")
                yield self.assume_wf(st, r_), r_
                return
            raise EngineError(f"float() of {a.t}")

    def bi_real(self, st, args, kw, node):
        yield from self.bi_float(st, args, kw, node)

    def bi_bool(self, st, args, kw, node):
        yield st, mk_bool(truth(self.as_value(args[0])))

    def bi_str(self, st, args, kw, node):
        a = args[0] if args else None
        if isinstance(a, V) and isinstance(a.t, TStr):
            yield st, a
        elif isinstance(a, V) and isinstance(a.t, TFP):
            yield from self.bi_repr(st, args, kw, node)          # str(float) is repr(float)
        elif isinstance(a, V) and isinstance(a.t, TInt):
            # str(int): a decimal digit token d with int(d) == |n|, '-' in front of negative numbers (A-STRNUM)
            d = fresh(STR, "digits")
            n = a.z
            st = st.assume(z3.And(self.DIG(d.z), self.S2I(d.z) == z3.If(n >= 0, n, -n), z3.Length(d.z) >= 1,
                                  z3.Not(z3.PrefixOf(z3.StringVal("-"), d.z))))
            yield st, mk_str(z3.If(n >= 0, d.z, z3.Concat(z3.StringVal("-"), d.z)))
        else:
            yield st, fresh(STR, "str")

    # ---- text <-> number conversions that the solver cannot compute: uninterpreted, constrained where they are used (A-STRNUM)
    @property
    def DIG(self):
        return z3.Function("DIG", z3.StringSort(), z3.BoolSort())           # text is a plain decimal integer token

    @property
    def S2I(self):
        return z3.Function("S2I", z3.StringSort(), z3.IntSort())            # int(text) for such tokens

    @property
    def S2F(self):
        return z3.Function("S2F", z3.StringSort(), vals.FP64)              # float(text)

    @property
    def VALIDF(self):
        return z3.Function("VALIDF", z3.StringSort(), z3.BoolSort())        # text is accepted by float()

    @property
    def UNQ(self):
        return z3.Function("UNQ", z3.StringSort(), z3.StringSort())         # value of a string-literal token

    @property
    def ISQ(self):
        return z3.Function("ISQ", z3.StringSort(), z3.BoolSort())           # text is a valid string-literal token

    def strnum_facts(self):
        S = z3.StringVal
        quoted = [z3.And(self.ISQ(S(repr(t))), self.UNQ(S(repr(t))) == S(t)) for t in ("inf", "-inf", "nan")]
        return z3.And(*quoted, self.VALIDF(S("inf")), self.VALIDF(S("nan")), self.VALIDF(S("-inf")),
                      self.S2F(S("inf")) == z3.fpPlusInfinity(vals.FP64), self.S2F(S("-inf")) == z3.fpMinusInfinity(vals.FP64),
                      z3.fpIsNaN(self.S2F(S("nan"))))

    def bi_repr(self, st, args, kw, node):
        a = self.as_value(args[0]) if args and isinstance(args[0], V) else None
        if a is not None and isinstance(a.t, TFP):
            # repr(float): the shortest text that float() maps back to the same double (CPython guarantee, assumed);
            # finite values print with a '.' or an exponent, a leading '-' exactly for negative-signed values
            r = fresh(STR, "reprf")
            x = a.z
            fin = z3.Not(z3.Or(z3.fpIsInf(x), z3.fpIsNaN(x)))
            S = z3.StringVal
            facts = z3.And(
                self.strnum_facts(), self.VALIDF(r.z),
                z3.Implies(fin, z3.And(self.S2F(r.z) == x, z3.Or(z3.Contains(r.z, S(".")), z3.Contains(r.z, S("e"))),
                                       z3.PrefixOf(S("-"), r.z) == z3.fpIsNegative(x), z3.Length(r.z) >= 3)),
                z3.Implies(z3.And(z3.fpIsInf(x), z3.fpIsPositive(x)), r.z == S("inf")),
                z3.Implies(z3.And(z3.fpIsInf(x), z3.fpIsNegative(x)), r.z == S("-inf")),
                z3.Implies(z3.fpIsNaN(x), r.z == S("nan")))
            self.note_assumed("repr(float) round-trips through float() and prints finite values with '.' or 'e' (CPython, assumed)")
            yield st.assume(facts), r
            return
        if a is not None and isinstance(a.t, TStr):
            # repr(str): a valid string-literal token whose value is the string (CPython, assumed)
            r = fresh(STR, "reprs")
            self.note_assumed("repr(str) is a string-literal token that evaluates to the string (CPython, assumed)")
            yield st.assume(z3.And(self.ISQ(r.z), self.UNQ(r.z) == a.z)), r
            return
        yield st, fresh(STR, "repr")

    def bi_cast(self, st, args, kw, node):
        """cast(x, Class) in a spec: x viewed as an instance of a declared subclass (meaningful under an isinstance guard)."""
        a = self.as_value(args[0])
        if isinstance(a.t, TOpt):
            a = opt_val(a)
        cname = args[1].name if isinstance(args[1], ClassRef) else None
        if cname not in self.ct.classes or not isinstance(a.t, TRef):
            raise EngineError("cast(x, Class) needs an object and a declared class")
        yield st, V(TRef(cname), a.zs)

    def bi_isident(self, st, args, kw, node):
        """ASCII identifiers (an under-approximation of str.isidentifier: non-ASCII identifiers are not recognised)."""
        al = z3.Union(z3.Range("a", "z"), z3.Range("A", "Z"), z3.Re("_"))
        yield st, mk_bool(z3.InRe(self.as_value(args[0]).z, z3.Concat(al, z3.Star(z3.Union(al, z3.Range("0", "9"))))))

    def bi_isdigits(self, st, args, kw, node):
        yield st, mk_bool(self.DIG(self.as_value(args[0]).z))

    def bi_isneg(self, st, args, kw, node):
        yield st, mk_bool(z3.fpIsNegative(self.as_value(args[0]).z))

    def bi_samefp(self, st, args, kw, node):
        a, b = self.as_value(args[0]), self.as_value(args[1])
        a = opt_val(a) if isinstance(a.t, TOpt) else a
        b = opt_val(b) if isinstance(b.t, TOpt) else b
        yield st, mk_bool(a.z == b.z)          # SMT equality of doubles: same sign, same value, NaN equals NaN

    def bi_validf(self, st, args, kw, node):
        yield st.assume(self.strnum_facts()), mk_bool(self.VALIDF(self.as_value(args[0]).z))

    def bi_unq(self, st, args, kw, node):
        yield st.assume(self.strnum_facts()), mk_str(self.UNQ(self.as_value(args[0]).z))

    def bi_isquoted(self, st, args, kw, node):
        yield st.assume(self.strnum_facts()), mk_bool(self.ISQ(self.as_value(args[0]).z))

    def bi_math_copysign(self, st, args, kw, node):
        a, b = self.as_value(args[0]), self.as_value(args[1])
        if not (isinstance(a.t, TFP) and isinstance(b.t, TFP)):
            raise EngineError("copysign outside fp mode")
        mag = z3.fpAbs(a.z)
        yield st, vals.mk_fp(z3.If(z3.fpIsNegative(b.z), z3.fpNeg(mag), mag))

    bi_copysign = bi_math_copysign

    def bi_print(self, st, args, kw, node):
        yield st, NONEV

    def bi_super(self, st, args, kw, node):
        cls = st.frame.cls
        slf = st.frame.locals.get("self")
        if cls is None or not isinstance(slf, V):
            raise EngineError("super() outside a method of a declared class")
        yield st, BuiltinRef(f"$super:{cls}")

    def bi_id(self, st, args, kw, node):
        a = self.as_value(args[0])
        if isinstance(a.t, TRef):
            yield st, mk_int(a.z)
        else:
            yield st, fresh(INT, "id")

    def bi_isinstance(self, st, args, kw, node):
        a, c = args
        a = self.as_value(a)
        names = []

        def flat(cn):
            if isinstance(cn, ast.Tuple):
                for x in cn.elts:
                    yield from flat(x)
            elif isinstance(cn, ast.BinOp) and isinstance(cn.op, ast.BitOr):     # isinstance(x, A | B)
                yield from flat(cn.left)
                yield from flat(cn.right)
            else:
                yield cn
        for n in flat(node.args[1]):
            names.append(n.attr if isinstance(n, ast.Attribute) else getattr(n, "id", None))
        yield st, mk_bool(self.isinstance_of(st, a, names))

    def isinstance_of(self, st, a: V, names):
        t = a.t
        if isinstance(t, TOpt):
            return z3.And(z3.Not(opt_isnone(a)), self.isinstance_of(st, opt_val(a), names))
        if isinstance(t, TOpaque):
            # a value of unknown type: the test has an unknown (but fixed per value and class list) outcome
            f_ = z3.Function("isinst_" + "_".join(str(n) for n in names), zsort(t), z3.BoolSort())
            return f_(a.z)
        res = []
        for nm in names:
            if isinstance(t, TRef):
                if nm in self.ct.classes:
                    if self.ct.is_subclass(t.cls, nm):
                        res.append(z3.BoolVal(True))
                    elif self.ct.is_subclass(nm, t.cls):
                        res.append(self.type_constraint(st, a.z, nm))
                    else:
                        res.append(z3.BoolVal(False))
                else:
                    raise EngineError(f"isinstance against undeclared class {nm}")
            else:
                py = {"int": (TInt, TBool), "bool": (TBool,), "float": (TFloat, TFP), "str": (TStr,),
                      "set": (TSet,), "dict": (TMap,), "list": (TSeq,), "tuple": (TTuple, TSeq),
                      "OrderedSet": (TSet,), "frozenset": (TSet,),
                      "Number": (TInt, TBool, TFloat, TFP), "Real": (TInt, TBool, TFloat, TFP),
                      "Sized": (TStr, TSet, TMap, TSeq, TTuple), "Iterable": (TStr, TSet, TMap, TSeq, TTuple),
                      "Collection": (TStr, TSet, TMap, TSeq, TTuple)}.get(nm)
                if py is None:
                    res.append(z3.BoolVal(False))
                else:
                    res.append(z3.BoolVal(isinstance(t, py)))
        return z3.Or(*res) if res else z3.BoolVal(False)

    def bi_typeis(self, st, args, kw, node):
        a = self.as_value(args[0])
        nm = node.args[1].value if isinstance(node.args[1], ast.Constant) else node.args[1].id
        if isinstance(a.t, TOpt):
            a2 = opt_val(a)
            yield st, mk_bool(z3.And(z3.Not(opt_isnone(a)),
                                     z3.Select(self.type_tags(st), a2.z) == self.ct.classes[nm].cid))
            return
        yield st, mk_bool(z3.Select(self.type_tags(st), a.z) == self.ct.classes[nm].cid)

    def bi_range(self, st, args, kw, node):
        zs = []
        for a in args:
            a = self.as_value(a)
            if isinstance(a.t, TOpaque):
                self.note_assumed("range() over an opaque bound: some int")
                a = fresh(INT, "rng")
            zs.append(coerce(a, INT).z)
        if len(zs) == 1:
            yield st, RangeVal(z3.IntVal(0), zs[0])
        elif len(zs) == 2:
            yield st, RangeVal(zs[0], zs[1])
        else:
            stp = z3.simplify(zs[2])
            if z3.is_int_value(stp) and stp.as_long() in (1, -1):
                yield st, RangeVal(zs[0], zs[1], stp.as_long())
            else:
                raise EngineError("range with a step other than 1 / -1")

    def bi_pow(self, st, args, kw, node):
        a, b = self.as_value(args[0]), self.as_value(args[1])
        if len(args) == 2 and isinstance(a.t, (TFloat, TInt)) and isinstance(b.t, (TFloat, TInt)):
            self.note_assumed("pow(x, y): some number (value not modelled, assumed not to raise)")
            yield st, fresh(FLOAT if isinstance(a.t, TFloat) or isinstance(b.t, TFloat) else INT, "pow")
            return
        raise EngineError("pow() on non-numbers / with a modulus")

    def bi_reversed(self, st, args, kw, node):
        a = args[0]
        if isinstance(a, RangeVal):
            # reversed(range(lo, hi)) visits hi-1, ..., lo ; reversed(range(lo, hi, -1)) visits hi+1, ..., lo
            if a.step == 1:
                yield st, RangeVal(a.hi - 1, a.lo - 1, -1)
            else:
                yield st, RangeVal(a.hi + 1, a.lo + 1, 1)
            return
        raise EngineError("reversed() of something other than a range")

    def bi_enumerate(self, st, args, kw, node):
        start = coerce(self.as_value(kw["start"]), INT).z if "start" in kw else (
            coerce(self.as_value(args[1]), INT).z if len(args) > 1 else z3.IntVal(0))
        yield st, EnumVal(args[0], start)

    def bi_zip(self, st, args, kw, node):
        yield st, ZipVal(list(args))

    def bi_any(self, st, args, kw, node):
        yield from self._anyall(st, args[0], False)

    def bi_all(self, st, args, kw, node):
        yield from self._anyall(st, args[0], True)

    def _anyall(self, st, it, universal):
        st, d = self.domain_of(st, it)
        idx = z3.Const(fresh_name("q"), zsort(d.kt) if d.kind == "set" else z3.IntSort())
        guard = z3.Select(d.dom, idx) if d.kind == "set" else z3.And(0 <= idx, idx < d.length)
        b = truth(d.elem(idx))
        if universal:
            yield st, mk_bool(z3.ForAll([idx], z3.Implies(guard, b)))
        else:
            yield st, mk_bool(z3.Exists([idx], z3.And(guard, b)))

    def bi_sum(self, st, args, kw, node):
        a = args[0]
        if isinstance(a, Bag):
            k = z3.Const(fresh_name("k"), zsort(a.kt))
            el = a.elem(k)
            # sum of a constant 1 / 1.0 over the members = cardinality
            one = None
            if isinstance(el.t, TInt) and z3.is_int_value(z3.simplify(el.z)):
                one = z3.simplify(el.z).as_long()
            elif isinstance(el.t, TFloat):
                r = z3.simplify(el.zs[1])
                kk = z3.simplify(el.zs[0])
                if z3.is_int_value(kk) and kk.as_long() == 0 and z3.is_rational_value(r):
                    one = r
            if one is not None:
                st, c = self.bag_len(st, a)
                if isinstance(el.t, TInt):
                    yield st, mk_int(c * one)
                else:
                    yield st, mk_float(z3.ToReal(c) * one)
                return
            raise EngineError("sum over a comprehension with non-constant element")
        a = self.as_value(a)
        if isinstance(a.t, TSeq) and isinstance(a.t.elem, (TInt, TFloat)):
            # recursive-sum function, axiomatised by prefix sums
            yield self.seq_sum(st, a)
            return
        raise EngineError(f"sum over {a.t}")

    def seq_sum(self, st, s: V):
        isint = isinstance(s.t.elem, TInt)
        so = z3.IntSort() if isint else z3.RealSort()
        ps = z3.Function(fresh_name("psum"), z3.IntSort(), so)
        i = z3.Int(fresh_name("i"))
        el = vals.seq_at(s, i)
        term = el.z if isint else vals.f_r(el)
        conj = [ps(0) == 0,
                z3.ForAll([i], z3.Implies(z3.And(0 <= i, i < s.zs[0]), ps(i + 1) == ps(i) + term))]
        st = st.assume(z3.And(*conj))
        if isint:
            return st, mk_int(ps(s.zs[0]))
        # floats: finite elements assumed by the contract (otherwise kind propagation is lost)
        allfin = z3.ForAll([i], z3.Implies(z3.And(0 <= i, i < s.zs[0]), vals.f_isfin(vals.seq_at(s, i))))
        r = fresh(FLOAT, "sum")
        st = st.assume(z3.Implies(allfin, z3.And(vals.f_isfin(r), vals.f_r(r) == ps(s.zs[0]))))
        st = st.assume(vals.f_wf(r))
        return st, r

    # -- conversions between containers ------------------------------------------
    def bi_set(self, st, args, kw, node):
        if not args:
            yield st, V(TSet(TOpaque("$empty")), [z3.K(zsort(TOpaque("$empty")), z3.BoolVal(False))])
            return
        yield self.to_set(st, args[0])

    bi_frozenset = bi_set

    def to_set(self, st, a):
        if isinstance(a, Bag):
            return self.bag_to_set(st, a)
        if isinstance(a, RangeVal):
            # set(range(lo, hi)) / set(range(lo, hi, -1)): an interval of integers
            x = z3.Int(fresh_name("x"))
            lo, hi = (v_.z if isinstance(v_, V) else v_ for v_ in (a.lo, a.hi))
            body = z3.And(lo <= x, x < hi) if a.step == 1 else z3.And(hi < x, x <= lo)
            st, arr = self.def_array(st, x, body, "rangeset")
            return st, V(TSet(INT), [arr])
        a = self.as_value(a)
        if isinstance(a.t, TOpt):
            self.raise_(st, "TypeError", opt_isnone(a))
            st = st.assume(z3.Not(opt_isnone(a)))
            a = opt_val(a)
        if isinstance(a.t, TSet):
            return st, a
        if isinstance(a.t, TMap):
            return st, vals.map_keys(a)
        if isinstance(a.t, TSeq):
            if not comps(a.t.elem):
                return st, V(TSet(TOpaque("$empty")), [z3.K(zsort(TOpaque("$empty")), z3.BoolVal(False))])
            if not a.t.elem.scalar:
                raise EngineError(f"set of non-scalar {a.t.elem}")
            x = z3.Const(fresh_name("x"), zsort(a.t.elem))
            i = z3.Int(fresh_name("i"))
            r = fresh(TSet(a.t.elem), "setof")
            ax = z3.ForAll([x], r.zs[0][x] == z3.Exists([i], z3.And(0 <= i, i < a.zs[0], z3.Select(a.zs[1], i) == x)))
            ax2 = z3.ForAll([i], z3.Implies(z3.And(0 <= i, i < a.zs[0]), r.zs[0][z3.Select(a.zs[1], i)]))
            st, c = self.card(st.assume(z3.And(ax, ax2)), r)
            return st.assume(c <= a.zs[0]), r             # A-CARD: |set(s)| <= len(s)
        raise EngineError(f"set() of {a.t}")

    def bi_list(self, st, args, kw, node):
        if not args:
            yield st, vals.empty_seq(NONE)
            return
        yield self.to_seq(st, args[0])

    bi_tuple = bi_list

    def to_seq(self, st, a):
        if isinstance(a, Bag):
            return self.bag_to_seq(st, a)
        if isinstance(a, (RangeVal, EnumVal, ZipVal)):
            st, d = self.domain_of(st, a)
            i = z3.Int(fresh_name("i"))
            el = d.elem(i)
            r = fresh(TSeq(d.et), "lst")
            conj = [r.zs[0] == d.length]
            eqs = [z3.Select(x, i) == y for x, y in zip(r.zs[1:], coerce(el, d.et).zs)]
            if eqs:
                conj.append(z3.ForAll([i], z3.Implies(z3.And(0 <= i, i < d.length), z3.And(*eqs))))
            return st.assume(z3.And(*conj)), r
        a = self.as_value(a)
        if isinstance(a.t, TSeq):
            return st, a
        if isinstance(a.t, TTuple):
            st, d = self.domain_of(st, a)
            return self._dom_to_seq(st, d)
        if isinstance(a.t, TMap) and a.t.ordered:
            st, d = self.domain_of(st, a)
            return self._dom_to_seq(st, d)
        if isinstance(a.t, (TSet, TMap)):
            st, d = self.domain_of(st, a)
            return self.bag_to_seq(st, Bag(d.kt, d.dom, d.elem, d.et))
        if isinstance(a.t, TOpaque):
            self.note_assumed("list()/tuple() of an opaque iterable: a sequence of unknown length and elements")
            self.opq_may_raise(st, "iteration over a value of unknown type")
            r_ = fresh(TSeq(TOpaque("unk")), "lst")
            return st.assume(r_.zs[0] >= 0), r_
        raise EngineError(f"list() of {a.t}")

    def _dom_to_seq(self, st, d):
        i = z3.Int(fresh_name("i"))
        el = d.elem(i)
        r = fresh(TSeq(d.et), "lst")
        conj = [r.zs[0] == d.length]
        eqs = [z3.Select(x, i) == y for x, y in zip(r.zs[1:], coerce(el, d.et).zs)]
        if eqs:
            conj.append(z3.ForAll([i], z3.Implies(z3.And(0 <= i, i < d.length), z3.And(*eqs))))
        return st.assume(z3.And(*conj)), r

    def bi_sorted(self, st, args, kw, node):
        st, s = self.to_seq(st, args[0])
        yield self.sorted_perm(st, s, kw)

    def sorted_perm(self, st, s: V, kw):
        """A permutation of s; ordered ascending when the elements are ints and no key is given."""
        r = fresh(s.t, "sorted")
        n = s.zs[0]
        perm = z3.Function(fresh_name("perm"), z3.IntSort(), z3.IntSort())
        inv = z3.Function(fresh_name("pinv"), z3.IntSort(), z3.IntSort())
        i = z3.Int(fresh_name("i"))
        conj = [r.zs[0] == n,
                z3.ForAll([i], z3.Implies(z3.And(0 <= i, i < n), z3.And(
                    0 <= perm(i), perm(i) < n, inv(perm(i)) == i, 0 <= inv(i), inv(i) < n, perm(inv(i)) == i,
                    *[z3.Select(a, i) == z3.Select(b, perm(i)) for a, b in zip(r.zs[1:], s.zs[1:])])))]
        if isinstance(s.t.elem, (TInt, TEnum)) and "key" not in kw:
            j = z3.Int(fresh_name("j"))
            asc = z3.Select(r.zs[1], i) <= z3.Select(r.zs[1], j)
            if "reverse" in kw:
                asc = z3.Select(r.zs[1], i) >= z3.Select(r.zs[1], j)
            conj.append(z3.ForAll([i, j], z3.Implies(z3.And(0 <= i, i < j, j < n), asc)))
        return st.assume(z3.And(*conj)), r

    def bi_dict(self, st, args, kw, node):
        if not args:
            yield st, V(TMap(TOpaque("$empty"), NONE), [z3.K(zsort(TOpaque("$empty")), z3.BoolVal(False))])
            return
        if isinstance(args[0], EnumVal) and not isinstance(args[0].inner, (Bag, RangeVal, EnumVal, ZipVal)):
            # dict(enumerate(xs)): position -> element (the value arrays of the map are the element arrays of the sequence)
            sq = self.as_value(args[0].inner)
            if isinstance(sq.t, TSeq) and z3.is_int_value(args[0].start) and args[0].start.as_long() == 0:
                i = z3.Int(fresh_name("i"))
                keys = z3.Lambda([i], z3.And(0 <= i, i < sq.zs[0]))
                yield st, V(TMap(INT, sq.t.elem), [keys] + list(sq.zs[1:]))
                return
        a = self.as_value(args[0])
        if isinstance(a.t, TMap):
            yield st, a
            return
        raise EngineError("dict() of non-dict")

    def bi_dict_fromkeys(self, st, args, kw, node):
        """dict.fromkeys(xs): the keys of xs inserted one after the other with value None (A-ODICT: the key set is the set of the
        elements, a key's rank is the rank of its first occurrence)."""
        if len(args) != 1 or kw:
            raise EngineError("dict.fromkeys with a value")
        a0 = self.as_value(args[0]) if not isinstance(args[0], (Bag, RangeVal, EnumVal, ZipVal)) else None
        if a0 is not None and isinstance(a0.t, TTuple) and not a0.t.items:
            yield st, V(TMap(TOpaque("$empty"), NONE), [z3.K(zsort(TOpaque("$empty")), z3.BoolVal(False))])
            return
        if a0 is not None and isinstance(a0.t, TOpt):
            self.raise_(st, "TypeError", opt_isnone(a0))
            st = st.assume(z3.Not(opt_isnone(a0)))
            args = [opt_val(a0)]
        st, s = self.to_seq(st, args[0])
        kt = s.t.elem
        if not comps(kt):
            yield st, V(TMap(TOpaque("$empty"), NONE), [z3.K(zsort(TOpaque("$empty")), z3.BoolVal(False))])
            return
        if not kt.scalar:
            raise EngineError(f"dict.fromkeys over non-scalar {kt}")
        r = fresh(TMap(kt, NONE, ordered=True), "fromkeys")
        h, rk = r.zs[0], r.zs[-1]
        i, p, q, j = (z3.Int(fresh_name(n_)) for n_ in "ipqj")
        k = z3.Const(fresh_name("k"), zsort(kt))
        n = s.zs[0]
        at = lambda ix: z3.Select(s.zs[1], ix)     # noqa: E731
        first = z3.ForAll([j], z3.Implies(z3.And(0 <= j, j < q), at(j) != at(q)))
        st = st.assume(z3.And(
            z3.ForAll([i], z3.Implies(z3.And(0 <= i, i < n), z3.Select(h, at(i)))),
            z3.ForAll([k], z3.Implies(z3.Select(h, k), z3.Exists([i], z3.And(0 <= i, i < n, at(i) == k)))),
            z3.ForAll([p, q], z3.Implies(z3.And(0 <= p, p < q, q < n, at(p) != at(q), first),
                                         z3.Select(rk, at(p)) < z3.Select(rk, at(q))))))
        st = self.assume_wf(st, r)
        self.note_assumed("A-ODICT: dict.fromkeys inserts the elements in iteration order")
        yield st, r

    def bi_OrderedSet(self, st, args, kw, node):
        yield from self.bi_set(st, args, kw, node)

    # -- math ------------------------------------------------------------------
    def bi_math_isinf(self, st, args, kw, node):
        a = self.as_value(args[0])
        if isinstance(a.t, TFP):
            yield st, mk_bool(z3.fpIsInf(a.z))
        elif isinstance(a.t, (TInt, TBool)):
            yield st, mk_bool(False)
        else:
            yield st, mk_bool(vals.f_isinf(a))

    def bi_math_isnan(self, st, args, kw, node):
        a = self.as_value(args[0])
        if isinstance(a.t, TFP):
            yield st, mk_bool(z3.fpIsNaN(a.z))
        elif isinstance(a.t, (TInt, TBool)):
            yield st, mk_bool(False)
        else:
            yield st, mk_bool(vals.f_isnan(a))

    def bi_math_isfinite(self, st, args, kw, node):
        a = self.as_value(args[0])
        if isinstance(a.t, TFP):
            yield st, mk_bool(z3.Not(z3.Or(z3.fpIsInf(a.z), z3.fpIsNaN(a.z))))
        elif isinstance(a.t, (TInt, TBool)):
            yield st, mk_bool(True)
        else:
            yield st, mk_bool(vals.f_isfin(a))

    bi_isinf, bi_isnan, bi_isfinite = bi_math_isinf, bi_math_isnan, bi_math_isfinite

    def bi_math_ulp(self, st, args, kw, node):
        a = self.as_value(args[0])
        c = z3.simplify(a.z) if isinstance(a.t, TFP) else None
        if isinstance(node.args[0], ast.Constant) and isinstance(node.args[0].value, (int, float)):
            v = math.ulp(float(node.args[0].value))
            yield st, (vals.mk_fp(v) if self.fp_mode else mk_float(v))
            return
        raise EngineError(f"math.ulp of a non-literal ({c})")

    bi_ulp = bi_math_ulp

    def bi_math_isclose(self, st, args, kw, node):
        a, b = coerce(self.as_value(args[0]), FLOAT), coerce(self.as_value(args[1]), FLOAT)
        rel = coerce(self.as_value(kw["rel_tol"]), FLOAT) if "rel_tol" in kw else mk_float(1e-09)
        ab = coerce(self.as_value(kw["abs_tol"]), FLOAT) if "abs_tol" in kw else mk_float(0.0)
        ra, rb = vals.f_r(a), vals.f_r(b)
        diff = z3.If(ra - rb >= 0, ra - rb, rb - ra)
        absa, absb = z3.If(ra >= 0, ra, -ra), z3.If(rb >= 0, rb, -rb)
        mx = z3.If(absa >= absb, absa, absb)
        tol = z3.If(vals.f_r(rel) * mx >= vals.f_r(ab), vals.f_r(rel) * mx, vals.f_r(ab))
        fin = z3.And(vals.f_isfin(a), vals.f_isfin(b))
        res = z3.If(z3.Or(vals.f_isnan(a), vals.f_isnan(b)), False,
                    z3.If(fin, diff <= tol, vals.f_kind(a) == vals.f_kind(b)))
        yield st, mk_bool(res)

    def bi_math_sqrt(self, st, args, kw, node):
        a = coerce(self.as_value(args[0]), FLOAT)
        self.raise_(st, "ValueError", z3.Or(z3.And(vals.f_isfin(a), vals.f_r(a) < 0), vals.f_kind(a) == vals.K_NINF))
        st = st.assume(z3.Not(z3.Or(z3.And(vals.f_isfin(a), vals.f_r(a) < 0), vals.f_kind(a) == vals.K_NINF)))
        s = z3.Real(fresh_name("sqrt"))
        st = st.assume(z3.Implies(vals.f_isfin(a), z3.And(s >= 0, s * s == vals.f_r(a))))
        yield st, vals.f_mk(vals.f_kind(a), z3.If(vals.f_isfin(a), s, z3.RealVal(0)))

    def bi_math_floor(self, st, args, kw, node):
        a = self.as_value(args[0])
        if isinstance(a.t, TInt):
            yield st, a
            return
        self.raise_(st, "ValueError", vals.f_isnan(a))
        self.raise_(st, "OverflowError", vals.f_isinf(a))
        st = st.assume(vals.f_isfin(a))
        yield st, mk_int(z3.ToInt(vals.f_r(a)))

    bi_floor = bi_math_floor

    def bi_math_ceil(self, st, args, kw, node):
        a = self.as_value(args[0])
        if isinstance(a.t, TInt):
            yield st, a
            return
        self.raise_(st, "ValueError", vals.f_isnan(a))
        self.raise_(st, "OverflowError", vals.f_isinf(a))
        st = st.assume(vals.f_isfin(a))
        yield st, mk_int(-z3.ToInt(-vals.f_r(a)))

    def bi_time_time(self, st, args, kw, node):
        """time.time()/monotonic()/perf_counter(): a finite value not smaller than the previous reading."""
        t = z3.Real(fresh_name("clock"))
        prev = st.ghost.get("$clock", z3.Real("clock0"))
        s2 = st.fork()
        s2.pc.append(t > prev)       # clock progress: each reading is strictly later than the previous one
        s2.ghost["$clock"] = t
        yield s2, mk_float(t)

    def bi_now(self, st, args, kw, node):
        """spec: the latest clock reading on this path (every later time.time() is strictly larger)."""
        yield st, mk_float(st.ghost.get("$clock", z3.Real("clock0")))

    def bi_multiprocess_Pipe(self, st, args, kw, node):
        if "Connection" not in self.ct.classes:
            raise EngineError("mp.Pipe needs klass('multiprocess.connection:Connection')")
        st, a = self.allocate(st, "Connection")
        st, b = self.allocate(st, "Connection")
        yield st, mk_tuple([a, b])

    def bi_time_time_ns(self, st, args, kw, node):
        t = z3.Int(fresh_name("clock_ns"))
        prev = st.ghost.get("$clock_ns")
        s2 = st.fork()
        if prev is not None:
            s2.pc.append(t >= prev)
        s2.ghost["$clock_ns"] = t
        yield s2, mk_int(t)

    bi_time_monotonic_ns = bi_time_time_ns
    bi_time_monotonic = bi_time_time
    bi_time_perf_counter = bi_time_time

    # -- spec-only helpers -----------------------------------------------------
    def bi_implies(self, st, args, kw, node):
        yield st, mk_bool(z3.Implies(truth(self.as_value(args[0])), truth(self.as_value(args[1]))))

    def bi_iff(self, st, args, kw, node):
        yield st, mk_bool(truth(self.as_value(args[0])) == truth(self.as_value(args[1])))

    def bi_ite(self, st, args, kw, node):
        yield st, ite(truth(self.as_value(args[0])), self.as_value(args[1]), self.as_value(args[2]))

    def bi_keys(self, st, args, kw, node):
        yield st, vals.map_keys(self.as_value(args[0]))

    def bi_card(self, st, args, kw, node):
        yield from self.bi_len(st, args, kw, node)

    def bi_same(self, st, args, kw, node):
        yield st, mk_bool(same(self.as_value(args[0]), self.as_value(args[1])))

    def bi_subset(self, st, args, kw, node):
        (st, c), = list(self.compare(st, ast.LtE(), self.as_value(args[0]), self.as_value(args[1]), node))
        yield st, mk_bool(c)

    def bi_disjoint(self, st, args, kw, node):
        a, b = unify(self.as_value(args[0]), self.as_value(args[1]))
        x = z3.Const(fresh_name("x"), zsort(a.t.elem))
        yield st, mk_bool(z3.ForAll([x], z3.Not(z3.And(a.zs[0][x], b.zs[0][x]))))

    def bi_rank(self, st, args, kw, node):
        m = self.as_value(args[0])
        k = coerce(self.as_value(args[1]), m.t.k)
        yield st, mk_int(z3.Select(m.zs[-1], k.z))

    def bi_allocated(self, st, args, kw, node):
        a = self.as_value(args[0])
        yield st, mk_bool(z3.And(a.z > 0, a.z < st.alloc))

    def bi_fresh_ref(self, st, args, kw, node):
        a = self.as_value(args[0])
        if st.old is None:
            raise EngineError("fresh_ref without pre-state")
        yield st, mk_bool(z3.And(a.z >= st.old.alloc, a.z < st.alloc))

    def bi_every(self, st, args, kw, node):
        raise EngineError("every(T) is only valid as a quantifier domain")

    def spec_quant(self, st, e, universal):
        """forall(lambda x, y: body, 'type', 'type')"""
        lam = e.args[0]
        if not isinstance(lam, ast.Lambda):
            raise EngineError("forall/exists needs a lambda")
        names = [a.arg for a in lam.args.args]
        ts = [self.ct.parse(a.value) for a in e.args[1:]]
        if len(ts) != len(names):
            raise EngineError("forall: one type string per bound variable")
        st2 = st.fork()
        consts, guards = [], []
        for nm, t in zip(names, ts):
            v = fresh(t, nm)
            st2.frame.locals[nm] = v
            consts += v.zs
            guards += self.wf_constraints(st2, v)
        _, body = self.ev1(lam.body, st2)
        b = truth(self.as_value(body))
        g = z3.And(*guards) if guards else z3.BoolVal(True)
        if universal:
            return mk_bool(z3.ForAll(consts, z3.Implies(g, b)))
        return mk_bool(z3.Exists(consts, z3.And(g, b)))

    # ------------------------------------------------------------------ methods on builtin values
    def call_method(self, st, mr: MethodRef, args, kw, node):
        recv = mr.recv_val
        name = mr.name
        self._cur_st = st          # (for element / key coercions that may narrow an Optional by the path condition)
        if isinstance(recv.t, TOpt):
            self.raise_(st, "AttributeError", opt_isnone(recv))
            st = st.assume(z3.Not(opt_isnone(recv)))
            recv = opt_val(recv)
        t = recv.t
        h = None
        if isinstance(t, TSet):
            h = getattr(self, "set_" + name, None)
        elif isinstance(t, TMap):
            h = getattr(self, "map_" + name, None)
        elif isinstance(t, TSeq):
            h = getattr(self, "seq_" + name, None)
        elif isinstance(t, TStr):
            h = getattr(self, "str_" + name, None)
        elif isinstance(t, TOpaque):
            self.note_assumed(f"method {name} on opaque {t.nm}")
            self.opq_may_raise(st, f"method {name} of a value of unknown type")
            yield st, fresh(TOpaque("unk"), "mres")
            return
        if h is None and isinstance(t, TStr):
            # string methods without a model: some string / bool / list of strings
            self.note_assumed(f"str.{name}() (unknown result)")
            if name.startswith("is") or name in ("startswith", "endswith"):
                yield st, mk_bool(z3.Bool(fresh_name("strp")))
            elif name in ("split", "rsplit", "splitlines", "partition", "rpartition"):
                r_ = fresh(TSeq(STR), "parts")
                yield st.assume(r_.zs[0] >= 0), r_
            elif name in ("find", "rfind", "index", "count"):
                yield st, fresh(INT, "stri")
            else:
                yield st, fresh(STR, "strm")
            return
        if h is None:
            raise EngineError(f"unsupported method {name} on {t}: {ast.unparse(node)}")
        for st1, result, newrecv in h(st, recv, args, kw, node):
            if newrecv is not None:
                if mr.recv_node is None:
                    raise EngineError("mutation of a temporary container")
                st1 = self.assign_to(st1, mr.recv_node, newrecv, mut=True)
            yield st1, result

    # -- set -------------------------------------------------------------------
    def _elem(self, recv, a):
        a = self.as_value(a)
        if isinstance(recv.t.elem, TOpaque) and recv.t.elem.nm == "$empty":
            recv = vals.empty_set(a.t)
        if isinstance(a.t, TOpt) and not isinstance(recv.t.elem, TOpt) and getattr(self, "_cur_st", None) is not None:
            return recv, self.narrow(self._cur_st, a, recv.t.elem)       # Optional element the path condition shows to be not None
        return recv, coerce(a, recv.t.elem)

    def _other_set(self, st, recv, other):
        st, o = self.to_set(st, other)
        r, o = unify(recv, o)
        return st, r, o

    def set_add(self, st, recv, args, kw, node):
        recv, a = self._elem(recv, args[0])
        yield st, NONEV, V(recv.t, [z3.Store(recv.zs[0], a.z, z3.BoolVal(True))])

    def set_discard(self, st, recv, args, kw, node):
        recv, a = self._elem(recv, args[0])
        yield st, NONEV, V(recv.t, [z3.Store(recv.zs[0], a.z, z3.BoolVal(False))])

    def set_remove(self, st, recv, args, kw, node):
        recv, a = self._elem(recv, args[0])
        has = z3.Select(recv.zs[0], a.z)
        self.raise_(st, "KeyError", z3.Not(has))
        yield st.assume(has), NONEV, V(recv.t, [z3.Store(recv.zs[0], a.z, z3.BoolVal(False))])

    def set_clear(self, st, recv, args, kw, node):
        yield st, NONEV, vals.empty_set(recv.t.elem)

    def set_copy(self, st, recv, args, kw, node):
        yield st, recv, None

    def _setop(self, st, recv, args, f):
        cur = recv
        for o in args:
            st, cur, o = self._other_set(st, cur, o)
            x = z3.Const(fresh_name("x"), zsort(cur.t.elem))
            st, arr = self.def_array(st, x, f(cur.zs[0][x], o.zs[0][x]), "setop")
            cur = V(cur.t, [arr])
        return st, cur

    def set_update(self, st, recv, args, kw, node):
        st, r = self._setop(st, recv, args, lambda a, b: z3.Or(a, b))
        yield st, NONEV, r

    def set_union(self, st, recv, args, kw, node):
        st, r = self._setop(st, recv, args, lambda a, b: z3.Or(a, b))
        yield st, r, None

    def set_intersection(self, st, recv, args, kw, node):
        st, r = self._setop(st, recv, args, lambda a, b: z3.And(a, b))
        yield st, r, None

    def set_intersection_update(self, st, recv, args, kw, node):
        st, r = self._setop(st, recv, args, lambda a, b: z3.And(a, b))
        yield st, NONEV, r

    def set_difference(self, st, recv, args, kw, node):
        st, r = self._setop(st, recv, args, lambda a, b: z3.And(a, z3.Not(b)))
        yield st, r, None

    def set_difference_update(self, st, recv, args, kw, node):
        st, r = self._setop(st, recv, args, lambda a, b: z3.And(a, z3.Not(b)))
        yield st, NONEV, r

    def set_symmetric_difference(self, st, recv, args, kw, node):
        st, r = self._setop(st, recv, args, lambda a, b: z3.Xor(a, b))
        yield st, r, None

    def set_issubset(self, st, recv, args, kw, node):
        st, r, o = self._other_set(st, recv, args[0])
        x = z3.Const(fresh_name("x"), zsort(r.t.elem))
        yield st, mk_bool(z3.ForAll([x], z3.Implies(r.zs[0][x], o.zs[0][x]))), None

    def set_issuperset(self, st, recv, args, kw, node):
        st, r, o = self._other_set(st, recv, args[0])
        x = z3.Const(fresh_name("x"), zsort(r.t.elem))
        yield st, mk_bool(z3.ForAll([x], z3.Implies(o.zs[0][x], r.zs[0][x]))), None

    def set_isdisjoint(self, st, recv, args, kw, node):
        st, r, o = self._other_set(st, recv, args[0])
        x = z3.Const(fresh_name("x"), zsort(r.t.elem))
        yield st, mk_bool(z3.ForAll([x], z3.Not(z3.And(o.zs[0][x], r.zs[0][x])))), None

    def set_pop(self, st, recv, args, kw, node):
        x = fresh(recv.t.elem, "popped")
        empty = z3.K(zsort(recv.t.elem), z3.BoolVal(False))
        self.raise_(st, "KeyError", recv.zs[0] == empty)
        st = st.assume(z3.Select(recv.zs[0], x.z))
        yield st, x, V(recv.t, [z3.Store(recv.zs[0], x.z, z3.BoolVal(False))])

    # -- dict ------------------------------------------------------------------
    def _key(self, recv, a):
        a = self.as_value(a)
        if isinstance(a.t, TOpt) and not isinstance(recv.t.k, TOpt) and getattr(self, "_cur_st", None) is not None:
            return self.narrow(self._cur_st, a, recv.t.k)
        return coerce(a, recv.t.k)

    def map_get(self, st, recv, args, kw, node):
        try:
            k = self._key(recv, args[0])
        except EngineError:
            yield st, (self.as_value(args[1]) if len(args) > 1 else NONEV), None
            return
        d = self.as_value(args[1]) if len(args) > 1 else (self.as_value(kw["default"]) if "default" in kw else NONEV)
        v = vals.map_get(recv, k)
        st = self.assume_wf(st, v) if not self.spec else st
        yield st, ite(vals.map_has(recv, k), v, d), None

    def map_keys(self, st, recv, args, kw, node):
        if recv.t.ordered:
            # the keys view of an ordered map iterates, counts and tests membership like the map itself
            yield st, recv, None
            return
        yield st, vals.map_keys(recv), None

    def map_values(self, st, recv, args, kw, node):
        yield st, Bag(recv.t.k, recv.zs[0], lambda k: vals.map_get(recv, V(recv.t.k, [k])), recv.t.v), None

    def map_items(self, st, recv, args, kw, node):
        kt = recv.t.k
        yield st, Bag(kt, recv.zs[0], lambda k: mk_tuple([V(kt, [k]), vals.map_get(recv, V(kt, [k]))]),
                      TTuple([kt, recv.t.v])), None

    def map_clear(self, st, recv, args, kw, node):
        yield st, NONEV, vals.empty_map(recv.t)

    def map_copy(self, st, recv, args, kw, node):
        yield st, recv, None

    def map_pop(self, st, recv, args, kw, node):
        k = self._key(recv, args[0])
        has = vals.map_has(recv, k)
        v = vals.map_get(recv, k)
        if len(args) > 1:
            d = self.as_value(args[1])
            yield st, ite(has, v, d), vals.map_del(recv, k)
        else:
            self.raise_(st, "KeyError", z3.Not(has))
            yield st.assume(has), v, vals.map_del(recv, k)

    def map_setdefault(self, st, recv, args, kw, node):
        k = self._key(recv, args[0])
        d = self.as_value(args[1]) if len(args) > 1 else NONEV
        has = vals.map_has(recv, k)
        v = vals.map_get(recv, k)
        st, new = self.map_put(st, recv, k, ite(has, v, d))
        yield st, ite(has, v, d), new

    def map_update(self, st, recv, args, kw, node):
        o = self.as_value(args[0])
        if not isinstance(o.t, TMap):
            raise EngineError("dict.update with non-dict")
        recv, o = unify(recv, o)
        if recv.t.ordered:
            raise EngineError("update on ordered map")
        k = z3.Const(fresh_name("k"), zsort(recv.t.k))
        st, ka = self.def_array(st, k, z3.Or(recv.zs[0][k], o.zs[0][k]), "upd")
        zs = [ka]
        for a, b in zip(recv.zs[1:], o.zs[1:]):
            st, va = self.def_array(st, k, z3.If(o.zs[0][k], b[k], a[k]), "upd")
            zs.append(va)
        yield st, NONEV, V(recv.t, zs)

    # -- list ------------------------------------------------------------------
    def seq_append(self, st, recv, args, kw, node):
        a = self.as_value(args[0])
        if not comps(recv.t.elem) and comps(a.t):
            recv = vals.empty_seq(a.t)
        yield st, NONEV, vals.seq_append(recv, a)

    def seq_extend(self, st, recv, args, kw, node):
        st, o = self.to_seq(st, args[0])
        if not comps(recv.t.elem) and comps(o.t.elem):
            recv = vals.empty_seq(o.t.elem)
        st, r = self.seq_concat(st, recv, o)
        yield st, NONEV, r

    def seq_copy(self, st, recv, args, kw, node):
        yield st, recv, None

    def seq_clear(self, st, recv, args, kw, node):
        yield st, NONEV, vals.empty_seq(recv.t.elem)

    def seq_pop(self, st, recv, args, kw, node):
        n = recv.zs[0]
        if args:
            i = coerce(self.as_value(args[0]), INT).z
        else:
            i = z3.IntVal(-1)
        ok = z3.And(-n <= i, i < n)
        self.raise_(st, "IndexError", z3.Not(ok))
        st = st.assume(ok)
        j = z3.If(i < 0, i + n, i)
        v = vals.seq_at(recv, j)
        st2, r = self.seq_delete_at(st, recv, j)
        yield st2, v, r

    def seq_delete_at(self, st, s, j):
        r = fresh(s.t, "del")
        i = z3.Int(fresh_name("i"))
        n = s.zs[0]
        conj = [r.zs[0] == n - 1]
        if len(s.zs) > 1:
            conj.append(z3.ForAll([i], z3.Implies(z3.And(0 <= i, i < j),
                                                  z3.And(*[z3.Select(a, i) == z3.Select(b, i) for a, b in zip(r.zs[1:], s.zs[1:])]))))
            conj.append(z3.ForAll([i], z3.Implies(z3.And(j <= i, i < n - 1),
                                                  z3.And(*[z3.Select(a, i) == z3.Select(b, i + 1) for a, b in zip(r.zs[1:], s.zs[1:])]))))
        return st.assume(z3.And(*conj)), r

    def seq_insert(self, st, recv, args, kw, node):
        n = recv.zs[0]
        i0 = coerce(self.as_value(args[0]), INT).z
        v = self.as_value(args[1])
        if not comps(recv.t.elem) and comps(v.t):
            recv = vals.empty_seq(v.t)
        v = coerce(v, recv.t.elem)
        j = z3.If(i0 < 0, z3.If(i0 + n < 0, 0, i0 + n), z3.If(i0 > n, n, i0))
        r = fresh(recv.t, "ins")
        i = z3.Int(fresh_name("i"))
        conj = [r.zs[0] == n + 1]
        conj.append(z3.And(*[z3.Select(a, j) == x for a, x in zip(r.zs[1:], v.zs)]))
        conj.append(z3.ForAll([i], z3.Implies(z3.And(0 <= i, i < j),
                                              z3.And(*[z3.Select(a, i) == z3.Select(b, i) for a, b in zip(r.zs[1:], recv.zs[1:])]))))
        conj.append(z3.ForAll([i], z3.Implies(z3.And(j <= i, i < n),
                                              z3.And(*[z3.Select(a, i + 1) == z3.Select(b, i) for a, b in zip(r.zs[1:], recv.zs[1:])]))))
        yield st.assume(z3.And(*conj)), NONEV, r

    def seq_remove(self, st, recv, args, kw, node):
        a = coerce(self.as_value(args[0]), recv.t.elem)
        n = recv.zs[0]
        j = z3.Int(fresh_name("idx"))
        i = z3.Int(fresh_name("i"))
        found = z3.And(0 <= j, j < n, py_eq(vals.seq_at(recv, j), a),
                       z3.ForAll([i], z3.Implies(z3.And(0 <= i, i < j), z3.Not(py_eq(vals.seq_at(recv, i), a)))))
        none = z3.ForAll([i], z3.Implies(z3.And(0 <= i, i < n), z3.Not(py_eq(vals.seq_at(recv, i), a))))
        self.raise_(st, "ValueError", none)
        st = st.assume(found)
        if not self.feasible(st):
            return
        st2, r = self.seq_delete_at(st, recv, j)
        yield st2, NONEV, r

    def seq_index(self, st, recv, args, kw, node):
        a = coerce(self.as_value(args[0]), recv.t.elem)
        n = recv.zs[0]
        j = z3.Int(fresh_name("idx"))
        i = z3.Int(fresh_name("i"))
        found = z3.And(0 <= j, j < n, py_eq(vals.seq_at(recv, j), a),
                       z3.ForAll([i], z3.Implies(z3.And(0 <= i, i < j), z3.Not(py_eq(vals.seq_at(recv, i), a)))))
        none = z3.ForAll([i], z3.Implies(z3.And(0 <= i, i < n), z3.Not(py_eq(vals.seq_at(recv, i), a))))
        self.raise_(st, "ValueError", none)
        yield st.assume(found), mk_int(j), None

    def seq_sort(self, st, recv, args, kw, node):
        st, r = self.sorted_perm(st, recv, kw)
        key = kw.get("key")
        if isinstance(key, ast.Lambda):
            st = self.assume_sorted_by_key(st, r, key, kw)
        yield st, NONEV, r

    def assume_sorted_by_key(self, st, r, lam, kw):
        """list.sort(key=lambda x: e, reverse=...) : adjacent-order fact over the key expression."""
        i, j = z3.Int(fresh_name("i")), z3.Int(fresh_name("j"))
        nm = lam.args.args[0].arg

        def keyat(idx):
            s2 = st.fork()
            s2.frame.locals[nm] = vals.seq_at(r, idx)
            pv, info = self.ev_pure(lam.body, s2)
            if pv is None:
                raise EngineError("sort key with effects")
            return self.as_value(pv)
        ki, kj = keyat(i), keyat(j)
        rev = "reverse" in kw and isinstance(kw["reverse"], V) and z3.is_true(kw["reverse"].z)
        (_, c), = list(self.compare(st, ast.GtE() if rev else ast.LtE(), ki, kj, lam))
        return st.assume(z3.ForAll([i, j], z3.Implies(z3.And(0 <= i, i < j, j < r.zs[0]), c)))

    def seq_reverse(self, st, recv, args, kw, node):
        r = fresh(recv.t, "rev")
        i = z3.Int(fresh_name("i"))
        n = recv.zs[0]
        conj = [r.zs[0] == n]
        if len(recv.zs) > 1:
            conj.append(z3.ForAll([i], z3.Implies(z3.And(0 <= i, i < n), z3.And(
                *[z3.Select(a, i) == z3.Select(b, n - 1 - i) for a, b in zip(r.zs[1:], recv.zs[1:])]))))
        yield st.assume(z3.And(*conj)), NONEV, r

    def seq_count(self, st, recv, args, kw, node):
        raise EngineError("list.count")

    # -- str -------------------------------------------------------------------
    def str_startswith(self, st, recv, args, kw, node):
        a = self.as_value(args[0])
        if isinstance(a.t, TStr):
            yield st, mk_bool(z3.PrefixOf(a.z, recv.z)), None
        elif isinstance(a.t, TTuple):
            yield st, mk_bool(z3.Or(*[z3.PrefixOf(x.z, recv.z) for x in tuple_items(a)])), None
        else:
            raise EngineError("startswith arg")

    def str_endswith(self, st, recv, args, kw, node):
        a = self.as_value(args[0])
        if isinstance(a.t, TStr):
            yield st, mk_bool(z3.SuffixOf(a.z, recv.z)), None
        elif isinstance(a.t, TTuple):
            yield st, mk_bool(z3.Or(*[z3.SuffixOf(x.z, recv.z) for x in tuple_items(a)])), None
        else:
            raise EngineError("endswith arg")

    def str_rpartition(self, st, recv, args, kw, node):
        """s.rpartition(sep) -> (head, sep, tail): split at the last occurrence; ('', '', s) when sep does not occur."""
        sep = self.as_value(args[0])
        if not isinstance(sep.t, TStr):
            raise EngineError("rpartition separator")
        # (functions of the receiver, so that two evaluations of the same split are the same terms)
        S_ = z3.StringSort()
        head = mk_str(z3.Function("rp_head", S_, S_, S_)(recv.z, sep.z))
        tail = mk_str(z3.Function("rp_tail", S_, S_, S_)(recv.z, sep.z))
        has = z3.Contains(recv.z, sep.z)
        E = z3.StringVal("")
        st = st.assume(z3.And(
            z3.Length(sep.z) > 0,
            z3.Implies(has, z3.And(recv.z == z3.Concat(head.z, sep.z, tail.z), z3.Not(z3.Contains(tail.z, sep.z)))),
            z3.Implies(z3.Not(has), z3.And(head.z == E, tail.z == recv.z))))
        mid = mk_str(z3.If(has, sep.z, E))
        yield st, mk_tuple([head, mid, tail]), None

    def str_removeprefix(self, st, recv, args, kw, node):
        a = self.as_value(args[0])
        n = z3.Length(a.z)
        yield st, mk_str(z3.If(z3.PrefixOf(a.z, recv.z), z3.SubString(recv.z, n, z3.Length(recv.z) - n), recv.z)), None

    def str_format(self, st, recv, args, kw, node):
        yield st, fresh(STR, "fmt"), None

    def str_join(self, st, recv, args, kw, node):
        yield st, fresh(STR, "join"), None
