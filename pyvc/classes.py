"""Class table: field types and method lookup for classes declared with klass(...)."""
from __future__ import annotations

import ast

from . import extract
from .contracts import REG
from .types import TEnum, TypeEnv, parse_type
from .values import EngineError


class ClassInfo:
    def __init__(self, name, module):
        self.name, self.module = name, module
        self.bases: list[str] = []
        self.fields: dict = {}      # name -> T (own declarations)
        self.ghost: set = set()
        self.methods: dict = {}     # name -> FunctionDef
        self.defaults: dict = {}    # name -> ast expr
        self.decos: list = []
        self.field_order: list = []
        self.spec = None
        self.cid = 0

    @property
    def is_dataclass(self):
        return any(d.startswith("dataclass") or d.startswith("dataclasses.dataclass") for d in self.decos)


class ClassTable:
    def __init__(self):
        self.env = TypeEnv()
        self.classes: dict[str, ClassInfo] = {}
        self.records: list[str] = []
        self._build()

    def _build(self):
        raw = {}
        for name, spec in REG.classes.items():
            module = spec.target.split(":")[0]
            ci = ClassInfo(name, module)
            ci.spec = spec
            try:
                bases, fields, defaults, methods, decos = extract.class_info(module, name)
            except (LookupError, FileNotFoundError):
                bases, fields, defaults, methods, decos = [], {}, {}, {}, []
            ci.bases = list(spec.bases) if spec.bases is not None else bases
            ci.methods, ci.defaults, ci.decos = methods, defaults, decos
            raw[name] = fields
            self.classes[name] = ci
            is_enum = any(b in ("Enum", "IntEnum", "StrEnum", "Flag") for b in ci.bases) or \
                any(b in ("enum.Enum", "enum.IntEnum") for b in ci.bases)
            if is_enum:
                members = [k for k in defaults if not k.startswith("_")]
                self.env.enums[name] = TEnum(name, members)
            elif spec.record:
                self.records.append(name)
            else:
                self.env.classes.add(name)
        for i, ci in enumerate(self.classes.values()):
            ci.cid = i + 1
        for nm, ts in REG.aliases.items():
            self.env.aliases[nm] = parse_type(ts, self.env)
        from .types import TTuple
        for name in self.records:
            # records may only contain non-record field types (resolved in declaration order)
            ci = self.classes[name]
            order = [f for f in raw[name] if f not in ci.spec.fields] + list(ci.spec.fields)
            seen, names = set(), []
            for f in list(raw[name]) + list(ci.spec.fields):
                if f not in seen:
                    seen.add(f)
                    names.append(f)
            ts = []
            for f in names:
                src = ci.spec.fields.get(f, raw[name].get(f))
                ts.append(parse_type(src, self.env))
            self.env.aliases[name] = TTuple(ts, names=names, recname=name)
        for name, ci in self.classes.items():
            spec = ci.spec
            if spec.record:
                continue
            for f, ann in raw[name].items():
                if f in spec.fields:
                    continue
                if isinstance(ann, ast.Subscript) and getattr(ann.value, "id", "") == "ClassVar":
                    continue
                try:
                    ci.fields[f] = parse_type(ann, self.env)
                    ci.field_order.append(f)
                except (TypeError, AssertionError):
                    pass
            for f, ts in spec.fields.items():
                ci.fields[f] = parse_type(ts, self.env)
                if f not in ci.field_order:
                    ci.field_order.append(f)
            for f, ts in spec.ghost.items():
                ci.fields[f] = parse_type(ts, self.env)
                ci.ghost.add(f)

    # ------------------------------------------------------------------
    def mro(self, cls):
        out, todo = [], [cls]
        while todo:
            c = todo.pop(0)
            if c in out or c not in self.classes:
                continue
            out.append(c)
            todo += self.classes[c].bases
        return out

    def field(self, cls, fname):
        """(declaring class, T) or None."""
        for c in self.mro(cls):
            ci = self.classes[c]
            if fname in ci.fields:
                return c, ci.fields[fname]
        # downcast: a field declared by exactly one subclass (the receiver's static type is a base class)
        hits = []
        cands = list(self.subclasses(cls))
        for b in self.mro(cls)[1:]:          # sibling classes (the receiver's static type may be too narrow in a spec)
            cands += [c for c in self.subclasses(b) if c not in cands]
        for c in cands:
            if c != cls and fname in self.classes[c].fields and (c, self.classes[c].fields[fname]) not in hits:
                if not any(self.is_subclass(c, h[0]) for h in hits):
                    hits.append((c, self.classes[c].fields[fname]))
        if len(hits) == 1:
            return hits[0]
        return None

    def all_fields(self, cls):
        out = {}
        for c in reversed(self.mro(cls)):
            for f, t in self.classes[c].fields.items():
                out[f] = (c, t)
        return out

    def method(self, cls, mname):
        """(defining class, FunctionDef) or None."""
        for c in self.mro(cls):
            ci = self.classes[c]
            if mname in ci.methods:
                return c, ci.methods[mname]
        return None

    def subclasses(self, cls):
        return [c for c in self.classes if cls in self.mro(c)]

    def is_subclass(self, a, b):
        return b in self.mro(a)

    def contract_for(self, cls, mname):
        """Contract of the method, searching the class and then its bases."""
        for c in self.mro(cls):
            ci = self.classes[c]
            con = REG.contracts.get(f"{ci.module}:{c}.{mname}")
            if con is not None:
                return c, con
            if mname in ci.methods:
                return c, None
        return None, None

    def parse(self, ts):
        try:
            return parse_type(ts, self.env)
        except (TypeError, AssertionError) as e:
            raise EngineError(f"type {ts!r}: {e}") from e
