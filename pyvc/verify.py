"""Function-level verification: build the initial state from the contract, execute, emit obligations;
discharge obligations with z3 (cvc5 takes z3's unknowns)."""
from __future__ import annotations

import ast
import subprocess
import tempfile
import time
import os

import z3

from . import extract
from .calls import CallMixin
from .comps import CompMixin
from .contracts import REG, Contract
from .engine import EngineBase, Obligation, exc_is_subclass
from .exprs import ExprMixin
from .funcs import FuncMixin
from .state import Exc, Frame, Outcome, State
from .stmts import StmtMixin
from .types import NONE, TMap, TNone, TOpaque, TOpt, TRef, TSeq, TSet, comps
from . import values as vals
from .values import NONEV, EngineError, V, fresh, mk_bool, same, truth


class Engine(EngineBase, ExprMixin, CompMixin, CallMixin, FuncMixin, StmtMixin):
    def __init__(self):
        super().__init__()
        self.fp_mode = False
        self.global_types = dict(getattr(REG, "global_types", {}))
        self.auto_inline = set(getattr(REG, "auto_inline", set()))
        self.inlined = set()
        self._mut_cache = {}
        self._cm_stack = []
        self.fn_info = {}

    # ------------------------------------------------------------------
    def prepare_inputs(self, target: str):
        """Only the typed symbolic inputs of a function under contract (for the native small-scope search)."""
        con = REG.contracts[target]
        module, qual = target.split("@")[0].split(":")      # "module:func@variant": same function, another typing
        fdef = extract.find_def(module, qual)
        parts = qual.split(".")
        cls = parts[-2] if len(parts) >= 2 and parts[-2] in self.ct.classes else None
        decos = [ast.unparse(d) for d in fdef.decorator_list]
        ptypes = self.param_types(fdef, con, cls)
        self.input_vars = {}
        for a in fdef.args.posonlyargs + fdef.args.args + fdef.args.kwonlyargs:
            if a.arg == "cls" and "classmethod" in decos:
                continue
            if a.arg not in ptypes:
                raise EngineError(f"parameter {a.arg!r} of {target} has no usable type")
            self.input_vars[a.arg] = fresh(ptypes[a.arg], a.arg)
        for key, ts in con.globals_in.items():
            self.input_vars["$g:" + key] = fresh(self.ct.parse(ts), "g")
        self.fn_info[target] = {"hash": extract.source_hash(fdef), "file": extract.module_path(module),
                                "line": fdef.lineno, "mode": con.mode}

    def verify_function(self, target: str):
        """Generate the obligations of one function under contract.  Returns list[Obligation]."""
        con = REG.contracts[target]
        module, qual = target.split("@")[0].split(":")
        fdef = extract.find_def(module, qual)
        if not isinstance(fdef, ast.FunctionDef):
            raise EngineError(f"{target} is not a function definition")
        cls = None
        parts = qual.split(".")
        if len(parts) >= 2 and parts[-2] in self.ct.classes:
            cls = parts[-2]
        self.cur_target, self.cur_prop = target, con.prop
        self.cur_raises = dict(con.raises)
        self.opaque_raise = con.opaque_raise
        self.cur_type_map = dict(con.type_map)
        self.cur_locals = dict(con.locals)
        self.fp_mode = bool(getattr(con, "fp", False) or getattr(con, "note", "") == "fp")   # floats as IEEE doubles
        self._cm_at_yield = list(con.at_yield)
        self.obligations = []
        self.npaths = 0
        start = len(self.obligations)
        decos = [ast.unparse(d) for d in fdef.decorator_list]
        st = State()
        locs = {}
        ptypes = self.param_types(fdef, con, cls)
        allp = fdef.args.posonlyargs + fdef.args.args + fdef.args.kwonlyargs
        allp = allp + [a for a in (fdef.args.vararg, fdef.args.kwarg) if a is not None and a.arg in con.sig]
        self.input_vars = {}
        for a in allp:
            if a.arg == "cls" and "classmethod" in decos:
                continue
            if a.arg not in ptypes:
                raise EngineError(f"parameter {a.arg!r} of {target} has no usable type (give sig=)")
            v = fresh(ptypes[a.arg], a.arg)
            locs[a.arg] = v
            self.input_vars[a.arg] = v
        for g, ts in con.ghost.items():
            v = fresh(self.ct.parse(ts), g)
            locs[g] = v
            self.input_vars[g] = v
        for cv_, ts in con.closure.items():
            v = fresh(self.ct.parse(ts), cv_)
            locs[cv_] = v
            self.input_vars[cv_] = v
        for key, ts in con.globals_in.items():
            # a module global the function reads: an input (same constants as ExprMixin.module_global creates)
            self.global_types[key] = ts
            t_ = self.ct.parse(ts)
            self.input_vars["$g:" + key] = V(t_, [z3.Const(f"G_{key}{('_' + s_) if s_ else ''}", so_)
                                                  for s_, so_ in comps(t_)])
        st.frames.append(Frame(module, cls, target, fdef, locs))
        self._oneshot_depth = len(st.frames)
        self._oneshot_sites = {}
        if con.oneshot:
            self._oneshot_sites = self.oneshot_scan(fdef, set(con.oneshot))
            st.ghost["$oneshot"] = {n_: 0 for n_ in con.oneshot}
            self.note_assumed("A-ITER-1: a function that hands a parameter to exactly one traversal (for / set / tuple / list / "
                              "dict.fromkeys ...) behaves on a one-shot iterator yielding xs as on the sequence xs")
        for v in list(locs.values()):
            st = self.assume_wf(st, v)
        # distinct container parameters do not alias (A-OWN) – nothing to assume in the value model
        self.excs.append([])
        for r in con.requires:
            st = st.assume(self.spec_bool(r, st))
            if self.spec_cards:
                # cardinality terms mentioned by the precondition take part in the finite-set facts later on
                st = st.fork()
                have = {str(k_[2]) for k_ in st.ghost.get("$cards", ())}
                st.ghost["$cards"] = tuple(st.ghost.get("$cards", ())) + tuple(
                    k_ for k_ in self.spec_cards if str(k_[2]) not in have)
        # class invariants of self
        if cls and self.ct.classes[cls].spec.invariant and fdef.name != "__init__":
            for inv in self.ct.classes[cls].spec.invariant:
                st = st.assume(self.spec_bool(inv, st))
        self.excs.pop()
        # vacuity cover: the precondition must be satisfiable
        s = z3.Solver()
        s.set("timeout", 10000)
        s.add(*st.pc)
        cover = s.check()
        ob = Obligation(f"{con.prop}/{target}/cover", "cover", target, [], z3.BoolVal(True),
                        "requires not contradictory", con.prop)
        # (a quantified precondition is rarely *shown* satisfiable by the solver; the vacuity guard is that it is not
        #  shown contradictory - 'unknown' passes and is recorded as such)
        ob.result = "discharged" if cover != z3.unsat else "unknown"
        ob.backend = "z3"
        ob.reason = "" if cover == z3.sat else f"precondition satisfiability: {cover}"
        ob.is_cover = True
        covers = [ob]
        st.old = None
        old = st.fork()
        st.old = old
        self.fn_info[target] = {"hash": extract.source_hash(fdef), "file": extract.module_path(module),
                                "line": fdef.lineno, "mode": con.mode}
        if "contextmanager" in " ".join(decos):
            outs = self.exec_cm_generator(fdef, st)
        else:
            outs = self.exec_block(fdef.body, st)
        modnames = set()
        for lv in con.modifies:
            n = ast.parse(lv.strip(), mode="eval").body
            if isinstance(n, ast.Name):
                modnames.add(n.id)
        for o in outs:
            if o.kind in ("ok", "ret"):
                res = o.val if (o.kind == "ret" and o.val is not None) else NONEV
                fin = o.st.fork()
                if isinstance(res, V) or res is NONEV:
                    rt = self.return_type(fdef, con)
                    try:
                        if isinstance(res, V) and comps(rt) and not isinstance(rt, TOpaque):
                            res = vals.coerce(res, rt)
                    except EngineError:
                        pass
                else:
                    from .exprs import Bag
                    if isinstance(res, Bag):
                        rt = self.return_type(fdef, con)
                        if isinstance(rt, TSet):
                            fin, res = self.bag_to_set(fin, res)
                        else:
                            fin, res = self.bag_to_seq(fin, res)
                rname = "ret" if "result" in locs else "result"
                fin.frame.locals[rname] = res
                self.excs.append([])
                for lv, ex_ in con.ghost_updates.items():
                    gv, gax = self.spec_eval_full(ex_, fin)
                    for a_ in gax:
                        fin = fin.assume(a_)
                    fin = self.assign_to(fin, ast.parse(lv, mode="eval").body, gv)
                    fin.frame.locals[rname] = res
                for i, cl in enumerate(con.ensures):
                    self.oblige(fin, "post", f"#{i}", self.spec_goal(cl, fin), descr=f"ensures {cl!r}")
                if cls and self.ct.classes[cls].spec.invariant:
                    for i, inv in enumerate(self.ct.classes[cls].spec.invariant):
                        self.oblige(fin, "clsinv", f"#{i}", self.spec_goal(inv, fin), descr=f"class invariant {inv!r}")
                self.excs.pop()
                self.frame_obligations(fin, old, con, modnames)
            elif o.kind == "exc":
                exc: Exc = o.val
                matched = None
                for ename, cond in con.raises.items():
                    if ename == "*" or exc_is_subclass(exc.name, ename) is True or (exc.name == "$any" and ename == "*"):
                        matched = (ename, cond)
                        break
                fin = o.st
                if matched is None:
                    self.oblige(fin, "raises", f":{exc.name}", z3.BoolVal(False),
                                descr=f"exception {exc.name} {exc.msg} is not permitted by the contract")
                else:
                    self.excs.append([])
                    self.oblige(fin, "raises", f":{matched[0]}", self.spec_goal(matched[1], old_with_pc(old, fin)),
                                descr=f"{exc.name} only when {matched[1]!r}")
                    for i, cl in enumerate(con.ensures_on_raise):
                        self.oblige(fin, "post-exc", f"#{i}", self.spec_goal(cl, fin), descr=f"on raise: {cl!r}")
                    self.excs.pop()
                    self.frame_obligations(fin, old, con, modnames)
            else:
                raise EngineError(f"{o.kind} escapes {target}")
        # vacuity: some normal exit must be reachable (its path condition satisfiable)
        normal = [o for o in outs if o.kind in ("ok", "ret")]
        if normal:
            # (a quantified path condition is rarely shown 'sat'; what must not happen is that every
            #  normal exit is *contradictory*, which would discharge anything)
            reach = z3.unsat
            for o in normal[:12]:
                s = z3.Solver()
                s.set("timeout", 3000)
                s.add(*o.st.pc)
                r = s.check()
                if r != z3.unsat:
                    reach = z3.sat
                    break
            rob = Obligation(f"{con.prop}/{target}/reach", "cover", target, [], z3.BoolVal(True),
                             "some normal exit is reachable under the precondition", con.prop)
            rob.result = "discharged" if reach == z3.sat else "unknown"
            rob.reason = "" if reach == z3.sat else f"no normal exit shown reachable ({reach})"
            rob.backend, rob.is_cover = "z3", True
            covers.append(rob)
        return covers + self.obligations[start:]

    def exec_cm_generator(self, fdef, st):
        """Verify a @contextmanager generator standalone: the with-body is an arbitrary block that may
        finish normally or raise any exception at the yield (it cannot touch the tracked state unless
        the contract's ghost hook says so)."""
        marker = ast.With(items=[ast.withitem(context_expr=ast.Constant(value=None), optional_vars=None)],
                          body=[ast.Expr(value=ast.Call(func=ast.Name(id="$cm_body", ctx=ast.Load()), args=[], keywords=[]))],
                          lineno=fdef.lineno, col_offset=0)
        self._cm_stack.append((marker, len(st.frames) - 1 + 1))
        # depth trick: the "caller" frames are the same frames (standalone); use a copy of the frame stack
        try:
            outs = self._exec_cm_standalone(fdef, st)
        finally:
            self._cm_stack.pop()
        return outs

    def _exec_cm_standalone(self, fdef, st):
        self._standalone_cm = True
        try:
            return self.exec_block(fdef.body, st)
        finally:
            self._standalone_cm = False

    def modifies_allowed(self, modifies, old: State):
        """(declaring class, field) -> refs whose field may change (None = any), for a list of `modifies` lvalues
        evaluated in state `old`."""
        allowed = {}
        self.spec += 1
        self.excs.append([])
        try:
            for lv in modifies:
                n = ast.parse(lv.strip(), mode="eval").body
                if isinstance(n, ast.Attribute):
                    (_, base), = self._single(n.value, old)
                    base = self.as_value(base)
                    if isinstance(base.t, TOpt):
                        base = vals.opt_val(base)
                    if n.attr == "ALL":
                        for f, (dc, ft) in self.ct.all_fields(base.t.cls).items():
                            allowed.setdefault((dc, f), []).append(base.z)
                    else:
                        fd = self.ct.field(base.t.cls, n.attr)
                        allowed.setdefault((fd[0], n.attr), []).append(base.z)
                elif isinstance(n, ast.Name):
                    v = old.frame.locals.get(n.id)
                    if isinstance(v, V) and isinstance(v.t, TRef):
                        for f, (dc, ft) in self.ct.all_fields(v.t.cls).items():
                            allowed.setdefault((dc, f), []).append(v.z)
                elif isinstance(n, ast.Subscript):
                    cf = n.value
                    fd = self.ct.field(cf.value.id, cf.attr)
                    allowed[(fd[0], cf.attr)] = [None]
        finally:
            self.excs.pop()
            self.spec -= 1
        return allowed

    def heap_frame_formulas(self, new: State, old: State, allowed):
        """For every heap field whose arrays differ between `old` and `new`: (key, formula) stating that objects
        allocated in `old` other than the allowed ones have the same value in both."""
        out = []
        for key, arrs in new.heap.items():
            if key == ("$", "type"):
                continue
            cls, fname = key
            t = self.ct.classes[cls].fields[fname]
            base = self.heap_arrays(old, cls, fname, t)
            if all(a.eq(b) for a, b in zip(arrs, base)):
                continue
            refs = allowed.get(key, [])
            if None in refs:
                continue
            r = z3.Int(vals.fresh_name("r"))
            cond = [r > 0, r < old.alloc] + [r != x for x in refs]
            eq = z3.And(*[z3.Select(a, r) == z3.Select(b, r) for a, b in zip(arrs, base)])
            out.append((key, z3.ForAll([r], z3.Implies(z3.And(*cond), eq))))
        return out

    def frame_obligations(self, fin: State, old: State, con: Contract, modnames):
        mutated = fin.ghost.get("$mutated", frozenset())
        bad = [m for m in mutated if m not in modnames]
        if bad:
            self.oblige(fin, "frame", ":params", z3.BoolVal(False), descr=f"parameters mutated outside modifies: {bad}")
        # heap frame
        allowed = self.modifies_allowed(con.modifies, old)
        for key, arrs in fin.heap.items():
            if key == ("$", "type"):
                continue
            cls, fname = key
            if cls in self.ct.classes and fname in self.ct.classes[cls].ghost and False:
                continue
            t = self.ct.classes[cls].fields[fname]
            base = self.heap_arrays(old, cls, fname, t)
            if all(a.eq(b) for a, b in zip(arrs, base)):
                continue
            refs = allowed.get(key, [])
            if None in refs:
                continue
            r = z3.Int(vals.fresh_name("r"))
            cond = [r > 0, r < old.alloc] + [r != x for x in refs]
            eq = z3.And(*[z3.Select(a, r) == z3.Select(b, r) for a, b in zip(arrs, base)])
            self.oblige(fin, "frame", f":{cls}.{fname}", z3.ForAll([r], z3.Implies(z3.And(*cond), eq)),
                        descr=f"field {cls}.{fname} changed only where modifies allows")

    # ------------------------------------------------------------------ lemmas
    def verify_lemma(self, ident):
        lem = REG.lemmas[ident]
        self.cur_target, self.cur_prop = f"lemma:{ident}", lem.prop
        if lem.note == "fp":
            self.fp_mode = True          # floats in this lemma are IEEE doubles
        self.obligations = []
        st = State()
        locs = {}
        for nme, ts in lem.forall.items():
            locs[nme] = fresh(self.ct.parse(ts), nme)
        st.frames.append(Frame(None, None, f"lemma:{ident}", None, locs))
        self.input_vars = dict(locs)
        self.excs.append([])
        for v in list(locs.values()):
            st = self.assume_wf(st, v)
        for a in lem.assume:
            st = st.assume(self.spec_bool(a, st))
        s = z3.Solver()
        s.set("timeout", 10000)
        s.add(*st.pc)
        cover = s.check()
        ob = Obligation(f"{lem.prop}/lemma:{ident}/cover", "cover", f"lemma:{ident}", [], z3.BoolVal(True), "hypotheses satisfiable", lem.prop)
        # (as for functions: the vacuity guard is that the hypotheses are not *shown* contradictory; `unknown` - a solver
        #  budget matter - passes and is recorded as such)
        ob.result = "refuted" if cover == z3.unsat else "discharged"
        ob.reason = "" if cover == z3.sat else f"hypotheses satisfiability: {cover}"
        ob.backend, ob.is_cover = "z3", True
        for i, p in enumerate(lem.prove):
            self.oblige(st, "lemma", f"#{i}", self.spec_goal(p, st), descr=p)
        self.excs.pop()
        for o in self.obligations:
            o.nonlinear = lem.nonlinear
        return [ob] + self.obligations


def old_with_pc(old: State, fin: State) -> State:
    s = old.fork()
    s.pc = list(fin.pc)
    return s


# ---------------------------------------------------------------------------------------
# discharge


def has_ufs(terms) -> bool:
    seen = set()
    todo = list(terms)
    while todo:
        t = todo.pop()
        if t.get_id() in seen:
            continue
        seen.add(t.get_id())
        if z3.is_quantifier(t):
            todo.append(t.body())
            continue
        if z3.is_app(t):
            d = t.decl()
            if d.kind() == z3.Z3_OP_UNINTERPRETED and t.num_args() > 0:
                return True
            todo.extend(t.children())
    return False


def _has_real_to_fp(fmls):
    """Does some formula convert a non-numeral real to a floating-point number?"""
    seen, todo = set(), list(fmls)
    while todo:
        t = todo.pop()
        if t.get_id() in seen:
            continue
        seen.add(t.get_id())
        if z3.is_quantifier(t):
            todo.append(t.body())
            continue
        if z3.is_app(t):
            if t.decl().kind() == z3.Z3_OP_FPA_TO_FP and t.num_args() == 2 and z3.is_real(t.arg(1)) \
                    and not z3.is_rational_value(t.arg(1)):
                return True
            todo.extend(t.children())
    return False


def discharge(ob: Obligation, timeout_ms=10000, use_cvc5=True):
    """Decide pc => goal.  Sets ob.result in {discharged, refuted, unknown}."""
    if getattr(ob, "is_cover", False):
        return ob
    t0 = time.time()
    neg = z3.Not(ob.goal)
    if z3.is_false(z3.simplify(ob.goal)) and not ob.pc:
        ob.result, ob.backend, ob.reason = "refuted", "z3", "goal is false on an unconditional path"
        ob.time = time.time() - t0
        return ob
    configs = [{}]
    if getattr(ob, "nonlinear", False):
        configs = [{"tactic": "nlsat"}, {}]
    else:
        configs = [{}, {"smt.mbqi": False}] if timeout_ms >= 8000 else [{}]
    res, model, reason = z3.unknown, None, ""
    for ci, cfg in enumerate(configs):
        if cfg.get("tactic") == "nlsat":
            s = z3.Tactic("qfnra-nlsat").solver()
        else:
            s = z3.Solver()
            for k, v in cfg.items():
                s.set(k, v)
        s.set("timeout", timeout_ms if ci == 0 else max(2000, timeout_ms // 2))
        s.add(*ob.pc)
        s.add(neg)
        try:
            res = s.check()
        except z3.Z3Exception as e:
            res, reason = z3.unknown, str(e)
            continue
        if res == z3.unsat:
            ob.result, ob.backend = "discharged", "z3" + ("" if ci == 0 else f"(cfg{ci})")
            break
        if res == z3.sat:
            if cfg.get("smt.mbqi") is False:
                res = z3.unknown      # without MBQI a 'sat' is not a model of the quantifiers
                continue
            ob.result, ob.backend, model = "refuted", "z3", s.model()
            if use_cvc5 and _has_real_to_fp(list(ob.pc) + [ob.goal]):
                # z3 leaves the rounding of a symbolic real to a float partly uninterpreted: its 'sat' may be spurious
                # (its 'unsat' is not).  cvc5 implements the conversion; only an 'unsat' from it is taken.
                r, who = cvc5_check(ob, timeout_ms)
                if r == "unsat":
                    ob.result, ob.backend, model = "discharged", who, None
            break
        reason = s.reason_unknown()
    if res == z3.unknown:
        ob.result, ob.reason = "unknown", reason
        if use_cvc5:
            r, who = cvc5_check(ob, timeout_ms)
            if r == "unsat":
                ob.result, ob.backend = "discharged", who
        if ob.result == "unknown" and len(ob.pc) > 6:
            # last resort: the same goal from a *subset* of the hypotheses (those sharing symbols with the goal, one and two
            # hops) - dropping hypotheses can only make a proof harder, never unsound; only `unsat` is taken
            for hops in (1, 2):
                sub = _slice_hyps(ob.pc, ob.goal, hops)
                if len(sub) >= len(ob.pc):
                    break
                s = z3.Solver()
                s.set("timeout", max(3000, timeout_ms // 2))
                s.add(*sub)
                s.add(neg)
                try:
                    if s.check() == z3.unsat:
                        ob.result, ob.backend = "discharged", f"z3(sliced:{hops})"
                        break
                except z3.Z3Exception:
                    pass
    if model is not None:
        ob.model = model
    ob.exact = ob.exact and not has_ufs(list(ob.pc) + [ob.goal])
    ob.time = time.time() - t0
    return ob


def _symbols(e, cache):
    """Names of the uninterpreted constants / functions of a term (heap and allocation bookkeeping names excluded: they occur
    everywhere and would connect every hypothesis to every goal)."""
    key = e.get_id()
    if key in cache:
        return cache[key]
    out, todo, seen = set(), [e], set()
    while todo:
        t = todo.pop()
        if t.get_id() in seen:
            continue
        seen.add(t.get_id())
        if z3.is_quantifier(t):
            todo.append(t.body())
            continue
        if z3.is_app(t):
            d = t.decl()
            if d.kind() == z3.Z3_OP_UNINTERPRETED:
                nm = d.name()
                if not nm.startswith(("alloc", "H_$", "tags")):
                    out.add(nm)
            todo.extend(t.children())
    cache[key] = out
    return out


def _slice_hyps(pc, goal, hops):
    cache = {}
    syms = set(_symbols(goal, cache))
    chosen = [False] * len(pc)
    for _ in range(hops):
        new = set()
        for i, h in enumerate(pc):
            if not chosen[i] and _symbols(h, cache) & syms:
                chosen[i] = True
                new |= _symbols(h, cache)
        syms |= new
    return [h for i, h in enumerate(pc) if chosen[i]]


PORTFOLIO = [
    ("cvc5:enum-inst/no-e-matching", ["/usr/bin/cvc5", "--strings-exp", "--enum-inst", "--no-e-matching"]),
    ("cvc5:enum-inst", ["/usr/bin/cvc5", "--strings-exp", "--enum-inst"]),
    ("cvc5", ["/usr/bin/cvc5", "--strings-exp"]),
    ("z3-4.8", ["/usr/bin/z3"]),
    ("z3:no-mbqi", ["z3-new", "smt.mbqi=false", "smt.auto_config=false"]),
]


def cvc5_check(ob: Obligation, timeout_ms):
    """Portfolio of external solver runs on the SMT-LIB text of the query, in parallel; the first definite
    answer wins.  Returns ('unsat'|'sat'|'unknown', backend name)."""
    s = z3.Solver()
    s.add(*ob.pc)
    s.add(z3.Not(ob.goal))
    try:
        smt2 = s.to_smt2()
    except z3.Z3Exception:
        return "unknown", ""
    with tempfile.NamedTemporaryFile("w", suffix=".smt2", delete=False) as f:
        f.write(smt2)
        path_z3 = f.name
    with tempfile.NamedTemporaryFile("w", suffix=".smt2", delete=False) as f:
        f.write("(set-logic ALL)\n" + smt2)
        path_cvc5 = f.name
    procs = []
    try:
        for name, cmd in PORTFOLIO:
            if cmd[0].endswith("cvc5"):
                full = cmd + [f"--tlimit={timeout_ms}", path_cvc5]
            else:
                full = cmd + [f"-T:{max(1, timeout_ms // 1000)}", path_z3]
            try:
                procs.append((name, subprocess.Popen(full, stdout=subprocess.PIPE, stderr=subprocess.DEVNULL, text=True)))
            except OSError:
                continue
        deadline = time.time() + timeout_ms / 1000 + 3
        pending = list(procs)
        while pending and time.time() < deadline:
            for name, p in list(pending):
                if p.poll() is not None:
                    pending.remove((name, p))
                    out = (p.stdout.read() or "").strip().splitlines()
                    if out and out[0] in ("unsat", "sat"):
                        # 'sat' from a run without MBQI / from cvc5 with quantifiers is not trusted as a model
                        if out[0] == "unsat":
                            return "unsat", name
            time.sleep(0.05)
        return "unknown", ""
    finally:
        for _, p in procs:
            if p.poll() is None:
                p.kill()
        for pth in (path_z3, path_cvc5):
            try:
                os.unlink(pth)
            except OSError:
                pass
