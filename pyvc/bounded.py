"""Bounded stand-in: run a native contract check over an exhaustively enumerated finite scope.

A bounded part is a callable (tier, seed) -> dict with keys
  name, function(s), scope (text), bound (text), inputs_run, distinct_nontrivial, violations [..], errors [..], label="bounded".
Violations carry: oid, descr, target, class (witness class for known_findings), detail (concrete input + outcome).
Nothing here is ever counted as "discharged".
"""
from __future__ import annotations

import multiprocessing as mp
import os
import time
import traceback


class Part:
    def __init__(self, pid, name, functions, scope, bound):
        self.pid, self.name, self.functions, self.scope, self.bound = pid, name, functions, scope, bound
        self.inputs_run = 0
        self.nontrivial = 0
        self.violations = {}
        self.errors = []
        self.t0 = time.time()

    def case(self, nontrivial=True):
        self.inputs_run += 1
        if nontrivial:
            self.nontrivial += 1

    def violation(self, clause, cls, detail, target=None):
        """Record a contract violation; one entry per (clause, witness class), first witness kept."""
        key = (clause, cls)
        if key not in self.violations:
            self.violations[key] = {
                "oid": f"{self.pid}/bounded:{self.name}/{clause}", "descr": clause, "class": cls,
                "target": target or (self.functions[0] if self.functions else ""), "detail": detail, "count": 0}
        self.violations[key]["count"] += 1

    def error(self, text):
        if len(self.errors) < 5:
            self.errors.append(text)

    def result(self):
        return {"name": self.name, "functions": self.functions, "scope": self.scope, "bound": self.bound,
                "inputs_run": self.inputs_run, "distinct_nontrivial": self.nontrivial, "label": "bounded",
                "exhaustive": True, "wall_s": round(time.time() - self.t0, 2),
                "violations": list(self.violations.values()), "errors": self.errors}


def guarded(part: Part, fn, *a, **kw):
    """Run a harness body; harness crashes are checker errors, not verdicts."""
    try:
        fn(part, *a, **kw)
    except Exception:  # noqa: BLE001
        part.error(traceback.format_exc(limit=6))
    return part.result()
