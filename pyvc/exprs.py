"""Expression evaluation (code mode and spec mode)."""
from __future__ import annotations

import ast
import math

import z3

from . import extract
from .contracts import REG
from .state import Exc, FieldAlias, Outcome, State
from .types import (BOOL, FLOAT, FP, INT, NONE, STR, T, TBool, TEnum, TFloat, TFP, TInt, TMap, TNone, TOpaque, TOpt,
                    TRef, TSeq, TSet, TStr, TTuple, comps, zsort)
from . import values as vals
from .values import (NONEV, EngineError, V, coerce, fresh, fresh_name, ite, mk_bool, mk_float, mk_int, mk_str,
                     mk_tuple, opt_isnone, opt_none, opt_some, opt_val, py_eq, same, truth, tuple_items, unify)


class Bag:
    """Result of a comprehension / dict view over a set-like domain: one element per domain member.

    dom: z3 Array(K->Bool); elem(k) -> V gives the element for domain member k; kt: key type.
    """

    def __init__(self, kt, dom, elem, et, guard_states=None):
        self.kt, self.dom, self.elem, self.et = kt, dom, elem, et


class ModRef:
    def __init__(self, dotted):
        self.dotted = dotted


class FuncRef:
    def __init__(self, module, qual, bound_self=None, cls=None):
        self.module, self.qual, self.bound_self, self.cls = module, qual, bound_self, cls


class ClassRef:
    def __init__(self, name):
        self.name = name


class BuiltinRef:
    def __init__(self, name):
        self.name = name


class MethodRef:
    """Method of a builtin-typed value: receiver expression kept for write-back."""

    def __init__(self, recv_node, recv_val, name):
        self.recv_node, self.recv_val, self.name = recv_node, recv_val, name


PY_BUILTINS = {"len", "min", "max", "abs", "sum", "any", "all", "set", "dict", "list", "tuple", "frozenset", "int",
               "float", "bool", "str", "isinstance", "sorted", "range", "enumerate", "zip", "next", "iter", "repr",
               "print", "type", "id", "hash", "reversed", "getattr", "hasattr", "callable", "super", "issubclass",
               "round", "divmod", "ord", "chr", "object", "bytes", "complex", "vars", "map", "filter", "pow"}
SPEC_BUILTINS = {"old", "implies", "iff", "keys", "values_of", "isnan", "isinf", "isfinite", "card", "every",
                 "subset", "forall", "exists", "same", "typeis", "fresh_ref", "disjoint", "seq_eq", "union_all",
                 "real", "rank", "ite", "inrange", "allocated", "unchanged", "floor", "now", "isdigits", "isneg", "samefp",
                 "validf", "unq", "isquoted", "cast", "isident"}


class ExprMixin:
    # ------------------------------------------------------------------ entry points
    def ev(self, e: ast.expr, st: State):
        """Generator of (state, value) for the normal results of evaluating e."""
        m = getattr(self, "ev_" + type(e).__name__, None)
        if m is None:
            raise EngineError(f"unsupported expression {type(e).__name__}: {ast.unparse(e)}")
        yield from m(e, st)

    def ev1(self, e, st):
        """Evaluate an expression that must not split (spec mode)."""
        res = list(self.ev(e, st))
        if len(res) != 1:
            raise EngineError(f"expression split into {len(res)} paths: {ast.unparse(e)}")
        return res[0]

    def ev_pure(self, e, st):
        """Try to evaluate e as a single pure result: returns V or None (if it splits or has effects)."""
        self.excs.append([])
        try:
            res = list(self.ev(e, st))
        finally:
            ex = self.excs.pop()
        if len(res) == 1 and not ex and self._same_store(res[0][0], st):
            return res[0][1], res[0][0]
        return None, (res, ex)

    @staticmethod
    def _same_store(a: State, b: State):
        if a is b:
            return True
        if len(a.frames) != len(b.frames) or a.alloc is not b.alloc and not a.alloc.eq(b.alloc):
            return False
        fa, fb = a.frame.locals, b.frame.locals
        if fa.keys() != fb.keys() or any(fa[k] is not fb[k] for k in fa):
            return False
        ha = {k: v for k, v in a.heap.items()}
        for k, v in b.heap.items():
            if k in ha and any(not x.eq(y) for x, y in zip(ha[k], v)):
                return False
        for k, v in ha.items():
            if k not in b.heap and not all(z3.is_const(x) and str(x).startswith("H_") for x in v):
                return False
        ga = {k: v for k, v in a.ghost.items() if not k.startswith(("$clock", "$cards"))}
        gb = {k: v for k, v in b.ghost.items() if not k.startswith(("$clock", "$cards"))}
        if ga != gb:
            return False
        return True

    def spec_eval_full(self, src: str, st: State, extra: dict | None = None):
        """Evaluate a contract expression in spec mode.  Returns (value, definitional axioms introduced)."""
        node = ast.parse(src.strip(), mode="eval").body
        if extra:
            st = st.fork()
            st.frame.locals.update(extra)
        n0 = len(st.pc)
        self.spec += 1
        try:
            st2, v = self.ev1(node, st)
        finally:
            self.spec -= 1
        self.spec_cards = st2.ghost.get("$cards")      # cardinality terms mentioned (for later relating facts)
        return v, list(st2.pc[n0:])

    def spec_eval(self, src: str, st: State, extra: dict | None = None) -> V:
        v, ax = self.spec_eval_full(src, st, extra)
        return v     # (facts about heap reads / definitions are dropped: the term itself stays valid)

    def spec_bool(self, src, st, extra=None):
        """Formula to ASSUME: definitions and the clause."""
        v, ax = self.spec_eval_full(src, st, extra)
        return z3.And(*ax, truth(v)) if ax else truth(v)

    def spec_goal(self, src, st, extra=None):
        """Formula to PROVE: the clause under its definitions (which only name fresh constants)."""
        v, ax = self.spec_eval_full(src, st, extra)
        return z3.Implies(z3.And(*ax), truth(v)) if ax else truth(v)

    # ------------------------------------------------------------------ literals and names
    def ev_Constant(self, e, st):
        c = e.value
        if c is None:
            yield st, NONEV
        elif isinstance(c, bool):
            yield st, mk_bool(c)
        elif isinstance(c, int):
            yield st, mk_int(c)
        elif isinstance(c, float):
            yield st, (vals.mk_fp(c) if self.fp_mode else mk_float(c))
        elif isinstance(c, str):
            yield st, mk_str(c)
        elif c is Ellipsis:
            yield st, NONEV
        else:
            raise EngineError(f"constant {c!r}")

    def ev_JoinedStr(self, e, st):
        yield st, fresh(STR, "fstr")

    def ev_Name(self, e, st):
        nm = e.id
        st, v = self.read_local(st, nm)
        if v is not None:
            if st.ghost.get("$oneshot"):
                st = self.oneshot_use(st, e)
            yield st, v
            return
        yield st, self.resolve_global(nm, st)

    def resolve_global(self, nm, st):
        if self.spec and nm in ("True", "False"):
            return mk_bool(nm == "True")
        if nm == "inf" and self.spec:
            return mk_float(math.inf)
        if self.spec and nm == "nan":
            return mk_float(math.nan)
        mod = st.frame.module
        try:
            imap = extract.import_map(mod) if mod else {}
        except FileNotFoundError:
            imap = {}            # a ghost module (contracts on callables passed as parameters)
        if nm in imap:
            ent = imap[nm]
            if ent[0] == "module":
                return ModRef(ent[1])
            if ent[0] == "object":
                return self.resolve_object(ent[1], ent[2])
            if ent[0] == "global":
                return self.module_global(ent[1], ent[2], ent[3], st)
        if nm in self.ct.env.enums:
            return ClassRef(nm)
        if nm in self.ct.classes:
            return ClassRef(nm)
        if nm in PY_BUILTINS or (self.spec and nm in SPEC_BUILTINS) or nm in REG.predicates or nm in REG.ufuns \
                or f"builtins:{nm}" in REG.contracts:
            return BuiltinRef(nm)
        import builtins
        if isinstance(getattr(builtins, nm, None), type) and issubclass(getattr(builtins, nm), BaseException):
            return ClassRef(nm)
        if nm in REG.exceptions:
            return ClassRef(nm)
        raise EngineError(f"unbound name {nm!r} in {st.frame.target}")

    def resolve_object(self, module, name):
        if module == "math":
            if name == "inf":
                return vals.mk_fp(math.inf) if self.fp_mode else mk_float(math.inf)
            if name == "nan":
                return vals.mk_fp(math.nan) if self.fp_mode else mk_float(math.nan)
            return BuiltinRef("math." + name)
        if name in self.ct.env.enums or name in self.ct.classes:
            return ClassRef(name)
        if name in REG.exceptions:
            return ClassRef(name)
        if module and extract.is_repo_module(module):
            # re-exported module?
            sub = module + "." + name
            if extract.is_repo_module(sub):
                return ModRef(sub)
            try:
                node = extract.find_def(module, name)
            except LookupError:
                imap = extract.import_map(module)
                if name in imap and imap[name][0] == "global":
                    return self.module_global(module, name, imap[name][3], None)
                if name in imap and imap[name][0] == "module":
                    return ModRef(imap[name][1])
                if name in imap and imap[name][0] == "object" and (imap[name][1], imap[name][2]) != (module, name):
                    return self.resolve_object(imap[name][1], imap[name][2])
                raise EngineError(f"cannot resolve {module}.{name}")
            if isinstance(node, ast.ClassDef):
                return ClassRef(name)
            return FuncRef(module, name)
        return BuiltinRef(f"{module}.{name}")

    def module_global(self, module, name, value_node, st):
        if isinstance(value_node, ast.Constant):
            c = value_node.value
            if isinstance(c, bool):
                return mk_bool(c)
            if isinstance(c, int):
                return mk_int(c)
            if isinstance(c, float):
                return vals.mk_fp(c) if self.fp_mode else mk_float(c)
            if isinstance(c, str):
                return mk_str(c)
        if isinstance(value_node, ast.UnaryOp) and isinstance(value_node.operand, ast.Constant):
            c = value_node.operand.value
            if isinstance(value_node.op, ast.USub) and isinstance(c, (int, float)):
                return mk_int(-c) if isinstance(c, int) else mk_float(-c)
        if isinstance(value_node, (ast.BinOp, ast.UnaryOp)) and all(
                isinstance(n, (ast.BinOp, ast.UnaryOp, ast.Constant, ast.operator, ast.unaryop))
                for n in ast.walk(value_node)):
            try:
                c = eval(compile(ast.Expression(body=value_node), "<const>", "eval"), {"__builtins__": {}})  # noqa: S307
                if isinstance(c, bool):
                    return mk_bool(c)
                if isinstance(c, int):
                    return mk_int(c)
                if isinstance(c, float):
                    return vals.mk_fp(c) if self.fp_mode else mk_float(c)
            except Exception:  # noqa: BLE001
                pass
        if isinstance(value_node, ast.Call) and len(value_node.args) == 1 and not value_node.keywords \
                and isinstance(value_node.args[0], ast.Constant) and isinstance(value_node.args[0].value, (int, float)):
            # a module constant computed by a pure math function of a literal (e.g. ulp(0.0), sqrt(2.0)): its value
            fn = value_node.func
            fname = fn.attr if isinstance(fn, ast.Attribute) else getattr(fn, "id", None)
            imap = extract.import_map(module) if module else {}
            from_math = (isinstance(fn, ast.Attribute) and isinstance(fn.value, ast.Name) and fn.value.id == "math") or (
                fname in imap and imap[fname][0] == "object" and imap[fname][1] == "math")
            if from_math and fname in ("ulp", "sqrt", "log", "exp", "floor", "ceil", "fabs"):
                c = getattr(math, fname)(value_node.args[0].value)
                if isinstance(c, float):
                    return vals.mk_fp(c) if self.fp_mode else mk_float(c)
                return mk_int(c)
        if name in ("_LOGGER", "_logger", "logger", "LOGGER"):
            return BuiltinRef("$logger")
        key = f"{module}.{name}"
        if key in self.global_types:
            t = self.ct.parse(self.global_types[key])
            zs = [z3.Const(f"G_{key}{('_' + s) if s else ''}", so) for s, so in comps(t)]
            return V(t, zs)
        # an undeclared non-literal module global: an opaque value (fixed per global)
        self.note_assumed(f"module global {module}.{name} (opaque value)")
        t = TOpaque(f"global_{name}")
        return V(t, [z3.Const(f"G_{key}", zsort(t))])

    # ------------------------------------------------------------------ attribute
    def ev_Attribute(self, e, st):
        for st1, base in self.ev(e.value, st):
            yield from self.attr_of(st1, base, e.attr, e)

    def attr_of(self, st, base, attr, node):
        if isinstance(base, ModRef):
            dotted = base.dotted
            if dotted in ("math",):
                yield st, self.resolve_object("math", attr)
                return
            sub = dotted + "." + attr
            if extract.is_repo_module(sub):
                yield st, ModRef(sub)
                return
            if extract.is_repo_module(dotted):
                imap = extract.import_map(dotted)
                if attr in imap:
                    ent = imap[attr]
                    if ent[0] == "module":
                        yield st, ModRef(ent[1])
                    elif ent[0] == "object":
                        yield st, self.resolve_object(ent[1], ent[2])
                    else:
                        yield st, self.module_global(ent[1], ent[2], ent[3], st)
                    return
            if attr in self.ct.classes and not extract.is_repo_module(dotted):
                yield st, ClassRef(attr)      # external class declared with klass(...)
                return
            yield st, BuiltinRef(f"{dotted}.{attr}")
            return
        if isinstance(base, ClassRef):
            if base.name in self.ct.env.enums:
                t = self.ct.env.enums[base.name]
                if attr in t.members:
                    yield st, V(t, [z3.IntVal(t.members.index(attr))])
                    return
            if base.name in self.ct.classes:
                m = self.ct.method(base.name, attr)
                if m is not None:
                    ci = self.ct.classes[m[0]]
                    yield st, FuncRef(ci.module, f"{m[0]}.{attr}", cls=m[0])
                    return
                ci = self.ct.classes[base.name]
                for c in self.ct.mro(base.name):
                    d = self.ct.classes[c].defaults
                    if attr in d:
                        yield st, self.module_global(ci.module, f"{c}.{attr}", d[attr], st)
                        return
            # attribute of a class outside the schema (enum members, class constants): an opaque constant
            t_ = TOpaque(f"classattr_{base.name}")
            yield st, V(t_, [z3.Const(f"CA_{base.name}_{attr}", zsort(t_))])
            return
        if isinstance(base, BuiltinRef):
            if base.name == "$logger":
                yield st, BuiltinRef("$logger")
                return
            if base.name.startswith("$super:"):
                cur = base.name.split(":", 1)[1]
                slf = st.frame.locals["self"]
                for c in self.ct.mro(cur)[1:]:
                    if attr in self.ct.classes[c].methods or REG.contracts.get(f"{self.ct.classes[c].module}:{c}.{attr}"):
                        yield st, FuncRef(self.ct.classes[c].module, f"{c}.{attr}", bound_self=slf, cls=c)
                        return
                # base class outside the schema (object, ABC, Generic): a call without tracked effect
                self.note_assumed(f"super().{attr} resolved outside the declared classes (no tracked effect)")
                yield st, V(TOpaque("supermethod"), [z3.Const(fresh_name("sup"), zsort(TOpaque("supermethod")))])
                return
            yield st, BuiltinRef(base.name + "." + attr)
            return
        if isinstance(base, MethodRef):
            b2 = self.as_value(base)
            if isinstance(b2.t, TOpaque):
                base = b2
        if isinstance(base, (FuncRef, MethodRef)):
            raise EngineError(f"attribute of function {ast.unparse(node)}")
        assert isinstance(base, V), base
        t = base.t
        if isinstance(t, TOpt):
            self.raise_(st, "AttributeError", opt_isnone(base))
            st = st.assume(z3.Not(opt_isnone(base)))
            if not self.spec and not self.feasible(st):
                return
            base = opt_val(base)
            t = base.t
        if isinstance(t, TRef):
            if attr in ("_logger", "logger", "_LOGGER"):
                yield st, BuiltinRef("$logger")
                return
            fd = self.ct.field(t.cls, attr)
            if fd is not None:
                st2, v = self.field_read(st, base.z, t.cls, attr)
                yield st2, v
                return
            cands = [c for c in self.ct.subclasses(t.cls) if c != t.cls and attr in self.ct.classes[c].fields]
            if len(cands) > 1 and len({str(self.ct.classes[c].fields[attr]) for c in cands}) == 1:
                # a field that several subclasses declare (with one type): selected by the object's dynamic class;
                # AttributeError when the object is of none of them
                conds = [self.type_constraint(st, base.z, c) for c in cands]
                if not self.spec:
                    self.raise_(st, "AttributeError", z3.Not(z3.Or(*conds)))
                    st = st.assume(z3.Or(*conds))
                    if not self.feasible(st):
                        return
                cur, res = st, None
                for c, cnd in reversed(list(zip(cands, conds))):
                    cur, v = self.field_read(cur, base.z, c, attr)
                    res = v if res is None else ite(cnd, v, res)
                yield cur, res
                return
            m = self.ct.method(t.cls, attr)
            if m is None:
                dc_, con_ = self.ct.contract_for(t.cls, attr)
                if con_ is not None:
                    # method of a class without source in the repository (library class) with an assumed contract
                    yield st, FuncRef(self.ct.classes[dc_].module, f"{dc_}.{attr}", bound_self=base, cls=t.cls)
                    return
            if m is not None:
                dcls, fdef = m
                ci = self.ct.classes[dcls]
                decos = [ast.unparse(d) for d in fdef.decorator_list]
                fr = FuncRef(ci.module, f"{dcls}.{attr}", bound_self=base, cls=t.cls)
                if "property" in decos or any(d.endswith("cached_property") for d in decos):
                    yield from self.call_function(st, fr, [], {}, node, is_property=True)
                    return
                yield st, fr
                return
            # class-level constant?
            for c in self.ct.mro(t.cls):
                d = self.ct.classes[c].defaults
                if attr in d:
                    yield st, self.module_global(self.ct.classes[c].module, f"{c}.{attr}", d[attr], st)
                    return
            # an attribute the class schema does not declare: an opaque field (value with identity only)
            self.note_assumed(f"unmodelled attribute {t.cls}.{attr} (opaque value)")
            self.ct.classes[t.cls].fields[attr] = TOpaque(f"{t.cls}.{attr}")
            st2, v = self.field_read(st, base.z, t.cls, attr)
            yield st2, v
            return
        if isinstance(t, TTuple) and t.names and attr in t.names:
            yield st, tuple_items(base)[t.names.index(attr)]
            return
        if isinstance(t, TEnum) and attr in ("value", "name"):
            yield st, V(INT, [base.z]) if attr == "value" else fresh(STR, "ename")
            return
        if isinstance(t, TOpaque) and attr in ("_logger", "logger", "_LOGGER"):
            yield st, BuiltinRef("$logger")
            return
        # method of a builtin value
        yield st, MethodRef(node.value if isinstance(node, ast.Attribute) else None, base, attr)

    # ------------------------------------------------------------------ operators
    def ev_BoolOp(self, e, st):
        is_and = isinstance(e.op, ast.And)

        def go(i, st):
            if i == len(e.values) - 1:
                yield from self.ev(e.values[i], st)
                return
            for st1, a in self.ev(e.values[i], st):
                ta = truth(self.as_value(a))
                cont = ta if is_and else z3.Not(ta)
                # try a merged (non-splitting) evaluation of the rest under the guard
                st_guard = st1.assume(cont)
                rest = ast.BoolOp(op=e.op, values=e.values[i + 1:]) if i + 2 < len(e.values) else e.values[i + 1]
                if self.spec or self.feasible(st_guard):
                    pv, info = self.ev_pure(rest, st_guard)
                    if pv is not None and isinstance(pv, V) and isinstance(a, V):
                        try:
                            if isinstance(a.t, TBool) and isinstance(pv.t, TBool):
                                merged = mk_bool(z3.And(a.z, pv.z) if is_and else z3.Or(a.z, pv.z))
                            elif not is_and and isinstance(a.t, TOpt) and not isinstance(pv.t, (TOpt, TNone)):
                                # `x or default` with an Optional x: a truthy x is not None
                                merged = ite(cont, pv, opt_val(a))
                            else:
                                merged = ite(cont, pv, a)
                            yield self._carry_facts(st1, info, st_guard, cont), merged
                            continue
                        except EngineError:
                            pass
                    if pv is not None:
                        res, ex = [(info, pv)], []
                    else:
                        res, ex = info
                    if self.spec and pv is None:
                        raise EngineError(f"spec expression splits: {ast.unparse(e)}")
                    self.excs[-1].extend(ex) if self.excs else None
                    for st2, b in res:
                        yield st2, b
                st_stop = st1.assume(z3.Not(cont))
                if self.feasible(st_stop):
                    yield st_stop, a
        yield from go(0, st)

    @staticmethod
    def _carry_facts(base: State, evaluated: State, guarded: State, guard) -> State:
        """Facts learnt while evaluating an operand under `guard` (contract postconditions, definitions of fresh
        arrays, well-formedness of values read) stay available after the merge, conditioned on the guard."""
        new = evaluated.pc[len(guarded.pc):]
        out = base
        for f in new:
            out = out.assume(z3.Implies(guard, f))
        if evaluated.ghost.get("$clock") is not None and evaluated.ghost.get("$clock") is not base.ghost.get("$clock"):
            out = out.fork()
            out.ghost["$clock"] = evaluated.ghost["$clock"]
        if len(evaluated.ghost.get("$cards", ())) > len(base.ghost.get("$cards", ())):
            out = out.fork()
            out.ghost["$cards"] = evaluated.ghost["$cards"]
        return out

    def opq_may_raise(self, st, what):
        """Operations on values of unknown type run user code: under `opaque_raise` they may raise anything."""
        if getattr(self, "opaque_raise", False) and not self.spec:
            self.raise_(st, "$any", msg=what)

    def as_value(self, x):
        if isinstance(x, V):
            return x
        if isinstance(x, Bag):
            raise EngineError("comprehension result used as a value")
        if isinstance(x, MethodRef) and isinstance(x.recv_val, V) and isinstance(
                x.recv_val.t.inner if isinstance(x.recv_val.t, TOpt) else x.recv_val.t, TOpaque):
            # attribute of an opaque object used as a value
            return fresh(TOpaque(f"attr_{x.name}"), "opq")
        if isinstance(x, BuiltinRef) and "." in x.name and not x.name.startswith("$"):
            # a library object used as a value (e.g. opcode.opname): an opaque constant
            t_ = TOpaque("libobj")
            return V(t_, [z3.Const("LIB_" + x.name.replace(".", "_"), zsort(t_))])
        if isinstance(x, ClassRef):
            t_ = TOpaque("classobj")
            return V(t_, [z3.Const("CLS_" + x.name, zsort(t_))])
        if isinstance(x, (FuncRef, ClassRef, BuiltinRef, ModRef, MethodRef)):
            return mk_bool(True)
        raise EngineError(f"not a value: {x}")

    def ev_UnaryOp(self, e, st):
        for st1, a in self.ev(e.operand, st):
            if isinstance(e.op, ast.Not):
                if isinstance(a, Bag):
                    st1, c = self.bag_len(st1, a)
                    yield st1, mk_bool(c == 0)
                    continue
                yield st1, mk_bool(z3.Not(truth(self.as_value(a))))
            elif isinstance(e.op, ast.USub):
                a = self.as_value(a)
                if isinstance(a.t, (TInt, TBool)):
                    yield st1, mk_int(-coerce(a, INT).z)
                elif isinstance(a.t, TFloat):
                    yield st1, vals.f_neg(a)
                elif isinstance(a.t, TFP):
                    yield st1, vals.mk_fp(z3.fpNeg(a.z))
                else:
                    raise EngineError(f"unary - on {a.t}")
            elif isinstance(e.op, ast.UAdd):
                yield st1, a
            else:
                raise EngineError("unary op " + type(e.op).__name__)

    def ev_IfExp(self, e, st):
        for st1, c in self.ev(e.test, st):
            tc = truth(self.as_value(c))
            st_t, st_f = st1.assume(tc), st1.assume(z3.Not(tc))
            ft, ff = (self.spec or self.feasible(st_t)), (self.spec or self.feasible(st_f))
            if ft and ff:
                pa, ia = self.ev_pure(e.body, st_t)
                pb, ib = self.ev_pure(e.orelse, st_f)
                if pa is not None and pb is not None and isinstance(pa, V) and isinstance(pb, V):
                    try:
                        merged_ = ite(tc, pa, pb)
                        s_m = self._carry_facts(st1, ia, st_t, tc)
                        s_m = self._carry_facts(s_m, ib, st_f, z3.Not(tc))
                        yield s_m, merged_
                        continue
                    except EngineError:
                        pass
                if self.spec:
                    raise EngineError(f"spec conditional splits: {ast.unparse(e)}")
                for p, info, s in ((pa, ia, st_t), (pb, ib, st_f)):
                    if p is not None:
                        yield info, p
                    else:
                        res, ex = info
                        self.excs[-1].extend(ex)
                        yield from res
            elif ft:
                yield from self.ev(e.body, st_t)
            elif ff:
                yield from self.ev(e.orelse, st_f)

    def ev_BinOp(self, e, st):
        for st1, a in self.ev(e.left, st):
            for st2, b in self.ev(e.right, st1):
                yield from self.binop(st2, e.op, self.as_value(a), self.as_value(b), e)

    def binop(self, st, op, a: V, b: V, node):
        ta, tb = a.t, b.t
        if isinstance(ta, (TSet,)) and isinstance(tb, (TSet,)):
            a, b = unify(a, b)
            A, B = a.zs[0], b.zs[0]
            x = z3.Const(fresh_name("x"), zsort(a.t.elem))
            if isinstance(op, ast.BitOr):
                body = z3.Or(A[x], B[x])
            elif isinstance(op, ast.BitAnd):
                body = z3.And(A[x], B[x])
            elif isinstance(op, ast.Sub):
                body = z3.And(A[x], z3.Not(B[x]))
            elif isinstance(op, ast.BitXor):
                body = z3.Xor(A[x], B[x])
            else:
                raise EngineError("set operator " + type(op).__name__)
            st, r = self.def_array(st, x, body, "setop")
            yield st, V(a.t, [r])
            return
        if isinstance(ta, TSeq) and isinstance(tb, TSeq) and isinstance(op, ast.Add):
            yield self.seq_concat(st, a, b)
            return
        if isinstance(ta, TStr) and isinstance(tb, TStr) and isinstance(op, ast.Add):
            yield st, mk_str(z3.Concat(a.z, b.z))
            return
        if isinstance(ta, TStr) and isinstance(op, ast.Mod):
            yield st, fresh(STR, "fmt")
            return
        if isinstance(ta, TOpt) or isinstance(tb, TOpt):
            # operating on a possibly-None value: TypeError when None
            if isinstance(ta, TOpt):
                self.raise_(st, "TypeError", opt_isnone(a))
                st = st.assume(z3.Not(opt_isnone(a)))
                a = opt_val(a)
            if isinstance(tb, TOpt):
                self.raise_(st, "TypeError", opt_isnone(b))
                st = st.assume(z3.Not(opt_isnone(b)))
                b = opt_val(b)
            yield from self.binop(st, op, a, b, node)
            return
        if isinstance(ta, TOpaque) or isinstance(tb, TOpaque):
            self.note_assumed(f"arithmetic on an opaque value: {ast.unparse(node)[:60]} (unknown result, assumed not to raise)")
            self.opq_may_raise(st, "arithmetic on a value of unknown type")
            yield st, fresh(TOpaque("arith"), "opq")
            return
        if isinstance(ta, TBool) and isinstance(tb, TBool) and isinstance(op, (ast.BitOr, ast.BitAnd, ast.BitXor)):
            # bool | bool, bool & bool, bool ^ bool are bools
            f = {ast.BitOr: z3.Or, ast.BitAnd: z3.And, ast.BitXor: z3.Xor}[type(op)]
            yield st, mk_bool(f(a.z, b.z))
            return
        if not (vals.is_num(ta) and vals.is_num(tb)):
            # a user-defined operator: objects / records of a declared class whose dunder method is under contract
            cname = ta.cls if isinstance(ta, TRef) else (ta.recname if isinstance(ta, TTuple) else None)
            dunder = {ast.Add: "__add__", ast.Sub: "__sub__", ast.Mult: "__mul__", ast.BitOr: "__or__",
                      ast.BitAnd: "__and__"}.get(type(op))
            if cname in self.ct.classes and dunder and self.ct.method(cname, dunder) is not None:
                m = self.ct.method(cname, dunder)
                fr = FuncRef(self.ct.classes[m[0]].module, f"{m[0]}.{dunder}", bound_self=a, cls=cname)
                yield from self.call_function(st, fr, [b], {}, node)
                return
            raise EngineError(f"binary {type(op).__name__} on {ta} and {tb}: {ast.unparse(node)}")
        if isinstance(ta, TFP) or isinstance(tb, TFP):
            yield from self.binop_fp(st, op, a, b, node)
            return
        isfloat = isinstance(ta, TFloat) or isinstance(tb, TFloat)
        if isinstance(op, ast.Div):
            fa, fb = coerce(a, FLOAT), coerce(b, FLOAT)
            self.raise_(st, "ZeroDivisionError", vals.f_iszero(fb))
            st = st.assume(z3.Not(vals.f_iszero(fb)))
            yield st, vals.f_div(fa, fb)
            return
        if isfloat:
            fa, fb = coerce(a, FLOAT), coerce(b, FLOAT)
            if isinstance(op, ast.Add):
                yield st, vals.f_add(fa, fb)
            elif isinstance(op, ast.Sub):
                yield st, vals.f_sub(fa, fb)
            elif isinstance(op, ast.Mult):
                yield st, vals.f_mul(fa, fb)
            elif isinstance(op, ast.Pow):
                if isinstance(node.right, ast.Constant) and node.right.value == 2:
                    yield st, vals.f_mul(fa, fa)
                else:
                    raise EngineError("float power")
            else:
                raise EngineError(f"float operator {type(op).__name__}")
            return
        ia, ib = coerce(a, INT).z, coerce(b, INT).z
        if isinstance(op, ast.Add):
            yield st, mk_int(ia + ib)
        elif isinstance(op, ast.Sub):
            yield st, mk_int(ia - ib)
        elif isinstance(op, ast.Mult):
            yield st, mk_int(ia * ib)
        elif isinstance(op, ast.FloorDiv):
            self.raise_(st, "ZeroDivisionError", ib == 0)
            st = st.assume(ib != 0)
            # Python floor division: floor(a/b); z3 div is euclidean (rounds so that remainder >= 0)
            q = z3.If(ib > 0, ia / ib, -((-ia) / (-ib)) if False else (-ia) / (-ib))
            yield st, mk_int(z3.If(ib > 0, ia / ib, (-ia) / (-ib)))
        elif isinstance(op, ast.Mod):
            self.raise_(st, "ZeroDivisionError", ib == 0)
            st = st.assume(ib != 0)
            yield st, mk_int(z3.If(ib > 0, ia % ib, -((-ia) % (-ib))))
        elif isinstance(op, ast.Pow):
            if isinstance(node.right, ast.Constant) and isinstance(node.right.value, int) and 0 <= node.right.value <= 4:
                r = z3.IntVal(1)
                for _ in range(node.right.value):
                    r = r * ia
                yield st, mk_int(r)
            else:
                raise EngineError("int power")
        else:
            raise EngineError(f"int operator {type(op).__name__}")

    def binop_fp(self, st, op, a, b, node):
        if not isinstance(a.t, TFP):
            st, a = self.int_to_fp(st, a)        # int op float: the int operand is converted first (may overflow)
        if not isinstance(b.t, TFP):
            st, b = self.int_to_fp(st, b)
        fa, fb = a.z, b.z
        if isinstance(op, ast.Add):
            yield st, vals.mk_fp(z3.fpAdd(vals.RNE, fa, fb))
        elif isinstance(op, ast.Sub):
            yield st, vals.mk_fp(z3.fpSub(vals.RNE, fa, fb))
        elif isinstance(op, ast.Mult):
            yield st, vals.mk_fp(z3.fpMul(vals.RNE, fa, fb))
        elif isinstance(op, ast.Div):
            self.raise_(st, "ZeroDivisionError", z3.fpIsZero(fb))
            st = st.assume(z3.Not(z3.fpIsZero(fb)))
            yield st, vals.mk_fp(z3.fpDiv(vals.RNE, fa, fb))
        else:
            raise EngineError("fp operator")

    def to_fp(self, st, v):
        if isinstance(v.t, TFP):
            return v.z
        raise EngineError("implicit int->fp conversion; use int_to_fp (it may raise OverflowError)")

    # 2**1024 - 2**970: the smallest magnitude whose round-to-nearest-even image is not a finite double
    I2F_LIMIT = 2 ** 1024 - 2 ** 970

    def int_to_fp(self, st, v):
        """float(i) / the implicit conversion of an int operand in int-float arithmetic: the correctly rounded double,
        OverflowError when it does not fit (CPython: 'int too large to convert to float')."""
        z = coerce(v, INT).z
        big = z3.Or(z >= self.I2F_LIMIT, z <= -self.I2F_LIMIT)
        self.raise_(st, "OverflowError", big)
        st = st.assume(z3.Not(big))
        return st, vals.mk_fp(z3.fpRealToFP(vals.RNE, z3.ToReal(z), vals.FP64))

    @staticmethod
    def cmp_int_fp(op, a: V, b: V):
        """Ordering / equality between an int and a float operand with CPython's semantics (exact, NaN unordered)."""
        swap = isinstance(a.t, TFP)
        f = (a if swap else b).z
        iz = z3.simplify(coerce(b if swap else a, INT).z)
        if z3.is_int_value(iz) and abs(iz.as_long()) <= 2 ** 53:
            # a small integer literal is exactly representable: plain IEEE comparison
            c = z3.FPVal(float(iz.as_long()), vals.FP64)
            l, r = (f, c) if swap else (c, f)
            return {ast.Lt: z3.fpLT, ast.LtE: z3.fpLEQ, ast.Gt: z3.fpGT, ast.GtE: z3.fpGEQ, ast.Eq: z3.fpEQ,
                    ast.NotEq: lambda x, y: z3.Not(z3.fpEQ(x, y))}[type(op)](l, r)
        i = z3.ToReal(iz)
        fr = z3.fpToReal(f)
        nan, pinf, ninf = z3.fpIsNaN(f), z3.And(z3.fpIsInf(f), z3.fpIsPositive(f)), z3.And(z3.fpIsInf(f), z3.fpIsNegative(f))
        # relation "i REL f"
        lt = z3.And(z3.Not(nan), z3.Or(pinf, z3.And(z3.Not(ninf), i < fr)))
        gt = z3.And(z3.Not(nan), z3.Or(ninf, z3.And(z3.Not(pinf), i > fr)))
        eq = z3.And(z3.Not(nan), z3.Not(z3.fpIsInf(f)), i == fr)
        rel = {ast.Lt: lt, ast.LtE: z3.Or(lt, eq), ast.Gt: gt, ast.GtE: z3.Or(gt, eq), ast.Eq: eq, ast.NotEq: z3.Not(eq)}
        if swap:     # "f REL i" is "i REL' f" with the mirrored relation
            mirror = {ast.Lt: ast.Gt, ast.LtE: ast.GtE, ast.Gt: ast.Lt, ast.GtE: ast.LtE, ast.Eq: ast.Eq, ast.NotEq: ast.NotEq}
            return rel[mirror[type(op)]]
        return rel[type(op)]

    def seq_concat(self, st, a, b):
        a, b = unify(a, b)
        r = fresh(a.t, "cat")
        i = z3.Int(fresh_name("i"))
        la, lb = a.zs[0], b.zs[0]
        conj = [r.zs[0] == la + lb]
        eqa = [z3.Select(x, i) == z3.Select(y, i) for x, y in zip(r.zs[1:], a.zs[1:])]
        eqb = [z3.Select(x, i + la) == z3.Select(y, i) for x, y in zip(r.zs[1:], b.zs[1:])]
        if eqa:
            conj.append(z3.ForAll([i], z3.Implies(z3.And(0 <= i, i < la), z3.And(*eqa))))
            conj.append(z3.ForAll([i], z3.Implies(z3.And(0 <= i, i < lb), z3.And(*eqb))))
        return st.assume(z3.And(*conj)), r

    # ------------------------------------------------------------------ comparisons
    def ev_Compare(self, e, st):
        def go(i, st, left, acc):
            if i == len(e.ops):
                yield st, mk_bool(z3.And(*acc) if len(acc) > 1 else acc[0])
                return
            if i > 0 and not self.spec:
                # chained comparison short-circuits; operands here are cheap, evaluate under guard
                st_g = st.assume(z3.And(*acc))
                pv, info = self.ev_pure(e.comparators[i], st_g)
                if pv is None:
                    raise EngineError("chained comparison with effects")
                right, st2 = pv, self._carry_facts(st, info, st_g, z3.And(*acc))
            else:
                res = list(self.ev(e.comparators[i], st))
                if len(res) != 1:
                    for st2, right in res:
                        for st3, c in self.compare(st2, e.ops[i], left, right, e):
                            yield from go(i + 1, st3, right, acc + [c])
                    return
                st2, right = res[0]
            for st3, c in self.compare(st2, e.ops[i], left, right, e):
                yield from go(i + 1, st3, right, acc + [c])
        for st1, l in self.ev(e.left, st):
            yield from go(0, st1, l, [])

    def compare(self, st, op, a, b, node):
        """Yields (state, z3 Bool)."""
        if isinstance(op, (ast.In, ast.NotIn)):
            for st1, c in self.contains(st, a, b, node):
                yield st1, (c if isinstance(op, ast.In) else z3.Not(c))
            return
        if isinstance(a, (ClassRef, FuncRef, BuiltinRef)) or isinstance(b, (ClassRef, FuncRef, BuiltinRef)):
            if isinstance(a, ClassRef) and isinstance(b, ClassRef):
                r = a.name == b.name
                yield st, z3.BoolVal(r if isinstance(op, (ast.Is, ast.Eq)) else not r)
                return
            if isinstance(a, FuncRef) or isinstance(b, FuncRef):
                raise EngineError(f"comparison of non-values {ast.unparse(node)}")
            a, b = self.as_value(a), self.as_value(b)      # class / library objects as opaque constants
        if isinstance(a, Bag) or isinstance(b, Bag):
            raise EngineError("comparison of comprehension results")
        def _opq_attr(x):
            # an attribute of a value of unknown type used as a value (not called): an unknown value
            if isinstance(x, MethodRef) and isinstance(x.recv_val, V) and isinstance(
                    x.recv_val.t.inner if isinstance(x.recv_val.t, TOpt) else x.recv_val.t, TOpaque):
                self.note_assumed(f"attribute .{x.name} of a value of unknown type (unknown value)")
                return fresh(TOpaque("unk"), "attr")
            return x
        a, b = _opq_attr(a), _opq_attr(b)
        if isinstance(a, MethodRef) or isinstance(b, MethodRef):
            raise EngineError("comparison of a bound method")
        ta_, tb_ = (a.t.inner if isinstance(a.t, TOpt) else a.t), (b.t.inner if isinstance(b.t, TOpt) else b.t)
        if (isinstance(ta_, TOpaque) or isinstance(tb_, TOpaque)) \
                and not isinstance(a.t, TNone) and not isinstance(b.t, TNone) \
                and not isinstance(op, (ast.Is, ast.IsNot)) \
                and not (ta_ == tb_ and isinstance(ta_, TOpaque) and ta_.nm in getattr(REG, "value_types", ())
                         and isinstance(op, (ast.Eq, ast.NotEq))) \
                and (ta_ != tb_ or not self.spec or isinstance(op, (ast.Lt, ast.LtE, ast.Gt, ast.GtE))):
            # comparison involving a value of unknown type: unknown outcome (assumed not to raise)
            self.note_assumed(f"comparison with an opaque value: {ast.unparse(node)[:60]}")
            self.opq_may_raise(st, "comparison with a value of unknown type")
            yield st, z3.Bool(fresh_name("opq_cmp"))
            return
        if isinstance(op, (ast.Is, ast.IsNot)):
            if (isinstance(ta_, TOpaque) or isinstance(tb_, TOpaque)) and ta_ != tb_ \
                    and not isinstance(a.t, TNone) and not isinstance(b.t, TNone):
                c = z3.Bool(fresh_name("opq_is"))       # identity of values of unknown type: unknown
            else:
                c = self.identical(a, b)
            yield st, (c if isinstance(op, ast.Is) else z3.Not(c))
            return
        if isinstance(op, (ast.Eq, ast.NotEq)):
            for st1, c in self.equals(st, a, b, node):
                yield st1, (c if isinstance(op, ast.Eq) else z3.Not(c))
            return
        # ordering
        ta, tb = a.t, b.t
        if isinstance(ta, TOpt) or isinstance(tb, TOpt):
            if isinstance(ta, TOpt):
                self.raise_(st, "TypeError", opt_isnone(a))
                st = st.assume(z3.Not(opt_isnone(a)))
                a = opt_val(a)
            if isinstance(tb, TOpt):
                self.raise_(st, "TypeError", opt_isnone(b))
                st = st.assume(z3.Not(opt_isnone(b)))
                b = opt_val(b)
            yield from self.compare(st, op, a, b, node)
            return
        if vals.is_num(ta) and vals.is_num(tb):
            if isinstance(ta, TFP) or isinstance(tb, TFP):
                if isinstance(ta, TFP) and isinstance(tb, TFP):
                    f = {ast.Lt: z3.fpLT, ast.LtE: z3.fpLEQ, ast.Gt: z3.fpGT, ast.GtE: z3.fpGEQ}[type(op)]
                    yield st, f(a.z, b.z)
                    return
                # int against float: CPython compares the exact values (no conversion of the int)
                yield st, self.cmp_int_fp(op, a, b)
                return
            if isinstance(ta, TFloat) or isinstance(tb, TFloat):
                fa, fb = coerce(a, FLOAT), coerce(b, FLOAT)
                c = {ast.Lt: lambda: vals.f_lt(fa, fb), ast.LtE: lambda: vals.f_le(fa, fb),
                     ast.Gt: lambda: vals.f_lt(fb, fa), ast.GtE: lambda: vals.f_le(fb, fa)}[type(op)]()
                yield st, c
                return
            ia, ib = coerce(a, INT).z, coerce(b, INT).z
            c = {ast.Lt: ia < ib, ast.LtE: ia <= ib, ast.Gt: ia > ib, ast.GtE: ia >= ib}[type(op)]
            yield st, c
            return
        if isinstance(ta, TStr) and isinstance(tb, TStr):
            c = {ast.Lt: lambda: z3.And(a.z != b.z, z3.StrLE(a.z, b.z)) if hasattr(z3, "StrLE") else a.z < b.z,
                 ast.LtE: lambda: a.z <= b.z, ast.Gt: lambda: b.z < a.z, ast.GtE: lambda: b.z <= a.z}[type(op)]()
            yield st, c
            return
        if isinstance(ta, TSet) and isinstance(tb, TSet):
            a, b = unify(a, b)
            x = z3.Const(fresh_name("x"), zsort(a.t.elem))
            sub = lambda A, B: z3.ForAll([x], z3.Implies(A[x], B[x]))
            A, B = a.zs[0], b.zs[0]
            c = {ast.LtE: lambda: sub(A, B), ast.GtE: lambda: sub(B, A),
                 ast.Lt: lambda: z3.And(sub(A, B), A != B), ast.Gt: lambda: z3.And(sub(B, A), A != B)}[type(op)]()
            yield st, c
            return
        if isinstance(ta, TRef):
            m = self.ct.method(ta.cls, {ast.Lt: "__lt__", ast.LtE: "__le__", ast.Gt: "__gt__", ast.GtE: "__ge__"}[type(op)])
            if m is not None:
                fr = FuncRef(self.ct.classes[m[0]].module, f"{m[0]}.{m[1].name}", bound_self=a, cls=ta.cls)
                for st1, r in self.call_function(st, fr, [b], {}, node):
                    yield st1, truth(self.as_value(r))
                return
        if isinstance(ta, TTuple) and isinstance(tb, TTuple) and len(ta.items) == len(tb.items):
            # lexicographic order on tuples
            xs, ys = tuple_items(a), tuple_items(b)
            strict = isinstance(op, (ast.Lt, ast.Gt))
            lt_op = ast.Lt() if isinstance(op, (ast.Lt, ast.LtE)) else ast.Gt()
            res, prefix_eq = [], z3.BoolVal(True)
            for x, y in zip(xs, ys):
                (_, c_lt), = list(self.compare(st, lt_op, x, y, node))
                (_, c_eq), = list(self.equals(st, x, y, node))
                res.append(z3.And(prefix_eq, c_lt))
                prefix_eq = z3.And(prefix_eq, c_eq)
            yield st, z3.Or(*res) if strict else z3.Or(prefix_eq, *res)
            return
        raise EngineError(f"ordering comparison on {ta} and {tb}: {ast.unparse(node)}")

    def identical(self, a: V, b: V):
        if isinstance(a.t, TNone) and isinstance(b.t, TNone):
            return z3.BoolVal(True)
        if isinstance(a.t, TNone):
            return opt_isnone(b) if isinstance(b.t, TOpt) else z3.BoolVal(False)
        if isinstance(b.t, TNone):
            return opt_isnone(a) if isinstance(a.t, TOpt) else z3.BoolVal(False)
        ia, ib = (a.t.inner if isinstance(a.t, TOpt) else a.t), (b.t.inner if isinstance(b.t, TOpt) else b.t)
        if isinstance(ia, TRef) and isinstance(ib, TRef) and ia.cls != ib.cls:
            # references typed with different (possibly related) classes: identity of the reference values
            na = opt_isnone(a) if isinstance(a.t, TOpt) else z3.BoolVal(False)
            nb = opt_isnone(b) if isinstance(b.t, TOpt) else z3.BoolVal(False)
            ra = (opt_val(a) if isinstance(a.t, TOpt) else a).z
            rb = (opt_val(b) if isinstance(b.t, TOpt) else b).z
            return z3.Or(z3.And(na, nb), z3.And(z3.Not(na), z3.Not(nb), ra == rb))
        try:
            return same(a, b)
        except EngineError:
            return z3.BoolVal(False)

    def equals(self, st, a: V, b: V, node):
        """Python == ; dispatches to a class __eq__ when the left operand is an object of a class defining it."""
        ta = a.t.inner if isinstance(a.t, TOpt) else a.t
        if isinstance(ta, TRef) and not self.spec:
            m = self.ct.method(ta.cls, "__eq__")
            if m is not None:
                con = self.ct.contract_for(ta.cls, "__eq__")[1]
                if con is None:
                    raise EngineError(f"{ta.cls}.__eq__ is user-defined; give it a contract or mark identity_eq")
                if isinstance(a.t, TOpt):
                    raise EngineError(f"== on an Optional[{ta.cls}] with a user-defined __eq__")
                fr = FuncRef(self.ct.classes[m[0]].module, f"{m[0]}.{m[1].name}", bound_self=a, cls=ta.cls)
                for st1, r in self.call_function(st, fr, [b], {}, node):
                    yield st1, truth(self.as_value(r))
                return
        if isinstance(a.t, (TFloat, TFP)) or isinstance(b.t, (TFloat, TFP)):
            if vals.is_num(a.t) and vals.is_num(b.t):
                if isinstance(a.t, TFP) and isinstance(b.t, TFP):
                    yield st, z3.fpEQ(a.z, b.z)
                    return
                if isinstance(a.t, TFP) or isinstance(b.t, TFP):
                    yield st, self.cmp_int_fp(ast.Eq(), a, b)
                    return
                yield st, vals.f_eq(coerce(a, FLOAT), coerce(b, FLOAT))
                return
        yield st, py_eq(a, b)

    def contains(self, st, a, cont, node):
        if isinstance(cont, Bag):
            a = self.as_value(a)
            k = z3.Const(fresh_name("k"), zsort(cont.kt))
            el = cont.elem(k)
            yield st, z3.Exists([k], z3.And(z3.Select(cont.dom, k), py_eq(el, a)))
            return
        cont = self.as_value(cont)
        a = self.as_value(a)
        t = cont.t
        if isinstance(t, TOpt):
            self.raise_(st, "TypeError", opt_isnone(cont))
            st = st.assume(z3.Not(opt_isnone(cont)))
            cont = opt_val(cont)
            t = cont.t
        if isinstance(t, (TSet, TMap)) and isinstance(a.t, TOpt) and not isinstance(t.elem if isinstance(t, TSet) else t.k, TOpt):
            # None is never a member of a container of non-optional elements
            for st1, c in self.contains(st, opt_val(a), cont, node):
                yield st1, z3.And(z3.Not(opt_isnone(a)), c)
            return
        if isinstance(t, (TSet, TMap)) and isinstance(a.t, TOpaque) and not isinstance(t.elem if isinstance(t, TSet) else t.k, TOpaque):
            # a value of unknown type may well be a member of a typed container: unknown outcome
            self.note_assumed(f"membership test of an opaque value: {ast.unparse(node)[:60]} (unknown result)")
            self.opq_may_raise(st, "membership test of a value of unknown type")
            yield st, z3.Bool(fresh_name("opq_in"))
            return
        if isinstance(t, TSet):
            try:
                a2 = coerce(a, t.elem)
            except EngineError:
                yield st, z3.BoolVal(False)   # element of another type is never a member
                return
            yield st, z3.Select(cont.zs[0], a2.z)
            return
        if isinstance(t, TMap):
            try:
                a2 = coerce(a, t.k)
            except EngineError:
                yield st, z3.BoolVal(False)   # a key of another type (e.g. a tuple) is never in the dict
                return
            yield st, z3.Select(cont.zs[0], a2.z)
            return
        if isinstance(t, TSeq):
            i = z3.Int(fresh_name("i"))
            yield st, z3.Exists([i], z3.And(0 <= i, i < cont.zs[0], py_eq(vals.seq_at(cont, i), a)))
            return
        if isinstance(t, TStr) and isinstance(a.t, TStr):
            yield st, z3.Contains(cont.z, a.z)
            return
        if isinstance(t, TTuple):
            yield st, z3.Or(*[py_eq(it, a) for it in tuple_items(cont)])
            return
        if isinstance(t, TNone):
            self.raise_(st, "TypeError")
            if self.spec:
                yield st, z3.BoolVal(False)
            return
        if isinstance(t, TRef) and self.ct.method(t.cls, "__contains__"):
            # `x in obj`: the class's own __contains__ (through its contract, like any other call)
            m_ = self.ct.method(t.cls, "__contains__")
            fr = FuncRef(self.ct.classes[m_[0]].module, f"{m_[0]}.__contains__", bound_self=cont, cls=t.cls)
            for st1, r_ in self.call_function(st, fr, [a], {}, node):
                yield st1, truth(self.as_value(r_))
            return
        if isinstance(t, TOpaque) or isinstance(a.t, TOpaque):
            self.note_assumed(f"membership test involving an opaque value: {ast.unparse(node)[:60]}")
            self.opq_may_raise(st, "membership test on a value of unknown type")
            yield st, z3.Bool(fresh_name("opq_in"))
            return
        raise EngineError(f"'in' on {t}")

    # ------------------------------------------------------------------ containers literals
    def ev_Tuple(self, e, st):
        def go(i, st, acc):
            if i == len(e.elts):
                yield st, mk_tuple(acc)
                return
            for st1, v in self.ev(e.elts[i], st):
                yield from go(i + 1, st1, acc + [self.as_value(v)])
        yield from go(0, st, [])

    def ev_List(self, e, st):
        def go(i, st, acc):
            if i == len(e.elts):
                if not acc:
                    yield st, vals.empty_seq(NONE)
                else:
                    et = acc[0].t
                    for a in acc[1:]:
                        et = vals.join_type(et, a.t)
                    yield st, vals.seq_from_list(et, [coerce(a, et) for a in acc])
                return
            for st1, v in self.ev(e.elts[i], st):
                yield from go(i + 1, st1, acc + [self.as_value(v)])
        yield from go(0, st, [])

    def ev_Set(self, e, st):
        def go(i, st, acc):
            if i == len(e.elts):
                et = acc[0].t
                s = vals.empty_set(et)
                arr = s.zs[0]
                for a in acc:
                    arr = z3.Store(arr, coerce(a, et).z, z3.BoolVal(True))
                yield st, V(s.t, [arr])
                return
            for st1, v in self.ev(e.elts[i], st):
                yield from go(i + 1, st1, acc + [self.as_value(v)])
        yield from go(0, st, [])

    def ev_Dict(self, e, st):
        if not e.keys:
            yield st, V(TMap(TOpaque("$empty"), NONE), [z3.K(zsort(TOpaque("$empty")), z3.BoolVal(False))])
            return
        if any(k is None for k in e.keys):
            raise EngineError("dict literal with ** unpacking")

        def go(i, st, acc):
            if i == len(e.keys):
                kt, vt = acc[0][0].t, acc[0][1].t
                for k, v in acc[1:]:
                    kt, vt = vals.join_type(kt, k.t), vals.join_type(vt, v.t)
                m = vals.empty_map(TMap(kt, vt))
                for k, v in acc:     # later entries overwrite earlier ones with an equal key
                    m = vals.map_put(m, coerce(k, kt), coerce(v, vt))
                yield st, m
                return
            for st1, k in self.ev(e.keys[i], st):
                for st2, v in self.ev(e.values[i], st1):
                    yield from go(i + 1, st2, acc + [(self.as_value(k), self.as_value(v))])
        yield from go(0, st, [])

    # ------------------------------------------------------------------ subscripts
    def ev_Subscript(self, e, st):
        for st1, base in self.ev(e.value, st):
            if isinstance(e.slice, ast.Slice):
                yield from self.slice_of(st1, self.as_value(base), e.slice, e)
                continue
            for st2, idx in self.ev(e.slice, st1):
                yield from self.index(st2, self.as_value(base), self.as_value(idx), e)

    def index(self, st, base: V, idx: V, node):
        t = base.t
        if isinstance(t, TOpt):
            self.raise_(st, "TypeError", opt_isnone(base))
            st = st.assume(z3.Not(opt_isnone(base)))
            base = opt_val(base)
            t = base.t
        if isinstance(t, TMap):
            if isinstance(idx.t, TOpt) and not isinstance(t.k, TOpt):
                # None is not a key of this dict (spec mode: total function of the non-None payload)
                self.raise_(st, "KeyError", opt_isnone(idx))
                st = st.assume(z3.Not(opt_isnone(idx))) if not self.spec else st
                idx = opt_val(idx)
            k = coerce(idx, t.k)
            has = vals.map_has(base, k)
            if getattr(t, "default", False) and not self.spec and isinstance(node, ast.Subscript):
                # defaultdict: the lookup of a missing key inserts (and yields) the empty value
                if isinstance(t.v, TSet):
                    dflt = vals.empty_set(t.v.elem)
                elif isinstance(t.v, TSeq):
                    dflt = vals.empty_seq(t.v.elem)
                elif isinstance(t.v, TInt):
                    dflt = mk_int(0)
                else:
                    raise EngineError(f"defaultdict with values of type {t.v}")
                v = vals.ite(has, vals.map_get(base, k), coerce(dflt, t.v))
                new = V(t, vals.map_put(base, k, v).zs)
                st = self.assign_to(st, node.value, new, mut=True)
                yield st, v
                return
            self.raise_(st, "KeyError", z3.Not(has))
            st = st.assume(has) if not self.spec else st     # (spec mode: lookup is a total function)
            if not self.spec and not self.feasible(st):
                return
            v = vals.map_get(base, k)
            yield self.assume_wf(st, v) if not self.spec else st, v
            return
        if isinstance(t, TSeq):
            i = coerce(idx, INT).z
            n = base.zs[0]
            ok = z3.And(-n <= i, i < n)
            self.raise_(st, "IndexError", z3.Not(ok))
            st = st.assume(ok) if not self.spec else st
            if not self.spec and not self.feasible(st):
                return
            # (contract expressions index sequences with non-negative indices only: no wrap-around term there)
            j = i if self.spec else z3.If(i < 0, i + n, i)
            v = vals.seq_at(base, j)
            yield (self.assume_wf(st, v) if not self.spec else st), v
            return
        if isinstance(t, TTuple):
            if isinstance(node.slice, ast.Constant) and isinstance(node.slice.value, int):
                yield st, tuple_items(base)[node.slice.value]
                return
            if isinstance(node.slice, ast.UnaryOp) and isinstance(node.slice.operand, ast.Constant):
                yield st, tuple_items(base)[-node.slice.operand.value]
                return
            raise EngineError("tuple index must be a literal")
        if isinstance(t, TStr):
            i = coerce(idx, INT).z
            n = z3.Length(base.z)
            ok = z3.And(-n <= i, i < n)
            self.raise_(st, "IndexError", z3.Not(ok))
            st = st.assume(ok)
            yield st, mk_str(z3.SubString(base.z, z3.If(i < 0, i + n, i), 1))
            return
        if isinstance(t, TRef):
            m = self.ct.method(t.cls, "__getitem__")
            if m is not None:
                fr = FuncRef(self.ct.classes[m[0]].module, f"{m[0]}.__getitem__", bound_self=base, cls=t.cls)
                yield from self.call_function(st, fr, [idx], {}, node)
                return
        if isinstance(t, TOpaque):
            self.note_assumed(f"subscript on an opaque value: {ast.unparse(node)[:60]} (unknown result)")
            self.opq_may_raise(st, "subscript on a value of unknown type")
            yield st, fresh(TOpaque("unk"), "item")
            return
        raise EngineError(f"subscript on {t}: {ast.unparse(node)}")

    def slice_of(self, st, base, sl, node):
        if not isinstance(base.t, TSeq):
            if isinstance(base.t, TStr):
                yield st, fresh(STR, "slice")
                return
            raise EngineError(f"slice of {base.t}")
        if sl.step is not None:
            raise EngineError("slice step")
        n = base.zs[0]

        def bound(node_, dflt):
            if node_ is None:
                return dflt
            (_, v), = list(self.ev(node_, st))
            i = coerce(self.as_value(v), INT).z
            i = z3.If(i < 0, i + n, i)
            return z3.If(i < 0, 0, z3.If(i > n, n, i))
        lo, hi = bound(sl.lower, z3.IntVal(0)), bound(sl.upper, n)
        r = fresh(base.t, "slice")
        i = z3.Int(fresh_name("i"))
        ln = z3.If(hi > lo, hi - lo, 0)
        conj = [r.zs[0] == ln]
        eqs = [z3.Select(x, i) == z3.Select(y, i + lo) for x, y in zip(r.zs[1:], base.zs[1:])]
        if eqs:
            conj.append(z3.ForAll([i], z3.Implies(z3.And(0 <= i, i < ln), z3.And(*eqs))))
        yield st.assume(z3.And(*conj)), r

    def ev_NamedExpr(self, e, st):
        for st1, v in self.ev(e.value, st):
            yield self.write_local(st1, e.target.id, self.as_value(v)), v

    def ev_Lambda(self, e, st):
        raise EngineError("lambda outside a supported key= position")

    def ev_Starred(self, e, st):
        raise EngineError("starred expression")
