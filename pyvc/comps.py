"""Comprehensions, generator expressions, any/all/sum/len over them (quantifier and set-builder terms)."""
from __future__ import annotations

import ast

import z3

from .exprs import Bag, MethodRef
from .state import State
from .types import (BOOL, FLOAT, INT, NONE, TBool, TFloat, TInt, TMap, TOpaque, TOpt, TSeq, TSet, TTuple, comps, zsort)
from . import values as vals
from .values import (EngineError, V, coerce, fresh, fresh_name, mk_bool, mk_float, mk_int, mk_tuple, opt_isnone,
                     opt_val, py_eq, truth, tuple_items)


class Domain:
    """An iteration domain: either set-like (kt, member array, elem(k)) or sequence-like (len, elem(i))."""

    def __init__(self, kind, kt=None, dom=None, elem=None, et=None, length=None, lo=None):
        self.kind = kind            # "set" | "seq"
        self.kt, self.dom, self.elem, self.et, self.length = kt, dom, elem, et, length
        self.lo = lo
        self.omap = None            # the ordered map whose keys this sequence domain enumerates
        self.rng = None             # (lo, hi) of a step-1 range: quantifiers over it bind the value itself, not an offset


class CompMixin:
    def domain_of(self, st: State, it, node=None) -> tuple[State, Domain]:
        """Interpret an evaluated iterable as a Domain."""
        if isinstance(it, Bag):
            return st, Domain("set", kt=it.kt, dom=it.dom, elem=it.elem, et=it.et)
        if isinstance(it, RangeVal) and it.step == -1:
            n = z3.If(it.lo > it.hi, it.lo - it.hi, 0)
            lo = it.lo
            return st, Domain("seq", length=n, elem=lambda i: mk_int(lo - i), et=INT)
        if isinstance(it, RangeVal):
            n = z3.If(it.hi > it.lo, it.hi - it.lo, 0)
            lo = it.lo
            d = Domain("seq", length=n, elem=lambda i: mk_int(lo + i), et=INT)
            if getattr(it, "step", 1) == 1:
                d.rng = (it.lo, it.hi)
            return st, d
        if isinstance(it, EnumVal):
            st, d = self.domain_of(st, it.inner, node)
            if d.kind != "seq":
                raise EngineError("enumerate over a set-like domain")
            start = it.start
            return st, Domain("seq", length=d.length, elem=lambda i: mk_tuple([mk_int(start + i), d.elem(i)]),
                              et=TTuple([INT, d.et]))
        if isinstance(it, ZipVal):
            ds = []
            for inner in it.inners:
                st, d = self.domain_of(st, inner, node)
                if d.kind != "seq":
                    raise EngineError("zip over a set-like domain")
                ds.append(d)
            n = ds[0].length
            for d in ds[1:]:
                n = z3.If(d.length < n, d.length, n)
            return st, Domain("seq", length=n, elem=lambda i: mk_tuple([d.elem(i) for d in ds]),
                              et=TTuple([d.et for d in ds]))
        v = self.as_value(it)
        t = v.t
        if isinstance(t, TOpt):
            self.raise_(st, "TypeError", opt_isnone(v))
            st = st.assume(z3.Not(opt_isnone(v)))
            v = opt_val(v)
            t = v.t
        if isinstance(t, TSet):
            et = t.elem
            return st, Domain("set", kt=et, dom=v.zs[0], elem=lambda k: V(et, [k]), et=et)
        if isinstance(t, TMap) and t.ordered:
            st, n, at = self.okeys(st, v)
            d = Domain("seq", length=n, elem=at, et=t.k)
            d.omap = v
            return st, d
        if isinstance(t, TMap):
            kt = t.k
            return st, Domain("set", kt=kt, dom=v.zs[0], elem=lambda k: V(kt, [k]), et=kt)
        if isinstance(t, TSeq):
            return st, Domain("seq", length=v.zs[0], elem=lambda i: vals.seq_at(v, i), et=t.elem)
        if isinstance(t, TTuple):
            items = tuple_items(v)
            et = items[0].t
            for x in items[1:]:
                et = vals.join_type(et, x.t)
            s = vals.seq_from_list(et, [coerce(x, et) for x in items])
            return st, Domain("seq", length=s.zs[0], elem=lambda i: vals.seq_at(s, i), et=et)
        if isinstance(t, TOpaque):
            # iterating a value of unknown type: some sequence of values of unknown type (and it may raise)
            st, s = self.to_seq(st, v)
            return st, Domain("seq", length=s.zs[0], elem=lambda i: vals.seq_at(s, i), et=s.t.elem)
        raise EngineError(f"cannot iterate over {t}")

    def bind_target(self, st: State, target, v: V) -> State:
        if isinstance(target, ast.Name):
            return st.with_local(target.id, v)
        if isinstance(target, (ast.Tuple, ast.List)):
            if not isinstance(v.t, TTuple) or len(v.t.items) != len(target.elts):
                raise EngineError(f"cannot unpack {v.t} into {ast.unparse(target)}")
            for tg, it in zip(target.elts, tuple_items(v)):
                st = self.bind_target(st, tg, it)
            return st
        raise EngineError(f"loop/comprehension target {ast.unparse(target)}")

    # ------------------------------------------------------------------
    def comp_body(self, st: State, gens, elt):
        """Evaluate single-generator comprehension symbolically.

        Returns (state, Domain restricted by the filters, elem function) where the element function
        is the comprehension element for a domain member.
        """
        if len(gens) != 1:
            raise EngineError("comprehension with several generators")
        g = gens[0]
        (st1, it), = self._ev_single(g.iter, st)
        st1, d = self.domain_of(st1, it, g.iter)
        return st1, d, g

    def _ev_single(self, e, st):
        res = list(self.ev(e, st))
        if len(res) != 1:
            raise EngineError(f"iterable expression splits: {ast.unparse(e)}")
        return res

    def _elem_under(self, st, d: Domain, g, idx, exprs, absolute=False):
        """Evaluate `exprs` with the comprehension variable bound to the element at idx (a fresh const),
        under the guard 'idx in domain'.  Returns (guard, filter, [values], axioms).

        Fresh constants introduced while evaluating the element (results of contracted calls, defined
        arrays) depend on idx: they are replaced by applications of fresh functions of idx, and the facts
        that constrain them become universally quantified axioms the caller must assume."""
        mark = int(fresh_name("mark").split("!")[1])
        if d.kind == "set":
            guard = z3.Select(d.dom, idx)
        elif absolute and d.rng is not None:
            # `for q in range(a, b)` under a quantifier: q is the bound variable (terms indexed by q stay matchable)
            guard = z3.And(d.rng[0] <= idx, idx < d.rng[1])
        else:
            guard = z3.And(0 <= idx, idx < d.length)
        el = mk_int(idx) if (absolute and d.kind != "set" and d.rng is not None) else d.elem(idx)
        pushed = [guard]
        st_b = self.bind_target(st.assume(guard), g.target, el)
        if not self.spec:
            n0 = len(st_b.pc)
            st_b = self.assume_wf(st_b, el)
            pushed += st_b.pc[n0:]
        flt = z3.BoolVal(True)
        staged = []       # (guards in force, facts learnt) while evaluating each filter: those facts hold whether or not
        n_seen = len(st_b.pc)   # the filter itself turns out true
        for cond in g.ifs:
            pv, info = self.ev_pure(cond, st_b)
            if pv is None:
                raise EngineError(f"comprehension filter has effects: {ast.unparse(cond)}")
            st_b = info
            staged.append((list(pushed), list(st_b.pc[n_seen:])))
            c = truth(self.as_value(pv))
            flt = z3.And(flt, c)
            pushed.append(c)
            st_b = st_b.assume(c)
            n_seen = len(st_b.pc)
        out = []
        for ex in exprs:
            pv, info = self.ev_pure(ex, st_b)
            if pv is None:
                res, excs = info
                if excs and not self.spec:
                    # the element expression may raise for some member: surface it on the current path
                    self.excs[-1].extend(excs)
                    if len(res) == 1:
                        st_b, pv = res[0]
                    else:
                        raise EngineError(f"comprehension element splits: {ast.unparse(ex)}")
                else:
                    raise EngineError(f"comprehension element has effects: {ast.unparse(ex)}")
            else:
                st_b = info
            out.append(pv)
        facts = [p for p in st_b.pc[n_seen:] if not any(p.eq(q) for q in pushed)]
        staged = [(gs, [p for p in fs if not any(p.eq(q) for q in pushed)]) for gs, fs in staged]
        staged = [(gs, fs) for gs, fs in staged if fs]
        axioms = []
        if facts or staged:
            from .stmts import _consts
            terms = list(facts) + [f_ for _, fs in staged for f_ in fs] + [z for v in out if isinstance(v, V) for z in v.zs] + [flt]
            sub = []
            seen = set()
            for t_ in terms:
                for c in _consts(t_):
                    nm = str(c)
                    if "!" in nm and c.get_id() not in seen and not c.eq(idx):
                        try:
                            num = int(nm.split("!")[1].split("_")[0])
                        except ValueError:
                            continue
                        if num > mark:
                            seen.add(c.get_id())
                            f = z3.Function(fresh_name("sk_" + nm.split("!")[0]), idx.sort(), c.sort())
                            sub.append((c, f(idx)))
            if sub:
                facts = [z3.substitute(f_, *sub) for f_ in facts]
                staged = [([z3.substitute(g_, *sub) for g_ in gs], [z3.substitute(f_, *sub) for f_ in fs]) for gs, fs in staged]
                flt = z3.substitute(flt, *sub)
                pushed = [z3.substitute(p_, *sub) for p_ in pushed]
                out = [V(v.t, [z3.substitute(z, *sub) for z in v.zs]) if isinstance(v, V) else v for v in out]
            for gs, fs in staged:
                axioms.append(z3.ForAll([idx], z3.Implies(z3.And(*gs), z3.And(*fs))))
            if facts:
                axioms.append(z3.ForAll([idx], z3.Implies(z3.And(*pushed), z3.And(*facts))))
        return guard, flt, out, axioms

    def quantify(self, st: State, node, universal: bool):
        """all(...)/any(...) over a generator expression -> z3 quantifier."""
        st1, d, g = self.comp_body(st, node.generators, node.elt)
        idx = z3.Const(fresh_name("q"), zsort(d.kt) if d.kind == "set" else z3.IntSort())
        guard, flt, (body,), axs = self._elem_under(st1, d, g, idx, [node.elt], absolute=True)
        for a_ in axs:
            st1 = st1.assume(a_)
        b = truth(self.as_value(body))
        if universal:
            return st1, z3.ForAll([idx], z3.Implies(z3.And(guard, flt), b))
        return st1, z3.Exists([idx], z3.And(guard, flt, b))

    def ev_GeneratorExp(self, e, st):
        yield self.make_bag(st, e.generators, e.elt)

    def ev_ListComp(self, e, st):
        st1, d, g = self.comp_body(st, e.generators, e.elt)
        if d.kind == "seq" and not g.ifs:
            # map over a sequence: fresh sequence, same length, pointwise defined
            i = z3.Int(fresh_name("i"))
            guard, flt, (body,), axs = self._elem_under(st1, d, g, i, [e.elt])
            for a_ in axs:
                st1 = st1.assume(a_)
            body = self.as_value(body)
            r = fresh(TSeq(body.t), "lc")
            conj = [r.zs[0] == d.length]
            eqs = [z3.Select(a, i) == b for a, b in zip(r.zs[1:], body.zs)]
            if eqs:
                conj.append(z3.ForAll([i], z3.Implies(guard, z3.And(*eqs))))
            yield st1.assume(z3.And(*conj)), r
            return
        if d.kind == "seq":
            yield self.filtered_seq(st1, d, g, e.elt)
            return
        yield self.make_bag(st, e.generators, e.elt)

    def filtered_seq(self, st, d, g, elt):
        """[f(x) for x in seq if c(x)] -> fresh sequence r with an order-preserving index map (ghost)."""
        i = z3.Int(fresh_name("i"))
        guard, flt, (body,), axs = self._elem_under(st, d, g, i, [elt])
        for a_ in axs:
            st = st.assume(a_)
        body = self.as_value(body)
        r = fresh(TSeq(body.t), "fl")
        src = z3.Function(fresh_name("src"), z3.IntSort(), z3.IntSort())   # index in d of r's j-th element
        j, j2 = z3.Int(fresh_name("j")), z3.Int(fresh_name("j"))
        n = r.zs[0]
        conj = [n >= 0, n <= d.length]
        conj.append(z3.ForAll([j], z3.Implies(z3.And(0 <= j, j < n),
                                              z3.And(0 <= src(j), src(j) < d.length))))
        conj.append(z3.ForAll([j, j2], z3.Implies(z3.And(0 <= j, j < j2, j2 < n), src(j) < src(j2))))
        # element values and filter along src
        sub = lambda term: z3.substitute(term, (i, src(j)))
        eqs = [z3.Select(a, j) == sub(b) for a, b in zip(r.zs[1:], body.zs)]
        conj.append(z3.ForAll([j], z3.Implies(z3.And(0 <= j, j < n), z3.And(sub(flt), *eqs))))
        # every member satisfying the filter is hit
        conj.append(z3.ForAll([i], z3.Implies(z3.And(guard, flt),
                                              z3.Exists([j], z3.And(0 <= j, j < n, src(j) == i)))))
        return st.assume(z3.And(*conj)), r

    def ev_SetComp(self, e, st):
        st1, bag = self.make_bag(st, e.generators, e.elt)
        yield self.bag_to_set(st1, bag)

    def ev_DictComp(self, e, st):
        st1, d, g = self.comp_body(st, e.generators, e.key)
        omap = d.omap
        if omap is not None:
            # {k: v for k in odict if cond(k)}: evaluated over the key set; the keys are inserted in iteration order, so their
            # relative ranks are the ones they have in the iterated dict (A-ODICT) - the rank component is taken over as it is
            kt_ = omap.t.k
            d = Domain("set", kt=kt_, dom=omap.zs[0], elem=lambda k_: V(kt_, [k_]), et=kt_)
        if d.kind != "set":
            yield self._dictcomp_over_seq(st1, d, g, e)
            return
        idx = z3.Const(fresh_name("c"), zsort(d.kt))
        guard, flt, (k, v), axs = self._elem_under(st1, d, g, idx, [e.key, e.value])
        for a_ in axs:
            st1 = st1.assume(a_)
        k, v = self.as_value(k), self.as_value(v)
        if not (k.t == d.kt and k.zs[0].eq(idx)):
            raise EngineError("dict comprehension with a non-identity key")
        t = TMap(k.t, v.t, ordered=omap is not None)
        st1, keys = self.def_array(st1, idx, z3.And(guard, flt), "dc")
        zs = [keys]
        for c in v.zs:
            st1, va = self.def_array(st1, idx, c, "dc")
            zs.append(va)
        if omap is not None:
            zs.append(omap.zs[-1])
        yield st1, V(t, zs)

    def _dictcomp_over_seq(self, st1, d, g, e):
        """{key(x): val(x) for x in seq if cond(x)}: the key set is exactly the keys of the selected positions; the value of a
        key is the value at its last selected position (later entries overwrite earlier ones)."""
        i = z3.Int(fresh_name("i"))
        guard, flt, (k, v), axs = self._elem_under(st1, d, g, i, [e.key, e.value])
        for a_ in axs:
            st1 = st1.assume(a_)
        k, v = self.as_value(k), self.as_value(v)
        if isinstance(k.t, TOpt):
            # a key that the filter shows to be not None (`if x.f is not None`): its value component
            k = opt_val(k)
        r = fresh(TMap(k.t, v.t), "dcs")
        sel = z3.And(guard, flt)
        j = z3.Int(fresh_name("j"))
        kq = z3.Const(fresh_name("k"), zsort(k.t))
        sel_j, k_j = z3.substitute(sel, (i, j)), z3.substitute(k.z, (i, j))
        ax = [z3.ForAll([i], z3.Implies(sel, z3.Select(r.zs[0], k.z))),
              z3.ForAll([kq], z3.Implies(z3.Select(r.zs[0], kq), z3.Exists([i], z3.And(sel, k.z == kq))))]
        last = z3.And(sel, z3.ForAll([j], z3.Implies(z3.And(j > i, sel_j), k_j != k.z)))
        for arr, c in zip(r.zs[1:], v.zs):
            ax.append(z3.ForAll([i], z3.Implies(last, z3.Select(arr, k.z) == c)))
        return st1.assume(z3.And(*ax)), r

    def make_bag(self, st, gens, elt):
        st1, d, g = self.comp_body(st, gens, elt)
        if d.kind == "seq":
            if not g.ifs:
                i = z3.Int(fresh_name("i"))
                guard, flt, (body,), axs = self._elem_under(st1, d, g, i, [elt])
                for a_ in axs:
                    st1 = st1.assume(a_)
                body = self.as_value(body)
                r = fresh(TSeq(body.t), "ge")
                conj = [r.zs[0] == d.length]
                eqs = [z3.Select(a, i) == b for a, b in zip(r.zs[1:], body.zs)]
                if eqs:
                    conj.append(z3.ForAll([i], z3.Implies(guard, z3.And(*eqs))))
                return st1.assume(z3.And(*conj)), r
            return self.filtered_seq(st1, d, g, elt)
        idx = z3.Const(fresh_name("c"), zsort(d.kt))
        guard, flt, (body,), axs = self._elem_under(st1, d, g, idx, [elt])
        for a_ in axs:
            st1 = st1.assume(a_)
        body = self.as_value(body)
        st1, dom = self.def_array(st1, idx, z3.And(guard, flt), "bag")

        def elem(k, body=body, idx=idx):
            return V(body.t, [z3.substitute(z, (idx, k)) for z in body.zs])
        return st1, Bag(d.kt, dom, elem, body.t)

    def bag_to_set(self, st, bag: Bag):
        """Image of a bag as a set value."""
        if not bag.et.scalar:
            raise EngineError(f"set of non-scalar elements {bag.et}")
        k = z3.Const(fresh_name("k"), zsort(bag.kt))
        el = bag.elem(k)
        if el.zs[0].eq(k):
            return st, V(TSet(bag.et), [bag.dom])
        y = z3.Const(fresh_name("y"), zsort(bag.et))
        r = fresh(TSet(bag.et), "img")
        ax = z3.ForAll([y], r.zs[0][y] == z3.Exists([k], z3.And(z3.Select(bag.dom, k), el.zs[0] == y)))
        # helper direction for instantiation: every member's image is in r
        ax2 = z3.ForAll([k], z3.Implies(z3.Select(bag.dom, k), r.zs[0][el.zs[0]]))
        return st.assume(z3.And(ax, ax2)), r

    def bag_len(self, st, bag: Bag):
        return self.card(st, V(TSet(bag.kt), [bag.dom]))

    def bag_to_seq(self, st, bag: Bag):
        """Materialise a bag as a sequence in unspecified order (a bijection between indices and members)."""
        st, n = self.bag_len(st, bag)
        r = fresh(TSeq(bag.et), "bagseq")
        pos = z3.Function(fresh_name("pos"), zsort(bag.kt), z3.IntSort())
        key = z3.Function(fresh_name("key"), z3.IntSort(), zsort(bag.kt))
        k = z3.Const(fresh_name("k"), zsort(bag.kt))
        i = z3.Int(fresh_name("i"))
        el = bag.elem(key(i))
        conj = [r.zs[0] == n,
                z3.ForAll([k], z3.Implies(z3.Select(bag.dom, k), z3.And(0 <= pos(k), pos(k) < n, key(pos(k)) == k))),
                z3.ForAll([i], z3.Implies(z3.And(0 <= i, i < n), z3.And(
                    z3.Select(bag.dom, key(i)), pos(key(i)) == i,
                    *[z3.Select(a, i) == b for a, b in zip(r.zs[1:], el.zs)])))]
        return st.assume(z3.And(*conj)), r


class RangeVal:
    def __init__(self, lo, hi, step=1):
        self.lo, self.hi, self.step = lo, hi, step     # step: the Python int 1 or -1


class EnumVal:
    def __init__(self, inner, start):
        self.inner, self.start = inner, start


class ZipVal:
    def __init__(self, inners):
        self.inners = inners
