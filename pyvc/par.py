"""Discharge the obligations of one function in several forked children.

z3 terms cannot be pickled, so the children are created with os.fork() *after* the obligations exist; each child
discharges a slice and reports (index, result, backend, time, reason, exact) through a pipe.  Counter-models stay in
the child: the parent re-solves the (few) refuted obligations to obtain a model for the replay.
"""
from __future__ import annotations

import json
import os
import select
import time

from .verify import discharge


def discharge_all(obs, timeout_ms, nproc):
    """Sets .result etc. on every obligation.  Falls back to sequential work when nproc <= 1."""
    todo = [i for i, o in enumerate(obs) if not getattr(o, "is_cover", False)]
    if nproc <= 1 or len(todo) < 4:
        n_unknown = 0
        for i in todo:
            discharge(obs[i], timeout_ms if n_unknown < 2 else min(timeout_ms, 3000), use_cvc5=(n_unknown < 2))
            if obs[i].result == "unknown":
                n_unknown += 1
        return
    nproc = min(nproc, len(todo))
    slices = [todo[k::nproc] for k in range(nproc)]
    children = []
    for sl in slices:
        r, w = os.pipe()
        pid = os.fork()
        if pid == 0:            # child
            os.close(r)
            try:
                out = []
                n_unknown = 0
                for i in sl:
                    o = obs[i]
                    try:
                        discharge(o, timeout_ms if n_unknown < 2 else min(timeout_ms, 3000), use_cvc5=(n_unknown < 2))
                    except Exception as e:  # noqa: BLE001
                        o.result, o.reason = "unknown", f"solver crash: {type(e).__name__}: {e}"
                    if o.result == "unknown":
                        n_unknown += 1
                    out.append([i, o.result, o.backend, o.time, o.reason, bool(o.exact)])
                with os.fdopen(w, "w") as f:
                    json.dump(out, f)
            finally:
                os._exit(0)
        os.close(w)
        children.append((pid, r, sl))
    for pid, r, sl in children:
        data = b""
        while True:
            chunk = os.read(r, 65536)
            if not chunk:
                break
            data += chunk
        os.close(r)
        os.waitpid(pid, 0)
        try:
            rows = json.loads(data.decode() or "[]")
        except ValueError:
            rows = []
        seen = set()
        for i, res, backend, tm, reason, exact in rows:
            o = obs[i]
            o.result, o.backend, o.time, o.reason, o.exact = res, backend, tm, reason, exact
            seen.add(i)
        for i in sl:
            if i not in seen:
                obs[i].result, obs[i].reason = "unknown", "worker died"
    # models for refuted obligations (needed by the replay)
    for i in todo:
        if obs[i].result == "refuted" and obs[i].model is None:
            discharge(obs[i], timeout_ms, use_cvc5=False)
