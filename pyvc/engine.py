"""pyvc symbolic executor: core (state handling, obligations, heap, names)."""
from __future__ import annotations

import ast
import time

import z3

from . import extract
from .classes import ClassTable
from .contracts import REG
from .state import Exc, FieldAlias, Frame, Outcome, State
from .types import (BOOL, FLOAT, INT, NONE, STR, T, TEnum, TFloat, TInt, TMap, TNone, TOpaque, TOpt, TRef, TSeq,
                    TSet, TTuple, comps, zsort)
from .values import (EngineError, V, coerce, default, f_wf, fresh, fresh_name, mk_bool, opt_isnone, opt_val)

MAX_PATHS = 6000
FEAS_TIMEOUT_MS = int(__import__("os").environ.get("PYVC_FEAS_MS", "350"))

BUILTIN_EXC_BASES = {}


def exc_is_subclass(name: str, base: str) -> bool | None:
    """Is exception class `name` a subclass of `base`?  None = unknown ('$any')."""
    import builtins
    if name == base or base in ("BaseException",):
        return True
    if name == "$any":
        return None
    chain = [name]
    cur = name
    while cur in REG.exceptions:
        cur = REG.exceptions[cur]
        chain.append(cur)
    if base in chain:
        return True
    last = chain[-1]
    b = getattr(builtins, last, None)
    bb = getattr(builtins, base, None)
    if isinstance(b, type) and isinstance(bb, type):
        return issubclass(b, bb)
    if isinstance(b, type) and bb is None:
        return False   # base is a repo exception that name does not derive from
    return False


class Obligation:
    def __init__(self, oid, kind, target, pc, goal, descr="", prop="", lineno=0, exact=True):
        self.oid, self.kind, self.target = oid, kind, target
        self.pc, self.goal, self.descr, self.prop, self.lineno = list(pc), goal, descr, prop, lineno
        self.exact = exact
        self.result = None      # discharged | refuted | unknown
        self.backend = ""
        self.time = 0.0
        self.model = None
        self.reason = ""
        self.inputs = None      # decoded model of the function's inputs


class EngineBase:
    def __init__(self):
        self.ct = ClassTable()
        self.obligations: list[Obligation] = []
        self.excs: list[list] = []
        self.spec = 0
        self.dry = 0
        self.dry_writes: list = []
        self.npaths = 0
        self.assumed_calls: dict = {}
        self.used_contracts: set = set()
        self.cur_target = ""
        self.cur_prop = ""
        self.ord_counters: dict = {}
        self.ufun_cache: dict = {}
        self.card_funs: dict = {}
        self.okey_funs: dict = {}
        self.input_vars: dict = {}
        self.feas_cache: dict = {}
        self.stats = {"feas_checks": 0, "feas_time": 0.0}

    # ------------------------------------------------------------------ solver helpers
    def feasible(self, st: State, extra=None) -> bool:
        """False only if pc (+extra) is provably unsatisfiable."""
        cs = list(st.pc) + ([extra] if extra is not None else [])
        if any(z3.is_false(c) for c in cs):
            return False
        t0 = time.time()
        s = z3.Solver()
        s.set("timeout", FEAS_TIMEOUT_MS)
        s.add(*cs)
        r = s.check()
        self.stats["feas_checks"] += 1
        self.stats["feas_time"] += time.time() - t0
        return r != z3.unsat

    def entails(self, st: State, goal) -> bool:
        return not self.feasible(st, z3.Not(goal))

    # ------------------------------------------------------------------ obligations
    def ordinal(self, kind, node) -> int:
        """Stable ordinal of a syntactic site (per target and kind, by first-seen order of node id)."""
        key = (self.cur_target, kind)
        d = self.ord_counters.setdefault(key, {})
        k = (getattr(node, "lineno", 0), getattr(node, "col_offset", 0)) if not isinstance(node, (int, str)) else node
        if k not in d:
            d[k] = len(d)
        return d[k]

    def oblige(self, st: State, kind, label, goal, descr="", node=None, exact=True):
        if self.dry or self.spec:
            return
        oid = f"{self.cur_prop}/{self.cur_target}/{kind}{label}"
        self.obligations.append(Obligation(oid, kind, self.cur_target, st.pc, goal, descr, self.cur_prop,
                                           getattr(node, "lineno", 0) if node is not None else 0, exact))

    # ------------------------------------------------------------------ exceptions
    def raise_(self, st: State, name: str, cond=None, value=None, msg=""):
        """Register an exceptional successor (if feasible)."""
        if self.spec:
            return
        s2 = st.assume(cond) if cond is not None else st
        if not self.feasible(s2):
            return
        self.excs[-1].append(Outcome("exc", s2, Exc(name, value, msg)))

    # ------------------------------------------------------------------ heap
    def heap_arrays(self, st: State, cls, fname, t: T):
        key = (cls, fname)
        if key not in st.heap:
            st.heap[key] = [z3.Const(f"H_{cls}_{fname}{('_' + s) if s else ''}", z3.ArraySort(z3.IntSort(), so))
                            for s, so in comps(t)]
            if st.old is not None and key not in st.old.heap:
                st.old.heap[key] = st.heap[key]
        return st.heap[key]

    def field_read(self, st: State, ref, cls, fname) -> tuple[State, V]:
        fd = self.ct.field(cls, fname)
        if fd is None:
            raise EngineError(f"class {cls} has no declared field {fname!r} (add it to klass(...))")
        dcls, t = fd
        arrs = self.heap_arrays(st, dcls, fname, t)
        v = V(t, [self._select(st, a, ref) for a in arrs])
        st = self.assume_wf(st, v)
        return st, v

    @staticmethod
    def _distinct_pairs(st: State):
        """Reference pairs the path condition states to be different (syntactically: `a is not b` facts)."""
        out = set()
        todo = list(st.pc)
        while todo:
            c = todo.pop()
            if z3.is_and(c):
                todo.extend(c.children())
            elif z3.is_not(c) and z3.is_eq(c.arg(0)):
                a, b = c.arg(0).children()
                out.add((a.get_id(), b.get_id()))
                out.add((b.get_id(), a.get_id()))
            elif z3.is_distinct(c) and c.num_args() == 2:
                a, b = c.children()
                out.add((a.get_id(), b.get_id()))
                out.add((b.get_id(), a.get_id()))
        return out

    def _select(self, st: State, a, ref):
        """Select(a, ref), reading through the stores at references the path condition states to differ from `ref`
        (an equivalence under the path condition; it keeps quantified hypotheses over the unchanged object matchable)."""
        pairs = None
        while z3.is_store(a):
            w = a.arg(1)
            if w.eq(ref):
                return a.arg(2)
            if pairs is None:
                pairs = self._distinct_pairs(st)
            if (w.get_id(), ref.get_id()) in pairs:
                a = a.arg(0)
            else:
                break
        return z3.Select(a, ref)

    def field_write(self, st: State, ref, cls, fname, val: V) -> State:
        fd = self.ct.field(cls, fname)
        if fd is None:
            # store to an attribute the schema does not declare: declare it with the stored value's type
            self.assumed_calls[f"unmodelled attribute {cls}.{fname} (declared on first store)"] = 1
            self.ct.classes[cls].fields[fname] = val.t
            fd = (cls, val.t)
        dcls, t = fd
        try:
            val = coerce(val, t)
        except EngineError:
            if isinstance(t, TOpaque):
                val = fresh(t, "opq")     # an opaque field forgets what is stored into it
            else:
                raise
        arrs = self.heap_arrays(st, dcls, fname, t)
        s2 = st.fork()
        s2.heap[(dcls, fname)] = [z3.Store(a, ref, x) for a, x in zip(arrs, val.zs)]
        if self.dry:
            self.dry_writes.append((dcls, fname, ref))
        return s2

    def assume_wf(self, st: State, v: V, depth=0) -> State:
        """Type-level well-formedness facts of a value read from unknown state."""
        cs = self.wf_constraints(st, v)
        for c in cs:
            st = st.assume(c)
        return st

    def wf_constraints(self, st: State, v: V):
        t = v.t
        out = []
        if isinstance(t, TFloat):
            out.append(f_wf(v))
        elif isinstance(t, TRef):
            out.append(z3.And(v.z > 0, v.z < st.alloc))
            out.append(self.type_constraint(st, v.z, t.cls))
        elif isinstance(t, TEnum):
            out.append(z3.And(v.z >= 0, v.z < len(t.members)))
        elif isinstance(t, TOpt):
            inner = self.wf_constraints(st, opt_val(v))
            if inner:
                out.append(z3.Implies(z3.Not(opt_isnone(v)), z3.And(*inner)))
        elif isinstance(t, TTuple):
            from .values import tuple_items
            for it in tuple_items(v):
                out += self.wf_constraints(st, it)
        elif isinstance(t, TSeq):
            out.append(v.zs[0] >= 0)
            if not isinstance(t.elem, (TInt, TSeq)) and comps(t.elem):
                i = z3.Int(fresh_name("i"))
                from .values import seq_at
                inner = self.wf_constraints(st, seq_at(v, i))
                if inner:
                    out.append(z3.ForAll([i], z3.Implies(z3.And(0 <= i, i < v.zs[0]), z3.And(*inner))))
        elif isinstance(t, TSet):
            if isinstance(t.elem, (TRef, TEnum)):
                x = z3.Const(fresh_name("x"), zsort(t.elem))
                inner = self.wf_constraints(st, V(t.elem, [x]))
                out.append(z3.ForAll([x], z3.Implies(z3.Select(v.zs[0], x), z3.And(*inner))))
        elif isinstance(t, TMap):
            k = z3.Const(fresh_name("k"), zsort(t.k))
            from .values import map_get
            inner = self.wf_constraints(st, V(t.k, [k])) + self.wf_constraints(st, map_get(v, V(t.k, [k])))
            if inner:
                out.append(z3.ForAll([k], z3.Implies(z3.Select(v.zs[0], k), z3.And(*inner))))
            if t.ordered:
                k2 = z3.Const(fresh_name("k"), zsort(t.k))
                rk = v.zs[-1]
                out.append(z3.ForAll([k, k2], z3.Implies(
                    z3.And(z3.Select(v.zs[0], k), z3.Select(v.zs[0], k2), k != k2),
                    z3.Select(rk, k) != z3.Select(rk, k2))))
        return out

    # -- dynamic type tags ----------------------------------------------------------
    def type_tags(self, st: State):
        key = ("$", "type")
        if key not in st.heap:
            st.heap[key] = [z3.Const("H_type", z3.ArraySort(z3.IntSort(), z3.IntSort()))]
            if st.old is not None and key not in st.old.heap:
                st.old.heap[key] = st.heap[key]
        return st.heap[key][0]

    def type_constraint(self, st: State, ref, cls):
        tags = self.type_tags(st)
        subs = self.ct.subclasses(cls)
        if not subs:
            return z3.BoolVal(True)
        return z3.Or(*[z3.Select(tags, ref) == self.ct.classes[c].cid for c in subs])

    def allocate(self, st: State, cls) -> tuple[State, V]:
        s2 = st.fork()
        ref = st.alloc
        s2.alloc = st.alloc + 1
        tags = self.type_tags(s2)
        s2.heap[("$", "type")] = [z3.Store(tags, ref, self.ct.classes[cls].cid)]
        s2.pc.append(ref > 0)
        return s2, V(TRef(cls), [ref])

    # ------------------------------------------------------------------ locals
    def read_local(self, st: State, name):
        """Value of a local (dereferencing field aliases).  None if unbound."""
        x = st.frame.locals.get(name)
        if x is None:
            return st, None
        if isinstance(x, FieldAlias):
            return self.field_read(st, x.ref, x.cls, x.field)
        return st, x

    def write_local(self, st: State, name, val: V) -> State:
        track = st.ghost.get("$oneshot")
        if track and name in track and track[name] != "rebound" and len(st.frames) == getattr(self, "_oneshot_depth", -1):
            st = st.fork()
            st.ghost["$oneshot"] = {**track, name: "rebound"}     # the name now denotes what was assigned, e.g. tuple(other)
        x = st.frame.locals.get(name)
        if isinstance(x, FieldAlias) and isinstance(val.t, (TSet, TMap, TSeq)):
            raise EngineError("rebinding of an aliasing local")
        return st.with_local(name, val)

    # ------------------------------------------------------------------ misc
    def ufun(self, name):
        if name not in self.ufun_cache:
            uf = REG.ufuns[name]
            arg_ts = [self.ct.parse(a) for a in uf.args]
            ret_t = self.ct.parse(uf.ret)
            sorts = [so for a in arg_ts for _, so in comps(a)]
            fs = [z3.Function(f"{name}{('_' + s) if s else ''}", *sorts, so) for s, so in comps(ret_t)]
            self.ufun_cache[name] = (arg_ts, ret_t, fs)
        return self.ufun_cache[name]

    def card(self, st: State, setv: V):
        """Cardinality term of a finite set value + basic facts."""
        so = zsort(setv.t.elem)
        key = str(so)
        if key not in self.card_funs:
            self.card_funs[key] = z3.Function(f"card_{key}", z3.ArraySort(so, z3.BoolSort()), z3.IntSort())
        c = self.card_funs[key](setv.zs[0])
        x = z3.Const(fresh_name("x"), so)
        w = z3.Const(fresh_name("w"), so)
        # c >= 0 ; c == 0 <=> the set is empty (witness w when non-empty)
        st = st.assume(z3.And(c >= 0,
                              z3.Implies(c == 0, z3.ForAll([x], z3.Not(z3.Select(setv.zs[0], x)))),
                              z3.Implies(c != 0, z3.Select(setv.zs[0], w))))
        # finite-set facts relating this cardinality to the ones already mentioned on the path (A-CARD):
        # S1 subset of S2 => |S1| <= |S2|, and strictly smaller when some element of S2 is missing from S1
        seen = st.ghost.get("$cards", ())
        facts = []
        for (key2, arr2, c2) in seen[-6:]:
            if key2 != key or arr2.eq(setv.zs[0]):
                continue
            for (a1, k1), (a2, k2) in (((setv.zs[0], c), (arr2, c2)), ((arr2, c2), (setv.zs[0], c))):
                y = z3.Const(fresh_name("y"), so)
                sub = z3.ForAll([y], z3.Implies(z3.Select(a1, y), z3.Select(a2, y)))
                z = z3.Const(fresh_name("z"), so)
                facts.append(z3.Implies(sub, k1 <= k2))
                facts.append(z3.Implies(z3.And(sub, z3.Exists([z], z3.And(z3.Select(a2, z), z3.Not(z3.Select(a1, z))))),
                                        k1 < k2))
        s2 = st.assume(z3.And(*facts)) if facts else st.fork()
        s2.ghost["$cards"] = tuple(seen) + ((key, setv.zs[0], c),)
        return s2, c

    # ------------------------------------------------------------------ one-shot iterables (A-ITER-1)
    _SINGLE_TRAVERSAL = {"set", "tuple", "list", "frozenset", "sorted", "dict.fromkeys", "enumerate", "iter"}

    def oneshot_scan(self, fdef, names):
        """Classify every Load of a one-shot parameter in the function: 'exempt' (isinstance / is None: the object is looked at,
        not traversed), 'ok' (the value goes into exactly one traversal: for / first comprehension source / set() / tuple() /
        list() / frozenset() / sorted() / dict.fromkeys(), possibly through `x or y` / typing.cast) or a reason why not."""
        import ast
        parent = {}
        for n in ast.walk(fdef):
            for c in ast.iter_child_nodes(n):
                parent[id(c)] = n
        iter_ctx = set()

        def mark(n):
            for x in ast.walk(n):
                iter_ctx.add(id(x))
        for n in ast.walk(fdef):
            if isinstance(n, (ast.For, ast.AsyncFor)):
                for b in n.body:
                    mark(b)
            elif isinstance(n, ast.While):
                mark(n.test)
                for b in n.body:
                    mark(b)
            elif isinstance(n, (ast.ListComp, ast.SetComp, ast.GeneratorExp, ast.DictComp)):
                for part in ([n.key, n.value] if isinstance(n, ast.DictComp) else [n.elt]):
                    mark(part)
                for gi, g in enumerate(n.generators):
                    for c_ in g.ifs:
                        mark(c_)
                    if gi > 0:
                        mark(g.iter)
            elif isinstance(n, (ast.Lambda, ast.FunctionDef)) and n is not fdef:
                mark(n)

        def fname(f):
            if isinstance(f, ast.Name):
                return f.id
            if isinstance(f, ast.Attribute) and isinstance(f.value, ast.Name):
                return f"{f.value.id}.{f.attr}"
            return None

        def context(n):
            p = parent.get(id(n))
            if isinstance(p, ast.Call) and n in p.args:
                fn = fname(p.func)
                if fn == "isinstance" and p.args[0] is n:
                    return "exempt"
                if fn in self._SINGLE_TRAVERSAL and len(p.args) == 1 and not p.keywords:
                    return "ok"
                if fn in ("cast", "typing.cast") and len(p.args) == 2 and p.args[1] is n:
                    return context(p)
                return f"passed to {fn or 'a call'}(...), which is not known to traverse it exactly once"
            if isinstance(p, (ast.For, ast.AsyncFor)) and p.iter is n:
                return "ok"
            if isinstance(p, ast.comprehension) and p.iter is n:
                return "ok"
            if isinstance(p, ast.BoolOp):
                return context(p)
            if isinstance(p, ast.Compare) and p.left is n and len(p.ops) == 1 and isinstance(p.ops[0], (ast.Is, ast.IsNot)):
                return "exempt"
            if isinstance(p, ast.UnaryOp) and isinstance(p.op, ast.Not):
                return "its truth value is taken (always true for an iterator, false for an empty container)"
            return f"used in {type(p).__name__}, which is not a single traversal"
        out = {}
        for n in ast.walk(fdef):
            if isinstance(n, ast.Name) and isinstance(n.ctx, ast.Load) and n.id in names:
                c = context(n)
                if c == "ok" and id(n) in iter_ctx:
                    c = "evaluated inside a loop body or a comprehension's element / filter (once per iteration)"
                out[(n.lineno, n.col_offset)] = c
        return out

    def oneshot_use(self, st: State, e):
        """A Load of a parameter declared one-shot in the function under verification: at most one traversing use per path."""
        track = st.ghost.get("$oneshot")
        if not track or self.spec or self.dry or e.id not in track or len(st.frames) != self._oneshot_depth:
            return st
        cnt = track[e.id]
        if cnt == "rebound":
            return st
        verdict = self._oneshot_sites.get((e.lineno, e.col_offset), "not a use the scan knows")
        if verdict == "exempt":
            return st
        bad = verdict if verdict != "ok" else ("traversed a second time on this path" if cnt >= 1 else None)
        # the typestate obligation of this use on this path (trivially true or false once the path is fixed; a false one is
        # discharged only if the path is infeasible)
        self.oblige(st, "oneshot", f":{e.id}@{e.lineno}.{e.col_offset}", z3.BoolVal(not bad),
                    descr=f"one-shot iterable {e.id!r}: " + (f"{bad} (line {e.lineno})" if bad else
                                                             f"first and only traversal on this path (line {e.lineno})"), node=e)
        st = st.fork()
        t2 = dict(track)
        t2[e.id] = cnt + 1
        st.ghost["$oneshot"] = t2
        return st

    def okeys(self, st: State, m: V):
        """The iteration view of an ordered map (A-ODICT): the keys as a sequence in increasing rank.  OKLEN / OKAT / OKPOS
        are functions of the map (member array, rank array), so the same map has the same view wherever it is iterated; the
        axioms are instantiated for this map only: at/pos are inverse bijections between [0, n) and the key set, at is
        strictly rank-increasing, and n is the cardinality of the key set."""
        from .values import map_keys
        kt = m.t.k
        so = zsort(kt)
        h, r = m.zs[0], m.zs[-1]
        key = str(so)
        if key not in self.okey_funs:
            self.okey_funs[key] = (z3.Function(f"OKLEN_{key}", h.sort(), r.sort(), z3.IntSort()),
                                   z3.Function(f"OKAT_{key}", h.sort(), r.sort(), z3.IntSort(), so),
                                   z3.Function(f"OKPOS_{key}", h.sort(), r.sort(), so, z3.IntSort()))
        LEN, AT, POS = self.okey_funs[key]
        n = LEN(h, r)
        i, j = z3.Int(fresh_name("i")), z3.Int(fresh_name("j"))
        k = z3.Const(fresh_name("k"), so)
        st, c = self.card(st, map_keys(m))
        st = st.assume(z3.And(
            n >= 0, c == n,
            z3.ForAll([i], z3.Implies(z3.And(0 <= i, i < n), z3.And(z3.Select(h, AT(h, r, i)), POS(h, r, AT(h, r, i)) == i)),
                      patterns=[AT(h, r, i)]),
            z3.ForAll([k], z3.Implies(z3.Select(h, k), z3.And(0 <= POS(h, r, k), POS(h, r, k) < n, AT(h, r, POS(h, r, k)) == k)),
                      patterns=[POS(h, r, k)]),
            z3.ForAll([i, j], z3.Implies(z3.And(0 <= i, i < j, j < n), z3.Select(r, AT(h, r, i)) < z3.Select(r, AT(h, r, j))),
                      patterns=[z3.MultiPattern(AT(h, r, i), AT(h, r, j))])))
        self.note_assumed("A-ODICT: iteration over a dict visits every key exactly once, in increasing insertion rank")
        return st, n, (lambda ix: V(kt, [AT(h, r, ix)]))

    def def_array(self, st: State, x, body, base="def"):
        """A fresh array A with the defining axiom forall x. A[x] == body (instead of a lambda term)."""
        a = z3.Const(fresh_name(base), z3.ArraySort(x.sort(), body.sort()))
        ax = z3.ForAll([x], z3.Select(a, x) == body, patterns=[z3.Select(a, x)])
        return st.assume(ax), a
