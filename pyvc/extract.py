"""Mechanical extraction of function/class definitions from /repo's current working tree.

Nothing is cached across runs; every run re-parses the files under REPO_SRC.  What extraction
drops is listed in DROPPED (and copied into the evidence).
"""
from __future__ import annotations

import ast
import hashlib
import os
from functools import lru_cache

REPO = os.environ.get("PYVC_REPO", "/repo")
REPO_SRC = os.path.join(REPO, "src")

DROPPED = [
    "docstrings",
    "type annotations (used as sort hints only)",
    "logging calls (_LOGGER.*, self._logger.*, _logger.*) including their argument evaluation (A-LOG)",
    "comments / noqa markers",
    "decorators other than staticmethod/classmethod/property/contextmanager/dataclass/abstractmethod/"
    "functools.wraps/lru_cache/_early_return (interpreted)",
]


def module_path(module: str) -> str:
    p = os.path.join(REPO_SRC, *module.split("."))
    if os.path.isdir(p):
        return os.path.join(p, "__init__.py")
    return p + ".py"


@lru_cache(maxsize=None)
def module_ast(module: str) -> ast.Module:
    with open(module_path(module), encoding="utf-8") as f:
        src = f.read()
    return ast.parse(src)


@lru_cache(maxsize=None)
def module_source(module: str) -> str:
    with open(module_path(module), encoding="utf-8") as f:
        return f.read()


def find_def(module: str, qual: str):
    """Find FunctionDef/ClassDef by dotted qualified name (nested defs allowed: outer.inner)."""
    node = module_ast(module)
    for part in qual.split("."):
        found = None
        want_setter = part.startswith("$set:")
        pname = part[5:] if want_setter else part
        for ch in _defs_in(node):
            if ch.name == pname:
                decos = [ast.unparse(d) for d in getattr(ch, "decorator_list", [])]
                is_setter = any(d.endswith(".setter") for d in decos)
                is_deleter = any(d.endswith(".deleter") for d in decos)
                if is_deleter or is_setter != want_setter:
                    continue
                found = ch
        if found is None:
            raise LookupError(f"{module}:{qual}: '{part}' not found")
        node = found
    return node


def _defs_in(node):
    """Definitions directly inside node, looking through if/try/with blocks (not into other defs)."""
    out = []
    stack = list(getattr(node, "body", []))
    while stack:
        s = stack.pop(0)
        if isinstance(s, (ast.FunctionDef, ast.AsyncFunctionDef, ast.ClassDef)):
            out.append(s)
        elif isinstance(s, (ast.If, ast.Try, ast.With, ast.For, ast.While)):
            for fld in ("body", "orelse", "finalbody"):
                stack = list(getattr(s, fld, [])) + stack
            for h in getattr(s, "handlers", []):
                stack = list(h.body) + stack
    return out


def source_hash(node) -> str:
    """Hash of the definition with docstrings removed (ast.dump of the stripped tree)."""
    return hashlib.sha256(ast.dump(strip_docstrings(node)).encode()).hexdigest()[:16]


def strip_docstrings(node):
    import copy
    node = copy.deepcopy(node)
    for n in ast.walk(node):
        if isinstance(n, (ast.FunctionDef, ast.ClassDef, ast.AsyncFunctionDef, ast.Module)):
            if n.body and isinstance(n.body[0], ast.Expr) and isinstance(n.body[0].value, ast.Constant) \
                    and isinstance(n.body[0].value.value, str):
                n.body = n.body[1:] or [ast.Pass()]
    return node


@lru_cache(maxsize=None)
def import_map(module: str) -> dict:
    """name -> ('module', dotted) | ('object', module, name) for module-level imports/defs."""
    out = {}
    tree = module_ast(module)

    def visit(body):
        for s in body:
            if isinstance(s, ast.Import):
                for a in s.names:
                    out[a.asname or a.name.split(".")[0]] = ("module", a.name if a.asname else a.name.split(".")[0])
            elif isinstance(s, ast.ImportFrom):
                for a in s.names:
                    out[a.asname or a.name] = ("object", s.module, a.name)
            elif isinstance(s, ast.If):
                visit(s.body)
                visit(s.orelse)
            elif isinstance(s, ast.Try):
                visit(s.body)
            elif isinstance(s, (ast.FunctionDef, ast.ClassDef)):
                out[s.name] = ("object", module, s.name)
            elif isinstance(s, ast.Assign):
                for t in s.targets:
                    if isinstance(t, ast.Name):
                        out[t.id] = ("global", module, t.id, s.value)
            elif isinstance(s, ast.AnnAssign) and isinstance(s.target, ast.Name) and s.value is not None:
                out[s.target.id] = ("global", module, s.target.id, s.value)
    visit(tree.body)
    return out


def is_repo_module(module: str) -> bool:
    try:
        return os.path.exists(module_path(module))
    except Exception:
        return False


def class_info(module: str, cls: str):
    """(bases as written, annotated fields {name: annotation node}, methods {name: FunctionDef})."""
    node = find_def(module, cls)
    bases = []
    for b in node.bases:
        bases.append(b.attr if isinstance(b, ast.Attribute) else getattr(b, "id", None) or ast.unparse(b))
    fields, defaults, methods = {}, {}, {}
    for s in node.body:
        if isinstance(s, ast.AnnAssign) and isinstance(s.target, ast.Name):
            fields[s.target.id] = s.annotation
            if s.value is not None:
                defaults[s.target.id] = s.value
        elif isinstance(s, ast.Assign):
            for t in s.targets:
                if isinstance(t, ast.Name):
                    defaults[t.id] = s.value
        elif isinstance(s, ast.FunctionDef):
            dn = [ast.unparse(d) for d in s.decorator_list]
            if any(d.endswith(".setter") for d in dn):
                methods["$set:" + s.name] = s
            elif any(d.endswith(".deleter") for d in dn):
                methods["$del:" + s.name] = s
            else:
                methods[s.name] = s
    # self.x: T = ... inside __init__
    init = methods.get("__init__")
    if init is not None:
        for n in ast.walk(init):
            if isinstance(n, ast.AnnAssign) and isinstance(n.target, ast.Attribute) \
                    and isinstance(n.target.value, ast.Name) and n.target.value.id == "self":
                fields.setdefault(n.target.attr, n.annotation)
    decos = [ast.unparse(d) for d in node.decorator_list]
    return bases, fields, defaults, methods, decos


def loops_of(fn: ast.FunctionDef):
    """For/While nodes of the function in source (pre-)order, excluding nested defs; comprehension
    loops are not counted."""
    out = []

    def walk(body):
        for s in body:
            if isinstance(s, (ast.FunctionDef, ast.AsyncFunctionDef, ast.ClassDef)):
                continue
            if isinstance(s, (ast.For, ast.While)):
                out.append(s)
            for fld in ("body", "orelse", "finalbody"):
                walk(getattr(s, fld, []) or [])
            for h in getattr(s, "handlers", []) or []:
                walk(h.body)
            for c in getattr(s, "cases", []) or []:
                walk(c.body)
    walk(fn.body)
    return out
