"""Sorts of pyvc's symbolic values and their flattening into z3 components.

Every Python value the executor handles has a static type T.  A value V(t, zs) carries the
list of z3 terms `zs` that corresponds to `comps(t)`.  Containers have value semantics
(assumption A-OWN: a container is owned by exactly one variable/field; aliasing of locals,
parameters and fields is tracked by the executor through cells).
"""
from __future__ import annotations

import ast
import z3

# ---------------------------------------------------------------------------------------
# type objects


class T:
    scalar = False  # single z3 component usable as array index

    def __repr__(self):
        return self.name()

    def name(self):  # pragma: no cover
        return type(self).__name__

    def __eq__(self, other):
        return type(self) is type(other) and self.key() == other.key()

    def __hash__(self):
        return hash((type(self).__name__, self.key()))

    def key(self):
        return ()


class TInt(T):
    scalar = True

    def name(self):
        return "int"


class TBool(T):
    scalar = True

    def name(self):
        return "bool"


class TFloat(T):
    """Extended real: kind 0 finite (value r), 1 +inf, -1 -inf, 2 NaN.  No rounding, no -0.0."""

    def name(self):
        return "float"


class TFP(T):
    """IEEE-754 binary64 (z3 FloatingPoint 11 53)."""

    scalar = True

    def name(self):
        return "fp"


class TStr(T):
    scalar = True

    def name(self):
        return "str"


class TNone(T):
    def name(self):
        return "None"


class TRef(T):
    scalar = True

    def __init__(self, cls):
        self.cls = cls

    def key(self):
        return self.cls

    def name(self):
        return self.cls


class TEnum(T):
    """Enum class: member i of `members` is the integer i."""

    scalar = True

    def __init__(self, nm, members):
        self.nm, self.members = nm, tuple(members)

    def key(self):
        return self.nm

    def name(self):
        return f"enum<{self.nm}>"


class TOpaque(T):
    scalar = True

    def __init__(self, nm):
        self.nm = nm

    def key(self):
        return self.nm

    def name(self):
        return f"opaque<{self.nm}>"


class TOpt(T):
    def __init__(self, inner):
        assert not isinstance(inner, (TOpt, TNone))
        self.inner = inner

    def key(self):
        return self.inner

    def name(self):
        return f"Optional[{self.inner}]"


class TTuple(T):
    """Tuple; with `names` it is a record (frozen dataclass treated as a value)."""

    def __init__(self, items, names=None, recname=None):
        self.items = tuple(items)
        self.names = tuple(names) if names else None
        self.recname = recname

    def key(self):
        return (self.items, self.names, self.recname)

    def name(self):
        if self.recname:
            return f"record<{self.recname}>"
        return "tuple[" + ",".join(map(repr, self.items)) + "]"


class TSet(T):
    def __init__(self, elem):
        assert elem.scalar, f"set element type must be scalar: {elem}"
        self.elem = elem

    def key(self):
        return self.elem

    def name(self):
        return f"set[{self.elem}]"


class TMap(T):
    def __init__(self, k, v, ordered=False):
        assert k.scalar, f"dict key type must be scalar: {k}"
        self.k, self.v, self.ordered = k, v, ordered
        self.default = False

    def key(self):
        return (self.k, self.v, self.ordered)

    def name(self):
        return f"{'odict' if self.ordered else 'dict'}[{self.k},{self.v}]"


class TSeq(T):
    def __init__(self, elem):
        self.elem = elem

    def key(self):
        return self.elem

    def name(self):
        return f"list[{self.elem}]"


INT, BOOL, FLOAT, FP, STR, NONE = TInt(), TBool(), TFloat(), TFP(), TStr(), TNone()

_opaque_sorts: dict[str, z3.SortRef] = {}
FP64 = z3.Float64()
RNE = z3.RNE()


def zsort(t: T) -> z3.SortRef:
    """z3 sort of a scalar type."""
    if isinstance(t, TInt):
        return z3.IntSort()
    if isinstance(t, TBool):
        return z3.BoolSort()
    if isinstance(t, TStr):
        return z3.StringSort()
    if isinstance(t, (TRef, TEnum)):
        return z3.IntSort()
    if isinstance(t, TFP):
        return FP64
    if isinstance(t, TOpaque):
        if t.nm not in _opaque_sorts:
            _opaque_sorts[t.nm] = z3.DeclareSort("O_" + t.nm)
        return _opaque_sorts[t.nm]
    raise TypeError(f"not scalar: {t}")


def comps(t: T) -> list[tuple[str, z3.SortRef]]:
    """Flattened (suffix, sort) components of a type."""
    if t.scalar:
        return [("", zsort(t))]
    if isinstance(t, TFloat):
        return [("k", z3.IntSort()), ("r", z3.RealSort())]
    if isinstance(t, TNone):
        return []
    if isinstance(t, TOpt):
        return [("none", z3.BoolSort())] + [("v" + s, so) for s, so in comps(t.inner)]
    if isinstance(t, TTuple):
        out = []
        for i, it in enumerate(t.items):
            out += [(f"{i}{s}", so) for s, so in comps(it)]
        return out
    if isinstance(t, TSet):
        return [("", z3.ArraySort(zsort(t.elem), z3.BoolSort()))]
    if isinstance(t, TMap):
        ks = zsort(t.k)
        out = [("keys", z3.ArraySort(ks, z3.BoolSort()))]
        out += [("val" + s, z3.ArraySort(ks, so)) for s, so in comps(t.v)]
        if t.ordered:
            out.append(("rank", z3.ArraySort(ks, z3.IntSort())))
        return out
    if isinstance(t, TSeq):
        return [("len", z3.IntSort())] + [
            ("at" + s, z3.ArraySort(z3.IntSort(), so)) for s, so in comps(t.elem)
        ]
    raise TypeError(f"no components for {t}")


def ncomps(t: T) -> int:
    return len(comps(t))


# ---------------------------------------------------------------------------------------
# parsing of type strings / annotations


class TypeEnv:
    """Knows class names (for TRef) and aliases."""

    def __init__(self):
        self.classes: set[str] = set()
        self.aliases: dict[str, T] = {}
        self.enums: dict[str, TEnum] = {}


def parse_type(src, env: TypeEnv) -> T:
    """Parse a type string or annotation AST node into a T.

    Unknown names become opaque sorts (values with equality only).
    """
    node = ast.parse(src, mode="eval").body if isinstance(src, str) else src
    return _pt(node, env)


def _pt(n, env: TypeEnv) -> T:
    if isinstance(n, ast.Constant):
        if n.value is None:
            return NONE
        if isinstance(n.value, str):
            return parse_type(n.value, env)
    if isinstance(n, ast.Name):
        nm = n.id
        if nm in env.aliases:
            return env.aliases[nm]
        if nm == "int":
            return INT
        if nm == "bool":
            return BOOL
        if nm == "float":
            return FLOAT
        if nm == "fp":
            return FP
        if nm == "str":
            return STR
        if nm == "None":
            return NONE
        if nm in env.enums:
            return env.enums[nm]
        if nm in env.classes:
            return TRef(nm)
        return TOpaque(nm)
    if isinstance(n, ast.Attribute):
        nm = n.attr
        if nm in env.aliases:
            return env.aliases[nm]
        if nm in env.enums:
            return env.enums[nm]
        if nm in env.classes:
            return TRef(nm)
        return TOpaque(nm)
    if isinstance(n, ast.BinOp) and isinstance(n.op, ast.BitOr):
        l, r = _pt(n.left, env), _pt(n.right, env)
        if isinstance(r, TNone):
            return l if isinstance(l, TOpt) else TOpt(l)
        if isinstance(l, TNone):
            return r if isinstance(r, TOpt) else TOpt(r)
        if l == r:
            return l
        if {type(l), type(r)} == {TInt, TFloat}:
            return FLOAT
        raise TypeError(f"unsupported union {ast.unparse(n)}")
    if isinstance(n, ast.Subscript):
        base = n.value.attr if isinstance(n.value, ast.Attribute) else getattr(n.value, "id", None)
        args = n.slice.elts if isinstance(n.slice, ast.Tuple) else [n.slice]
        if base == "Optional":
            return TOpt(_pt(args[0], env))
        if base in ("set", "frozenset", "OrderedSet", "FrozenOrderedSet", "Set", "AbstractSet",
                    "MutableSet", "oset"):
            return TSet(_pt(args[0], env))
        if base in ("dict", "Dict", "Mapping", "MutableMapping"):
            return TMap(_pt(args[0], env), _pt(args[1], env))
        if base == "defaultdict":
            # a dict whose lookup of a missing key inserts the value type's empty value (not part of the type's identity)
            m = TMap(_pt(args[0], env), _pt(args[1], env))
            m.default = True
            return m
        if base == "odict":
            return TMap(_pt(args[0], env), _pt(args[1], env), ordered=True)
        if base in ("list", "List", "Sequence", "Iterable", "Collection", "Iterator", "Generator"):
            return TSeq(_pt(args[0], env))
        if base in ("tuple", "Tuple"):
            if len(args) == 2 and isinstance(args[1], ast.Constant) and args[1].value is Ellipsis:
                return TSeq(_pt(args[0], env))
            return TTuple([_pt(a, env) for a in args])
        if base in ("type", "Callable", "Self"):
            return TOpaque(base)
        nm = base or "unk"
        return TRef(nm) if nm in env.classes else TOpaque(nm)
    raise TypeError(f"cannot parse type {ast.dump(n)}")
