"""Statement execution: control flow, loops with invariants, exceptions, context managers."""
from __future__ import annotations

import ast

import z3

from . import extract
from .calls import is_logger_call
from .comps import Domain
from .contracts import REG
from .exprs import Bag, BuiltinRef, ClassRef, FuncRef, MethodRef, ModRef
from .state import Exc, FieldAlias, Frame, Outcome, State
from .engine import MAX_PATHS, exc_is_subclass
from .types import (BOOL, FLOAT, INT, NONE, STR, T, TEnum, TMap, TNone, TOpaque, TOpt, TRef, TSeq, TSet, TTuple,
                    comps, zsort)
from . import values as vals
from .values import (NONEV, EngineError, V, coerce, fresh, fresh_name, mk_bool, mk_int, mk_tuple, opt_isnone, opt_val,
                     truth, tuple_items)


class ClosureRef:
    """A nested function definition stored in a local (verified separately; calling it inlines)."""

    def __init__(self, fdef, frame_locals):
        self.fdef, self.captured = fdef, frame_locals


class StmtMixin:
    # ------------------------------------------------------------------ blocks
    def exec_block(self, stmts, st: State) -> list[Outcome]:
        outs, cur = [], [st]
        for s in stmts:
            nxt = []
            for c in cur:
                for o in self.exec_stmt(s, c):
                    if o.kind == "ok":
                        nxt.append(o.st)
                    else:
                        outs.append(o)
            cur = nxt
            if not cur:
                break
        outs += [Outcome("ok", c) for c in cur]
        return outs

    def exec_stmt(self, s: ast.stmt, st: State) -> list[Outcome]:
        self.npaths += 1
        if self.npaths > MAX_PATHS:
            raise EngineError("path explosion")
        m = getattr(self, "st_" + type(s).__name__, None)
        if m is None:
            raise EngineError(f"unsupported statement {type(s).__name__} (line {s.lineno})")
        self.excs.append([])
        try:
            outs = list(m(s, st))
        finally:
            ex = self.excs.pop()
        return outs + ex

    # ------------------------------------------------------------------ simple statements
    def st_Pass(self, s, st):
        yield Outcome("ok", st)

    def st_Global(self, s, st):
        yield Outcome("ok", st)

    st_Nonlocal = st_Global

    def st_Import(self, s, st):
        s2 = st.fork()
        for a in s.names:
            s2.frame.locals[a.asname or a.name.split(".")[0]] = ModRef(a.name if a.asname else a.name.split(".")[0])
        yield Outcome("ok", s2)

    def st_ImportFrom(self, s, st):
        s2 = st.fork()
        for a in s.names:
            s2.frame.locals[a.asname or a.name] = self.resolve_object(s.module, a.name)
        yield Outcome("ok", s2)

    def st_Expr(self, s, st):
        if isinstance(s.value, ast.Constant):
            yield Outcome("ok", st)
            return
        if isinstance(s.value, ast.Yield):
            yield from self.exec_yield_stmt(s, st)
            return
        for st1, _ in self.ev(s.value, st):
            yield Outcome("ok", st1)

    def st_Return(self, s, st):
        if s.value is None:
            yield Outcome("ret", st, NONEV)
            return
        for st1, v in self.ev(s.value, st):
            yield Outcome("ret", st1, v)

    def st_Break(self, s, st):
        yield Outcome("brk", st)

    def st_Continue(self, s, st):
        yield Outcome("cnt", st)

    def st_Assert(self, s, st):
        for st1, c in self.ev(s.test, st):
            tc = truth(self.as_value(c))
            k = self.ordinal("assert", s)
            allowed = getattr(self, "cur_raises", {})
            if not ("AssertionError" in allowed or "*" in allowed or "Exception" in allowed):
                # (when the contract permits AssertionError the failing path is judged by its `raises` clause)
                self.oblige(st1, "assert", f"#{k}", tc, descr=f"assert {ast.unparse(s.test)}", node=s)
            bad = st1.assume(z3.Not(tc))
            if not self.dry and self.feasible(bad):
                self.excs[-1].append(Outcome("exc", bad, Exc("AssertionError")))
            yield Outcome("ok", self.narrow_locals(st1.assume(tc), s.test, True))

    def st_Raise(self, s, st):
        if s.exc is None:
            cur = st.ghost.get("$handling")
            if cur is None:
                raise EngineError("bare raise outside handler")
            yield Outcome("exc", st, cur)
            return
        e = s.exc
        name = None
        fn = e.func if isinstance(e, ast.Call) else e
        if isinstance(fn, ast.Name):
            name = fn.id
        elif isinstance(fn, ast.Attribute):
            name = fn.attr
        loc = st.lookup(name) if name else None
        if isinstance(loc, V) and isinstance(loc.t, TOpaque) and loc.t.nm.startswith("exc:"):
            yield Outcome("exc", st, Exc(loc.t.nm[4:], loc))
            return
        if name is None:
            raise EngineError(f"raise of {ast.unparse(e)}")
        import builtins
        if not (isinstance(getattr(builtins, name, None), type) or name in REG.exceptions):
            raise EngineError(f"raise of unknown exception class {name}")
        yield Outcome("exc", st, Exc(name))

    def st_Delete(self, s, st):
        cur = st
        for t in s.targets:
            if isinstance(t, ast.Subscript):
                (st1, cont), = self._single(t.value, cur)
                cont = self.as_value(cont)
                (st2, idx), = self._single(t.slice, st1)
                idx = self.as_value(idx)
                if isinstance(cont.t, TMap):
                    k = coerce(idx, cont.t.k)
                    has = vals.map_has(cont, k)
                    self.raise_(st2, "KeyError", z3.Not(has))
                    st2 = st2.assume(has)
                    cur = self.assign_to(st2, t.value, vals.map_del(cont, k), mut=True)
                elif isinstance(cont.t, TSeq):
                    i = coerce(idx, INT).z
                    n = cont.zs[0]
                    ok = z3.And(-n <= i, i < n)
                    self.raise_(st2, "IndexError", z3.Not(ok))
                    st2 = st2.assume(ok)
                    st3, r = self.seq_delete_at(st2, cont, z3.If(i < 0, i + n, i))
                    cur = self.assign_to(st3, t.value, r, mut=True)
                else:
                    raise EngineError("del on " + str(cont.t))
            elif isinstance(t, ast.Name):
                cur = cur.fork()
                cur.frame.locals.pop(t.id, None)
            else:
                raise EngineError("del target")
        yield Outcome("ok", cur)

    def st_FunctionDef(self, s, st):
        yield Outcome("ok", st.with_local(s.name, ClosureRef(s, None)))

    # ------------------------------------------------------------------ assignment
    def st_Assign(self, s, st):
        for st1, v in self.ev(s.value, st):
            cur = st1
            for tgt in s.targets:
                cur = self.store(cur, tgt, v, s.value)
            yield Outcome("ok", cur)

    def st_AnnAssign(self, s, st):
        if s.value is None:
            yield Outcome("ok", st)
            return
        for st1, v in self.ev(s.value, st):
            if isinstance(v, V) and isinstance(s.target, ast.Name):
                try:
                    ann = ast.unparse(s.annotation)
                    for a_, b_ in getattr(self, "cur_type_map", {}).items():
                        ann = ann.replace(a_, b_)
                    v = coerce(v, self.ct.parse(ann))
                except EngineError:
                    pass
            yield Outcome("ok", self.store(st1, s.target, v, s.value))

    def st_AugAssign(self, s, st):
        for st1, cur in self.ev(s.target, st):
            for st2, v in self.ev(s.value, st1):
                cur_v, v_v = self.as_value(cur), self.as_value(v)
                if isinstance(cur_v.t, TSeq) and isinstance(s.op, ast.Add):
                    st3, r = self.seq_concat(st2, cur_v, v_v)
                    yield Outcome("ok", self.assign_to(st3, s.target, r))
                    continue
                for st3, r in self.binop(st2, s.op, cur_v, v_v, s):
                    yield Outcome("ok", self.assign_to(st3, s.target, r))

    def store(self, st: State, tgt, v, value_node=None) -> State:
        if isinstance(tgt, ast.Name):
            if isinstance(v, V) and tgt.id in getattr(self, "cur_locals", {}) and len(st.frames) == 1:
                v = coerce(v, self.ct.parse(self.cur_locals[tgt.id]))     # declared type of an unannotated local
            if isinstance(v, Bag):
                st, v = self.bag_to_seq(st, v)
            if isinstance(v, V) and isinstance(v.t, (TSet, TMap, TSeq)) and value_node is not None:
                # aliasing bookkeeping
                if isinstance(value_node, ast.Attribute):
                    (s1, base), = self._single(value_node.value, st)
                    if isinstance(base, V):
                        b = opt_val(base) if isinstance(base.t, TOpt) else base
                        if isinstance(b.t, TRef) and self.ct.field(b.t.cls, value_node.attr) is not None:
                            return st.with_local(tgt.id, FieldAlias(b.z, b.t.cls, value_node.attr))
                elif isinstance(value_node, ast.Name) and not isinstance(st.lookup(value_node.id), FieldAlias):
                    s2 = st.with_local(tgt.id, v)
                    s2.shared = s2.shared | {tgt.id, value_node.id}
                    return s2
                elif isinstance(value_node, ast.Name):
                    return st.with_local(tgt.id, st.lookup(value_node.id))
            if not isinstance(v, V):
                return st.with_local(tgt.id, v)
            s2 = self.write_local(st, tgt.id, v)
            if len(s2.frames) == 1:
                s2.ghost["$detached"] = s2.ghost.get("$detached", frozenset()) | {tgt.id}
            return s2
        if isinstance(tgt, (ast.Tuple, ast.List)):
            v = self.as_value(v)
            if isinstance(v.t, TTuple) and len(v.t.items) == len(tgt.elts):
                for t, it in zip(tgt.elts, tuple_items(v)):
                    st = self.store(st, t, it)
                return st
            if isinstance(v.t, TOpaque):
                self.note_assumed("unpacking of an opaque value (unknown components)")
                for t in tgt.elts:
                    st = self.store(st, t, fresh(TOpaque("unk"), "unp"))
                return st
            raise EngineError(f"cannot unpack {v.t}")
        if isinstance(v, Bag):
            st, v = self.bag_to_seq(st, v)
        st2 = self.assign_to(st, tgt, self.as_value(v))
        # a local container stored into a field becomes an alias of that field
        if isinstance(tgt, ast.Attribute) and isinstance(value_node, ast.Name) and isinstance(v, V) \
                and isinstance(v.t, (TSet, TMap, TSeq)):
            (s1, base), = self._single(tgt.value, st2)
            b = opt_val(base) if isinstance(base.t, TOpt) else base
            st2 = st2.with_local(value_node.id, FieldAlias(b.z, b.t.cls, tgt.attr))
        return st2

    # ------------------------------------------------------------------ if / match
    def st_If(self, s, st):
        for st1, c in self.ev(s.test, st):
            if isinstance(c, Bag):
                st1, n = self.bag_len(st1, c)
                tc = n > 0
            else:
                cv = self.as_value(c)
                if isinstance(cv.t.inner if isinstance(cv.t, TOpt) else cv.t, TOpaque):
                    self.opq_may_raise(st1, "truth value of a value of unknown type")
                tc = truth(cv)
            st_t, st_f = st1.assume(tc), st1.assume(z3.Not(tc))
            if self.feasible(st_t):
                yield from self.exec_block(s.body, self.narrow_locals(st_t, s.test, True))
            if self.feasible(st_f):
                yield from self.exec_block(s.orelse, self.narrow_locals(st_f, s.test, False))

    def narrow_locals(self, st, test, positive):
        """Flow-sensitive typing: in the branch where `x is not None` holds, the local x loses its Optional."""
        if isinstance(test, ast.UnaryOp) and isinstance(test.op, ast.Not):
            return self.narrow_locals(st, test.operand, not positive)
        if isinstance(test, ast.BoolOp):
            if (isinstance(test.op, ast.And) and positive) or (isinstance(test.op, ast.Or) and not positive):
                for v in test.values:
                    st = self.narrow_locals(st, v, positive)
            return st
        name, nonnull = None, None
        if isinstance(test, ast.Compare) and len(test.ops) == 1 and isinstance(test.left, ast.Name) \
                and isinstance(test.comparators[0], ast.Constant) and test.comparators[0].value is None:
            if isinstance(test.ops[0], ast.IsNot):
                name, nonnull = test.left.id, positive
            elif isinstance(test.ops[0], ast.Is):
                name, nonnull = test.left.id, not positive
        elif isinstance(test, ast.Name) and positive:
            name, nonnull = test.id, True
        if name and nonnull:
            cur = st.frame.locals.get(name)
            if isinstance(cur, V) and isinstance(cur.t, TOpt):
                return st.with_local(name, opt_val(cur))
        return st

    def st_Match(self, s, st):
        for st1, subj in self.ev(s.subject, st):
            rest = st1
            for case in s.cases:
                conds = self.match_pattern(rest, case.pattern, subj)
                if conds is None:
                    raise EngineError(f"unsupported match pattern {ast.unparse(case.pattern)}")
                c, binds = conds
                st_t = rest.assume(c)
                for k, v in binds.items():
                    st_t = st_t.with_local(k, v)
                if case.guard is not None:
                    raise EngineError("match guard")
                if self.feasible(st_t):
                    yield from self.exec_block(case.body, st_t)
                rest = rest.assume(z3.Not(c))
                if not self.feasible(rest):
                    break
            else:
                yield Outcome("ok", rest)

    def match_pattern(self, st, pat, subj):
        if isinstance(pat, ast.MatchAs) and pat.pattern is None:
            return z3.BoolVal(True), ({pat.name: subj} if pat.name else {})
        if isinstance(pat, ast.MatchValue):
            (st1, v), = self._single(pat.value, st)
            (_, c), = list(self.compare(st1, ast.Eq(), self.as_value(subj), self.as_value(v), pat))
            return c, {}
        if isinstance(pat, ast.MatchSingleton):
            (_, c), = list(self.compare(st, ast.Is(), self.as_value(subj),
                                        NONEV if pat.value is None else mk_bool(pat.value), pat))
            return c, {}
        if isinstance(pat, ast.MatchOr):
            cs = []
            for p in pat.patterns:
                r = self.match_pattern(st, p, subj)
                if r is None or r[1]:
                    return None
                cs.append(r[0])
            return z3.Or(*cs), {}
        return None

    # ------------------------------------------------------------------ loops
    def loop_spec(self, st, node):
        fn = st.frame.fn
        target = st.frame.target
        if fn is None:
            return None, 0
        loops = extract.loops_of(fn)
        for i, l in enumerate(loops):
            if l is node:
                return REG.loops.get((target, i)), i
        return None, -1

    def assigned_names(self, body):
        """(names rebound in the body, names whose container may be mutated in place / by a callee)."""
        out, maybe = set(), set()
        for n in ast.walk(ast.Module(body=list(body), type_ignores=[])):
            if isinstance(n, ast.Name) and isinstance(n.ctx, (ast.Store, ast.Del)):
                out.add(n.id)
            if isinstance(n, ast.Call) and isinstance(n.func, ast.Attribute) and isinstance(n.func.value, ast.Name):
                maybe.add(n.func.value.id)     # possible in-place mutation of a local container
            if isinstance(n, (ast.Assign, ast.AugAssign, ast.Delete)):
                tgts = n.targets if isinstance(n, (ast.Assign, ast.Delete)) else [n.target]
                for t in tgts:
                    while isinstance(t, ast.Subscript):
                        t = t.value
                    if isinstance(t, ast.Name):
                        maybe.add(t.id)
            if isinstance(n, ast.Call):
                # container locals passed to calls may be mutated by the callee (copy-out)
                for a in n.args:
                    if isinstance(a, ast.Name):
                        maybe.add(a.id)
        return out, maybe - out

    def _havoc_names(self, st, body):
        stored, maybe = self.assigned_names(body)
        names = set(stored)
        for nme in maybe:
            cur = st.frame.locals.get(nme)
            if isinstance(cur, V) and isinstance(cur.t, (TSet, TMap, TSeq)):
                names.add(nme)
        return names

    def havoc_for_loop(self, st: State, body, extra_body=(), binder=None):
        """State at an arbitrary iteration: locals assigned in the body and heap locations written by it are fresh."""
        names = self._havoc_names(st, list(body) + list(extra_body))
        # dry run to discover heap writes
        dry = st.fork()
        for nme in names:
            cur = dry.frame.locals.get(nme)
            if isinstance(cur, V) and comps(cur.t):
                nv = fresh(cur.t, "dry")
                dry.frame.locals[nme] = nv
        for key, arrs in list(dry.heap.items()):
            dry.heap[key] = [z3.Const(fresh_name("dryH"), a.sort()) for a in arrs]
        if binder is not None:
            dry = binder(dry)
        self.dry += 1
        saved, self.dry_writes = self.dry_writes, []
        self.excs.append([])
        try:
            self._dry_body(body, dry)
            writes = self.dry_writes
        finally:
            self.excs.pop()
            self.dry -= 1
            self.dry_writes = saved
        if self.dry:
            self.dry_writes.extend(writes)   # nested loop inside an outer dry run
        s2 = st.fork()
        for nme in names:
            cur = s2.frame.locals.get(nme)
            if isinstance(cur, V) and comps(cur.t):
                nv = fresh(cur.t, nme + "_l")
                s2.frame.locals[nme] = nv
                s2 = self.assume_wf(s2, nv)
        done = set()
        for (cls, fname, ref) in writes:
            stable = ref is not None and not any(str(c).startswith(("dry!", "dryH!")) for c in _consts(ref))
            key = (cls, fname)
            t = self.ct.classes[cls].fields[fname] if cls in self.ct.classes else None
            if key == ("$", "type"):
                continue
            arrs = self.heap_arrays(s2, cls, fname, t)
            if stable:
                nv = fresh(t, fname + "_l")
                s2.heap[key] = [z3.Store(a, ref, x) for a, x in zip(s2.heap[key], nv.zs)]
                for c in self.wf_constraints(s2, nv):
                    s2.pc.append(c)
            elif key not in done:
                done.add(key)
                s2.heap[key] = [z3.Const(fresh_name(f"H_{cls}_{fname}_l"), a.sort()) for a in arrs]
        if any(w[0] == "$alloc" for w in writes) or True:
            # allocations inside the loop: the allocation pointer only grows
            na = z3.Int(fresh_name("alloc_l"))
            s2.pc.append(na >= st.alloc)
            s2.alloc = na
        return s2

    def loop_frame_assume(self, pre: State, head: State, spec):
        """LoopSpec.modifies: at the head of an arbitrary iteration every object that existed at loop entry, other than the
        listed lvalues (evaluated at loop entry), has the field values it had at entry.  Re-proved at every back edge."""
        if spec is None or spec.modifies is None:
            return head, None
        allowed = self.modifies_allowed(spec.modifies, pre)
        for _, f in self.heap_frame_formulas(head, pre, allowed):
            head = head.assume(f)
        return head, allowed

    def loop_frame_oblige(self, pre: State, end: State, allowed, ordn, node):
        if allowed is None:
            return
        for (cls, fname), f in self.heap_frame_formulas(end, pre, allowed):
            self.oblige(end, "loop-frame", f"#{ordn}:{cls}.{fname}", f,
                        descr=f"loop #{ordn} changes {cls}.{fname} only where its modifies clause allows", node=node)

    def _dry_body(self, body, dry):
        try:
            self.exec_block(body, dry)
        except EngineError:
            raise

    def st_While(self, s, st):
        spec, ordn = self.loop_spec(st, s)
        if spec is None:
            raise EngineError(f"while loop #{ordn} of {st.frame.target} has no invariant")
        # init
        for i, inv in enumerate(spec.invariant):
            self.oblige(st, "inv-init", f"#{ordn}.{i}", self.spec_goal(inv, st), descr=f"loop invariant {inv!r} on entry",
                        node=s)
        head = self.havoc_for_loop(st, s.body + [ast.Expr(value=s.test)])
        head, lf_allowed = self.loop_frame_assume(st, head, spec)
        for inv in spec.invariant:
            head = head.assume(self.spec_bool(inv, head))
        m0 = None
        if spec.decreases:
            mv_, max_ = self.spec_eval_full(spec.decreases, head)
            for a_ in max_:
                head = head.assume(a_)
            if self.spec_cards:
                head = head.fork()
                head.ghost["$cards"] = self.spec_cards
            m0 = coerce(mv_, INT).z
        for st1, c in self.ev(s.test, head):
            tc = truth(self.as_value(c))
            st_in, st_out = st1.assume(tc), st1.assume(z3.Not(tc))
            if self.feasible(st_in):
                if m0 is not None:
                    self.oblige(st_in, "dec-bound", f"#{ordn}", m0 >= 0, descr="termination measure is bounded below",
                                node=s)
                for o in self.exec_block(s.body, st_in):
                    if o.kind in ("ok", "cnt"):
                        for i, inv in enumerate(spec.invariant):
                            self.oblige(o.st, "inv-step", f"#{ordn}.{i}", self.spec_goal(inv, o.st),
                                        descr=f"loop invariant {inv!r} preserved", node=s)
                        self.loop_frame_oblige(st, o.st, lf_allowed, ordn, s)
                        if m0 is not None:
                            mv_, max_ = self.spec_eval_full(spec.decreases, o.st)
                            end_ = o.st
                            for a_ in max_:
                                end_ = end_.assume(a_)
                            m1 = coerce(mv_, INT).z
                            self.oblige(end_, "dec", f"#{ordn}", m1 < m0, descr="termination measure decreases", node=s)
                    elif o.kind == "brk":
                        yield Outcome("ok", o.st)
                    else:
                        yield o
            if self.feasible(st_out):
                yield from self.exec_block(s.orelse, st_out) if s.orelse else [Outcome("ok", st_out)]

    def st_For(self, s, st):
        spec, ordn = self.loop_spec(st, s)
        for st0, it in self.ev(s.iter, st):
            st0, d = self.domain_of(st0, it, s.iter)
            if spec is None or spec.unroll:
                yield from self.for_unrolled(s, st0, d, spec, ordn)
                continue
            yield from self.for_invariant(s, st0, d, spec, ordn)

    def for_unrolled(self, s, st, d: Domain, spec, ordn):
        """Loops without an invariant: only when the domain has a literal length <= 8."""
        n = z3.simplify(d.length) if d.kind == "seq" else None
        if n is None or not z3.is_int_value(n) or n.as_long() > 8:
            raise EngineError(f"for loop #{ordn} of {st.frame.target} (line {s.lineno}) has no invariant")
        cur = [st]
        for i in range(n.as_long()):
            nxt = []
            for c in cur:
                c2 = self.bind_target(c, s.target, d.elem(z3.IntVal(i)))
                for o in self.exec_block(s.body, c2):
                    if o.kind in ("ok", "cnt"):
                        nxt.append(o.st)
                    elif o.kind == "brk":
                        yield Outcome("ok", o.st)
                    else:
                        yield o
            cur = nxt
        for c in cur:
            yield from self.exec_block(s.orelse, c) if s.orelse else [Outcome("ok", c)]

    def for_invariant(self, s, st, d: Domain, spec, ordn):
        setlike = d.kind == "set"
        if setlike:
            kt = d.kt
            empty = V(TSet(kt), [z3.K(zsort(kt), z3.BoolVal(False))])
            domv = V(TSet(kt), [d.dom])
            ghost0 = {"_done": empty, "_dom": domv}
        else:
            ghost0 = {"_i": mk_int(0), "_n": mk_int(d.length)}
            if any("_seq" in inv for inv in spec.invariant):
                # the iterated sequence itself, for invariants that talk about the elements processed so far
                st, seqv = self._dom_to_seq(st, d)
                ghost0["_seq"] = seqv
        for i, inv in enumerate(spec.invariant):
            self.oblige(st, "inv-init", f"#{ordn}.{i}", self.spec_goal(inv, st, ghost0),
                        descr=f"loop invariant {inv!r} on entry", node=s)
        def _dry_bind(dry):
            dry = self.bind_target(dry, s.target, fresh(d.et, "dry"))
            dry = dry.fork()
            for k_, v_ in ghost0.items():
                dry.frame.locals["outer" + k_] = fresh(v_.t, "dry")
            return dry
        head = self.havoc_for_loop(st, s.body, [ast.Assign(targets=[s.target], value=ast.Constant(value=None))],
                                   binder=_dry_bind)
        head, lf_allowed = self.loop_frame_assume(st, head, spec)
        if setlike:
            done = fresh(TSet(kt), "done")
            x = z3.Const(fresh_name("x"), zsort(kt))
            head = head.assume(z3.ForAll([x], z3.Implies(done.zs[0][x], d.dom[x])))
            ghost = {"_done": done, "_dom": domv}
        else:
            idx = z3.Int(fresh_name("it"))
            head = head.assume(z3.And(0 <= idx, idx <= d.length))
            ghost = {"_i": mk_int(idx), "_n": mk_int(d.length)}
            if "_seq" in ghost0:
                ghost["_seq"] = ghost0["_seq"]
        for inv in spec.invariant:
            head = head.assume(self.spec_bool(inv, head, ghost))
        for i, cl in enumerate(spec.derived):
            # a consequence of the invariants at an arbitrary loop head (a cut: proved there once, then available to the body
            # and after the loop; it needs no preservation proof of its own)
            self.oblige(head, "inv-derived", f"#{ordn}.{i}", self.spec_goal(cl, head, ghost),
                        descr=f"follows from the loop invariants: {cl!r}", node=s)
            head = head.assume(self.spec_bool(cl, head, ghost))
        # --- one arbitrary iteration
        if setlike:
            k = z3.Const(fresh_name("cur"), zsort(kt))
            st_in = head.assume(z3.And(d.dom[k], z3.Not(done.zs[0][k])))
            el = d.elem(k)
            nxt_ghost = {"_done": V(TSet(kt), [z3.Store(done.zs[0], k, z3.BoolVal(True))]), "_dom": domv}
            st_out = head.assume(done.zs[0] == d.dom)
        else:
            st_in = head.assume(idx < d.length)
            el = d.elem(idx)
            nxt_ghost = {"_i": mk_int(idx + 1), "_n": mk_int(d.length)}
            if "_seq" in ghost0:
                nxt_ghost["_seq"] = ghost0["_seq"]
            st_out = head.assume(idx == d.length)
        if self.feasible(st_in):
            st_in = self.assume_wf(st_in, el)
            st_b = self.bind_target(st_in, s.target, el)
            st_b = st_b.fork()
            # the ghost loop variables of an enclosing loop stay visible to inner invariants as outer_i / outer_done ...
            # (this loop's own invariants keep seeing the *enclosing* loop's values under those names: the body state
            #  carries this loop's ghosts for the loops nested inside it)
            enclosing = {k_: v_ for k_, v_ in st_b.frame.locals.items() if k_.startswith("outer_")}
            nxt_ghost.update(enclosing)
            st_b.frame.locals.update({("outer" + k_): v_ for k_, v_ in ghost.items()})
            for o in self.exec_block(s.body, st_b):
                if o.kind in ("ok", "cnt"):
                    # each conjunct is proved with the conjuncts before it as lemmas (all of them must be proved anyway:
                    # A and (A -> B) is A and B)
                    st_acc = o.st
                    for i, inv in enumerate(spec.invariant):
                        self.oblige(st_acc, "inv-step", f"#{ordn}.{i}", self.spec_goal(inv, o.st, nxt_ghost),
                                    descr=f"loop invariant {inv!r} preserved", node=s)
                        st_acc = st_acc.assume(self.spec_bool(inv, o.st, nxt_ghost))
                    self.loop_frame_oblige(st, o.st, lf_allowed, ordn, s)
                elif o.kind == "brk":
                    yield Outcome("ok", o.st)
                else:
                    yield o
        if self.feasible(st_out):
            for i, cl in enumerate(spec.exit_asserts):
                # a cut: proved from what is known at the loop exit, then usable by everything after the loop
                xg = dict(ghost)
                xg["_i"] = xg.get("_n", xg.get("_i"))
                self.oblige(st_out, "exit-assert", f"#{ordn}.{i}", self.spec_goal(cl, st_out, xg),
                            descr=f"at loop exit: {cl!r}", node=s)
                st_out = st_out.assume(self.spec_bool(cl, st_out, xg))
            yield from self.exec_block(s.orelse, st_out) if s.orelse else [Outcome("ok", st_out)]

    # ------------------------------------------------------------------ try / with
    def st_Try(self, s, st):
        body_outs = self.exec_block(s.body, st)
        after_handlers = []
        for o in body_outs:
            if o.kind == "ok":
                after_handlers += self.exec_block(s.orelse, o.st) if s.orelse else [o]
            elif o.kind == "exc":
                after_handlers += self.handle(s, o)
            else:
                after_handlers.append(o)
        if not s.finalbody:
            yield from after_handlers
            return
        for o in after_handlers:
            for f in self.exec_block(s.finalbody, o.st):
                if f.kind == "ok":
                    yield Outcome(o.kind, f.st, o.val)
                else:
                    yield f     # finally overrides

    def handle(self, s: ast.Try, o: Outcome) -> list[Outcome]:
        exc: Exc = o.val
        st = o.st
        outs = []
        for h in s.handlers:
            names = []
            if h.type is None:
                names = ["BaseException"]
            else:
                for n in (h.type.elts if isinstance(h.type, ast.Tuple) else [h.type]):
                    names.append(n.attr if isinstance(n, ast.Attribute) else n.id)
            verdicts = [exc_is_subclass(exc.name, b) for b in names]
            if any(v is True for v in verdicts):
                outs += self.run_handler(h, st, exc)
                return outs
            if any(v is None for v in verdicts):
                # arbitrary exception: may or may not match this handler
                outs += self.run_handler(h, st, exc)
                continue
        outs.append(Outcome("exc", st, exc))
        return outs

    def run_handler(self, h, st, exc):
        s2 = st.fork()
        s2.ghost["$handling"] = exc
        if h.name:
            s2.frame.locals[h.name] = V(TOpaque("exc:" + exc.name), [z3.Const(fresh_name("exc"), zsort(TOpaque("exc:" + exc.name)))])
        res = []
        for o in self.exec_block(h.body, s2):
            o2 = Outcome(o.kind, o.st.fork(), o.val)
            o2.st.ghost.pop("$handling", None)
            if "$handling" in st.ghost:
                o2.st.ghost["$handling"] = st.ghost["$handling"]
            res.append(o2)
        return res

    def st_With(self, s, st):
        if len(s.items) != 1:
            inner = ast.With(items=s.items[1:], body=s.body, lineno=s.lineno, col_offset=s.col_offset)
            outer = ast.With(items=s.items[:1], body=[inner], lineno=s.lineno, col_offset=s.col_offset)
            yield from self.st_With(outer, st)
            return
        item = s.items[0]
        ce = item.context_expr
        if isinstance(ce, ast.Call) and isinstance(ce.func, ast.Attribute) and ce.func.attr == "suppress" \
                and isinstance(ce.func.value, ast.Name) and ce.func.value.id == "contextlib":
            # contextlib.suppress(E1, ...): exceptions of the listed classes raised by the body are swallowed
            names = [a.attr if isinstance(a, ast.Attribute) else getattr(a, "id", "?") for a in ce.args]
            for o in self.exec_block(s.body, st):
                if o.kind == "exc":
                    verdicts = [exc_is_subclass(o.val.name, b) for b in names]
                    if any(v is True for v in verdicts):
                        yield Outcome("ok", o.st)
                        continue
                    if any(v is None for v in verdicts):
                        yield Outcome("ok", o.st)
                yield o
            return
        # generator context manager defined in the repository?
        gen = self.resolve_contextmanager(ce, st)
        if gen is not None and gen[0] == "$contract":
            yield from self.with_contract_cm(s, st, gen, ce)
            return
        if gen is not None:
            yield from self.with_generator(s, st, gen, ce)
            return
        for st1, cm in self.ev(ce, st):
            cm = self.as_value(cm)
            if isinstance(cm.t, TRef) and self.ct.method(cm.t.cls, "__enter__") and self.ct.method(cm.t.cls, "__exit__"):
                yield from self.with_object(s, st1, cm, item)
            elif isinstance(cm.t, TOpaque):
                self.note_assumed(f"context manager {ast.unparse(ce)} (opaque: enter/exit without effect, does not swallow)")
                s2 = st1
                if item.optional_vars is not None:
                    s2 = self.store(s2, item.optional_vars, fresh(TOpaque("unk"), "cmv"))
                yield from self.exec_block(s.body, s2)
            else:
                raise EngineError(f"with on {cm.t}")

    def with_object(self, s, st, cm, item):
        ent = self.ct.method(cm.t.cls, "__enter__")
        ext = self.ct.method(cm.t.cls, "__exit__")
        fr_e = FuncRef(self.ct.classes[ent[0]].module, f"{ent[0]}.__enter__", bound_self=cm, cls=cm.t.cls)
        fr_x = FuncRef(self.ct.classes[ext[0]].module, f"{ext[0]}.__exit__", bound_self=cm, cls=cm.t.cls)
        for st1, v in self.call_function(st, fr_e, [], {}, s):
            s2 = st1
            if item.optional_vars is not None:
                s2 = self.store(s2, item.optional_vars, v)
            for o in self.exec_block(s.body, s2):
                none3 = [NONEV, NONEV, NONEV]
                if o.kind == "exc":
                    ev = V(TOpaque("exc:" + o.val.name), [z3.Const(fresh_name("exc"), zsort(TOpaque("exc:" + o.val.name)))])
                    args = [fresh(TOpaque("type"), "et"), ev, fresh(TOpaque("tb"), "tb")]
                else:
                    args = none3
                # coerce to the declared parameter types where possible happens inside call_function
                for st3, r in self.call_function(o.st, fr_x, args, {}, s):
                    if o.kind == "exc":
                        sw = truth(self.as_value(r)) if isinstance(r, V) else z3.BoolVal(False)
                        a, b = st3.assume(sw), st3.assume(z3.Not(sw))
                        if self.feasible(a):
                            yield Outcome("ok", a)
                        if self.feasible(b):
                            yield Outcome("exc", b, o.val)
                    else:
                        yield Outcome(o.kind, st3, o.val)

    def resolve_contextmanager(self, ce, st):
        """If ce is a call of a repository function decorated with @contextmanager that is to be
        inlined, return (fdef, module, cls, target, bound_self_node)."""
        if not isinstance(ce, ast.Call):
            return None
        f = ce.func
        try:
            self.excs.append([])
            self.spec += 1
            try:
                res = list(self.ev(f, st))
            finally:
                self.spec -= 1
                self.excs.pop()
        except EngineError:
            return None
        if len(res) != 1 or not isinstance(res[0][1], FuncRef):
            return None
        fr = res[0][1]
        qual, module = fr.qual, fr.module
        cls = None
        if "." in qual:
            cls, mname = qual.rsplit(".", 1)
            m = self.ct.method(fr.cls or cls, mname) if (fr.cls or cls) in self.ct.classes else None
            if m is not None:
                cls = m[0]
                module = self.ct.classes[cls].module
                qual = f"{cls}.{mname}"
        try:
            fdef = extract.find_def(module, qual)
        except LookupError:
            return None
        decos = [ast.unparse(d) for d in fdef.decorator_list]
        if not any(d.endswith("contextmanager") for d in decos):
            return None
        con = REG.contracts.get(f"{module}:{qual}")
        if con is not None and con.mode != "inline":
            return ("$contract", con, fdef, module, cls, f"{module}:{qual}", fr)
        return fdef, module, cls, f"{module}:{qual}", fr

    def with_contract_cm(self, s, st, gen, ce):
        """`with f(...): body` where the generator context manager f has a contract: entry establishes the
        `at_yield` clauses (after havocking `modifies`), the body runs, the exit havocs `modifies` again and
        establishes `ensures` (normal end of the body) or `ensures_on_raise` (the body raised; the exception
        propagates - these context managers do not swallow)."""
        _, con, fdef, module, cls, target, fr = gen
        self.used_contracts.add(con.target)
        if ce.args or ce.keywords:
            raise EngineError("contract-based context manager with arguments")
        for st1, fnv in self.ev(ce.func, st):
            locs = {}
            if fnv.bound_self is not None:
                locs["self"] = fnv.bound_self
            pre = st1.fork()
            pre.frames.append(Frame(module, cls, target, fdef, locs))
            pre.old = None
            k = self.ordinal("pre", s)
            for i, r in enumerate(con.requires):
                self.oblige(st1, f"pre@{target.split(':')[1]}", f"#{k}.{i}", self.spec_goal(r, pre),
                            descr=f"precondition {r!r} of {target}", node=s)
                pre.pc.append(self.spec_bool(r, pre))
            ent = pre.fork()
            ent.old = pre
            for lv in con.modifies:
                ent, _wb = self.havoc_lvalue(ent, lv, {})
            for cl in con.at_yield:
                ent.pc.append(self.spec_bool(cl, ent))
            body_st = ent.fork()
            body_st.frames.pop()
            body_st.old = st1.old
            if s.items[0].optional_vars is not None:
                body_st = self.store(body_st, s.items[0].optional_vars, NONEV)
            for o in self.exec_block(s.body, body_st):
                ex = o.st.fork()
                ex.frames.append(Frame(module, cls, target, fdef, locs))
                ex.old = pre
                for lv in con.modifies:
                    ex, _wb = self.havoc_lvalue(ex, lv, {})
                clauses = con.ensures_on_raise if o.kind == "exc" else con.ensures
                for cl in clauses:
                    ex.pc.append(self.spec_bool(cl, ex))
                ex.frames.pop()
                ex.old = st1.old
                if self.feasible(ex):
                    yield Outcome(o.kind, ex, o.val)

    def with_generator(self, s, st, gen, ce):
        """with f(...): body  where f is a @contextmanager generator: the generator body is executed around
        the with-body; an exception from the with-body is raised at the yield."""
        fdef, module, cls, target, fr = gen
        for st1, fnv in self.ev(ce.func, st):
            def after_args(st2, args, kw):
                binding, nodes = self.bind_params(fdef, args, kw, fnv.bound_self, ce, st2)
                binding = self.materialise_defaults(st2, binding, module, cls, target, fdef)
                s3 = st2.fork()
                s3.frames.append(Frame(module, cls, target, fdef, binding))
                self.inlined.add(target)
                yield from self.run_gen_cm(fdef.body, s3, s, len(st2.frames))
            # evaluate arguments
            def go(i, stx, acc):
                if i == len(ce.args):
                    yield from after_args(stx, acc, {})
                    return
                for sty, v in self.ev(ce.args[i], stx):
                    yield from go(i + 1, sty, acc + [v])
            for o in go(0, st1, []):
                # pop the generator frame
                if len(o.st.frames) > len(st.frames):
                    o2s = o.st.fork()
                    o2s.frames.pop()
                    o = Outcome(o.kind, o2s, o.val)
                yield o

    def run_gen_cm(self, gbody, gst, with_stmt, caller_depth):
        """Execute generator body statements; the single `yield` statement is replaced by the with-body."""
        self._cm_stack.append((with_stmt, caller_depth))
        try:
            outs = self.exec_block(gbody, gst)
        finally:
            self._cm_stack.pop()
        for o in outs:
            if o.kind in ("ok", "ret"):
                if not o.st.ghost.get("$yielded"):
                    raise EngineError("context-manager generator path without yield")
                s2 = o.st.fork()
                pend = s2.ghost.pop("$cm_pending", None)
                s2.ghost.pop("$yielded", None)
                if pend is not None:
                    yield Outcome(pend[0], s2, pend[1])
                else:
                    yield Outcome("ok", s2)
            else:
                s2 = o.st.fork()
                pend = s2.ghost.pop("$cm_pending", None)
                s2.ghost.pop("$yielded", None)
                if o.kind == "exc" and o.val.name == "GeneratorExit" and pend is not None:
                    yield Outcome(pend[0], s2, pend[1])
                else:
                    yield Outcome(o.kind, s2, o.val)

    def exec_yield_stmt(self, s, st):
        """`yield` inside a context-manager generator: run the with-body here."""
        if getattr(self, "_standalone_cm", False) and len(st.frames) == 1:
            # the generator itself is under verification: the with-body is arbitrary code that leaves the tracked
            # state alone and either completes or raises any exception at the yield
            if st.ghost.get("$yielded"):
                raise EngineError("context-manager generator yields twice on a path")
            back = st.fork()
            back.ghost["$yielded"] = True
            for cl in getattr(self, "_cm_at_yield", []):
                self.oblige(back, "at-yield", f"#{self.ordinal('yield', s)}", self.spec_goal(cl, back),
                            descr=f"while the with-body runs: {cl!r}", node=s)
            yield Outcome("ok", back)
            yield Outcome("exc", back, Exc("$any", msg="raised by the with-body at the yield"))
            return
        if not self._cm_stack:
            raise EngineError("yield outside a context-manager generator")
        with_stmt, depth = self._cm_stack[-1]
        # run the with-body in the caller's frame
        gframes = st.frames[depth:]
        s2 = st.fork()
        s2.frames = s2.frames[:depth]
        item = with_stmt.items[0]
        if item.optional_vars is not None:
            yv = NONEV
            if s.value.value is not None:
                (s2, yv), = self._single(s.value.value, st)
                s2 = s2.fork()
                s2.frames = s2.frames[:depth]
            s2 = self.store(s2, item.optional_vars, yv)
        saved = self._cm_stack
        self._cm_stack = saved[:-1]
        try:
            outs = self.exec_block(with_stmt.body, s2)
        finally:
            self._cm_stack = saved
        for o in outs:
            back = o.st.fork()
            back.frames = back.frames + [f.copy() for f in gframes]
            back.ghost["$yielded"] = True
            if o.kind == "ok":
                yield Outcome("ok", back)
            elif o.kind == "exc":
                # the exception is raised at the yield inside the generator
                yield Outcome("exc", back, o.val)
            else:
                # return/break/continue in the with-body: generator is closed (GeneratorExit at the yield):
                # finally-blocks run; modelled as an exception-like unwinding that is re-issued afterwards
                back.ghost["$cm_pending"] = (o.kind, o.val)
                yield Outcome("exc", back, Exc("GeneratorExit"))


def _consts(term):
    out, todo, seen = [], [term], set()
    while todo:
        t = todo.pop()
        if t.get_id() in seen:
            continue
        seen.add(t.get_id())
        if z3.is_const(t) and t.decl().kind() == z3.Z3_OP_UNINTERPRETED:
            out.append(t)
        elif z3.is_app(t):
            todo.extend(t.children())
        elif z3.is_quantifier(t):
            todo.append(t.body())
    return out
