"""Symbolic values: construction, coercion, equality, truthiness, float (extended real) arithmetic."""
from __future__ import annotations

import itertools
import math

import z3

from .types import (BOOL, FLOAT, FP, INT, NONE, STR, FP64, RNE, T, TBool, TFloat, TFP, TInt, TMap, TNone,
                    TOpaque, TOpt, TRef, TSeq, TSet, TStr, TTuple, comps, zsort)

_ctr = itertools.count()


class EngineError(Exception):
    """The function is outside the supported subset or the engine cannot type something."""


class V:
    __slots__ = ("t", "zs")

    def __init__(self, t: T, zs):
        self.t = t
        self.zs = list(zs)
        assert len(self.zs) == len(comps(t)), (t, zs)

    @property
    def z(self):
        assert len(self.zs) == 1, self.t
        return self.zs[0]

    def __repr__(self):
        return f"V<{self.t}>({', '.join(str(z) for z in self.zs)})"


def fresh_name(base="v"):
    return f"{base}!{next(_ctr)}"


def fresh(t: T, base="v") -> V:
    nm = fresh_name(base)
    return V(t, [z3.Const(nm + ("_" + s if s else ""), so) for s, so in comps(t)])


def mk_int(n) -> V:
    return V(INT, [z3.IntVal(n) if isinstance(n, int) else n])


def mk_bool(b) -> V:
    return V(BOOL, [z3.BoolVal(b) if isinstance(b, bool) else b])


def mk_str(s) -> V:
    return V(STR, [z3.StringVal(s) if isinstance(s, str) else s])


def mk_float(x) -> V:
    if isinstance(x, (int, float)):
        if isinstance(x, float) and math.isnan(x):
            return V(FLOAT, [z3.IntVal(2), z3.RealVal(0)])
        if isinstance(x, float) and math.isinf(x):
            return V(FLOAT, [z3.IntVal(1 if x > 0 else -1), z3.RealVal(0)])
        if isinstance(x, float):
            n, d = x.as_integer_ratio()
            return V(FLOAT, [z3.IntVal(0), z3.Q(n, d)])
        return V(FLOAT, [z3.IntVal(0), z3.RealVal(x)])
    return V(FLOAT, [z3.IntVal(0), x])  # a finite real term


def mk_fp(x) -> V:
    if isinstance(x, (int, float)):
        return V(FP, [z3.FPVal(float(x), FP64)])
    return V(FP, [x])


NONEV = V(NONE, [])


def mk_tuple(items: list[V]) -> V:
    return V(TTuple([i.t for i in items]), [z for i in items for z in i.zs])


def tuple_items(v: V) -> list[V]:
    out, pos = [], 0
    for it in v.t.items:
        n = len(comps(it))
        out.append(V(it, v.zs[pos:pos + n]))
        pos += n
    return out


def opt_some(v: V) -> V:
    if isinstance(v.t, TOpt):
        return v
    return V(TOpt(v.t), [z3.BoolVal(False)] + v.zs)


def opt_none(t: T) -> V:
    inner = t.inner if isinstance(t, TOpt) else t
    d = default(inner)
    return V(TOpt(inner), [z3.BoolVal(True)] + d.zs)


def opt_isnone(v: V):
    return v.zs[0]


def opt_val(v: V) -> V:
    return V(v.t.inner, v.zs[1:])


def default(t: T) -> V:
    """Some fixed value of the type (used as payload of None)."""
    zs = []
    for _, so in comps(t):
        zs.append(_default_sort(so))
    return V(t, zs)


def _default_sort(so):
    if so == z3.IntSort():
        return z3.IntVal(0)
    if so == z3.RealSort():
        return z3.RealVal(0)
    if so == z3.BoolSort():
        return z3.BoolVal(False)
    if so == z3.StringSort():
        return z3.StringVal("")
    if so == FP64:
        return z3.FPVal(0.0, FP64)
    if isinstance(so, z3.ArraySortRef):
        return z3.K(so.domain(), _default_sort(so.range()))
    return z3.Const("dflt_" + str(so), so)


# ---------------------------------------------------------------------------------------
# coercion / unification


def is_num(t):
    return isinstance(t, (TInt, TBool, TFloat, TFP))


def coerce(v: V, t: T) -> V:
    """Coerce v to type t (None->Optional, T->Optional[T], bool->int->float)."""
    if v.t == t:
        return v
    if isinstance(t, TOpt):
        if isinstance(v.t, TNone):
            return opt_none(t)
        if isinstance(v.t, TOpt):
            inner = coerce(opt_val(v), t.inner)
            return V(t, [v.zs[0]] + inner.zs)
        return opt_some(coerce(v, t.inner))
    if isinstance(t, TInt) and isinstance(v.t, TBool):
        return mk_int(z3.If(v.z, 1, 0))
    if isinstance(t, TFloat) and isinstance(v.t, (TInt, TBool)):
        return mk_float(z3.ToReal(coerce(v, INT).z))
    if isinstance(t, TFP) and isinstance(v.t, (TInt, TBool)):
        raise EngineError("int->fp coercion must go through float_of_int")
    if isinstance(t, TSeq) and isinstance(v.t, TSeq):
        if len(comps(v.t.elem)) == 0 or v.t.elem == t.elem:
            return V(t, [v.zs[0]] + (v.zs[1:] if v.t.elem == t.elem else default(t).zs[1:]))
    if isinstance(t, TSet) and isinstance(v.t, TSet) and isinstance(v.t.elem, TOpaque) and v.t.elem.nm == "$empty":
        return V(t, [z3.K(zsort(t.elem), z3.BoolVal(False))])
    if isinstance(t, TMap) and isinstance(v.t, TMap) and isinstance(v.t.k, TOpaque) and v.t.k.nm == "$empty":
        return empty_map(t)
    if isinstance(t, TTuple) and isinstance(v.t, TTuple) and len(t.items) == len(v.t.items):
        items = [coerce(i, ti) for i, ti in zip(tuple_items(v), t.items)]
        return V(t, [z for i in items for z in i.zs])
    if isinstance(t, TRef) and isinstance(v.t, TRef):
        return V(t, v.zs)       # same reference under another static type (dynamic type lives in the type tag)
    if isinstance(v.t, TOpaque) and v.t.nm == "$empty":
        return default(t)       # an element of a container known to be empty: never actually exists
    if isinstance(t, TOpaque) and isinstance(v.t, TOpaque) and "$empty" not in (t.nm, v.t.nm):
        # two labels for values of unknown type: an (uninterpreted, equality-preserving) re-labelling
        f = z3.Function(f"relabel_{v.t.nm}_to_{t.nm}".replace(".", "_").replace(":", "_"), zsort(v.t), zsort(t))
        return V(t, [f(v.z)])
    raise EngineError(f"cannot coerce {v.t} to {t}")


def join_type(a: T, b: T) -> T:
    if a == b:
        return a
    if isinstance(a, TNone):
        return b if isinstance(b, TOpt) else TOpt(b)
    if isinstance(b, TNone):
        return a if isinstance(a, TOpt) else TOpt(a)
    if isinstance(a, TOpt) or isinstance(b, TOpt):
        ia = a.inner if isinstance(a, TOpt) else a
        ib = b.inner if isinstance(b, TOpt) else b
        return TOpt(join_type(ia, ib))
    if is_num(a) and is_num(b):
        if isinstance(a, TFP) or isinstance(b, TFP):
            return FP
        if isinstance(a, TFloat) or isinstance(b, TFloat):
            return FLOAT
        return INT
    if isinstance(a, TSet) and isinstance(b, TSet):
        if isinstance(a.elem, TOpaque) and a.elem.nm == "$empty":
            return b
        if isinstance(b.elem, TOpaque) and b.elem.nm == "$empty":
            return a
    if isinstance(a, TMap) and isinstance(b, TMap):
        if isinstance(a.k, TOpaque) and a.k.nm == "$empty":
            return b
        if isinstance(b.k, TOpaque) and b.k.nm == "$empty":
            return a
    if isinstance(a, TSeq) and isinstance(b, TSeq):
        if len(comps(a.elem)) == 0:
            return b
        if len(comps(b.elem)) == 0:
            return a
    if isinstance(a, TTuple) and isinstance(b, TTuple) and len(a.items) == len(b.items):
        return TTuple([join_type(x, y) for x, y in zip(a.items, b.items)])
    raise EngineError(f"no common type for {a} and {b}")


def unify(a: V, b: V):
    t = join_type(a.t, b.t)
    return coerce(a, t), coerce(b, t)


def ite(c, a: V, b: V) -> V:
    a, b = unify(a, b)
    if z3.is_true(c):
        return a
    if z3.is_false(c):
        return b
    return V(a.t, [z3.If(c, x, y) for x, y in zip(a.zs, b.zs)])


# ---------------------------------------------------------------------------------------
# floats as extended reals

K_FIN, K_PINF, K_NINF, K_NAN = 0, 1, -1, 2


def f_kind(v):
    return v.zs[0]


def f_r(v):
    return v.zs[1]


def f_isnan(v):
    return f_kind(v) == K_NAN


def f_isinf(v):
    return z3.Or(f_kind(v) == K_PINF, f_kind(v) == K_NINF)


def f_isfin(v):
    return f_kind(v) == K_FIN


def f_wf(v):
    """Well-formedness of an extended real (kind in range; payload 0 when not finite)."""
    k = f_kind(v)
    return z3.And(z3.Or(k == 0, k == 1, k == -1, k == 2), z3.Implies(k != 0, f_r(v) == 0))


def f_mk(kind, r) -> V:
    return V(FLOAT, [kind, r])


def f_lt(a, b):
    ka, kb, ra, rb = f_kind(a), f_kind(b), f_r(a), f_r(b)
    return z3.And(ka != K_NAN, kb != K_NAN,
                  z3.Or(z3.And(ka == K_FIN, kb == K_FIN, ra < rb),
                        z3.And(ka == K_NINF, kb != K_NINF),
                        z3.And(kb == K_PINF, ka != K_PINF)))


def f_le(a, b):
    return z3.And(f_kind(a) != K_NAN, f_kind(b) != K_NAN, z3.Not(f_lt(b, a)))


def f_eq(a, b):
    ka, kb = f_kind(a), f_kind(b)
    return z3.And(ka != K_NAN, kb != K_NAN, ka == kb, z3.Implies(ka == K_FIN, f_r(a) == f_r(b)))


def f_neg(a):
    k = f_kind(a)
    return f_mk(z3.If(k == K_PINF, z3.IntVal(K_NINF), z3.If(k == K_NINF, z3.IntVal(K_PINF), k)), -f_r(a))


def f_abs(a):
    k = f_kind(a)
    r = f_r(a)
    return f_mk(z3.If(k == K_NINF, z3.IntVal(K_PINF), k), z3.If(r < 0, -r, r))


def f_add(a, b):
    ka, kb = f_kind(a), f_kind(b)
    nan = z3.Or(ka == K_NAN, kb == K_NAN, z3.And(ka == K_PINF, kb == K_NINF), z3.And(ka == K_NINF, kb == K_PINF))
    kind = z3.If(nan, z3.IntVal(K_NAN), z3.If(ka != K_FIN, ka, kb))
    return f_mk(kind, z3.If(kind == K_FIN, f_r(a) + f_r(b), z3.RealVal(0)))


def f_sub(a, b):
    return f_add(a, f_neg(b))


def _sgn(v):
    """Sign in {-1,0,1} of an extended real that is not NaN."""
    k, r = f_kind(v), f_r(v)
    return z3.If(k == K_PINF, 1, z3.If(k == K_NINF, -1, z3.If(r > 0, 1, z3.If(r < 0, -1, 0))))


def f_mul(a, b):
    ka, kb = f_kind(a), f_kind(b)
    sa, sb = _sgn(a), _sgn(b)
    anyinf = z3.Or(ka == K_PINF, ka == K_NINF, kb == K_PINF, kb == K_NINF)
    nan = z3.Or(ka == K_NAN, kb == K_NAN, z3.And(anyinf, z3.Or(sa == 0, sb == 0)))
    kind = z3.If(nan, z3.IntVal(K_NAN), z3.If(anyinf, z3.If(sa * sb > 0, z3.IntVal(K_PINF), z3.IntVal(K_NINF)),
                                                z3.IntVal(K_FIN)))
    return f_mk(kind, z3.If(kind == K_FIN, f_r(a) * f_r(b), z3.RealVal(0)))


def f_div(a, b):
    """a / b assuming b is not zero (the caller raises ZeroDivisionError for a zero divisor)."""
    ka, kb = f_kind(a), f_kind(b)
    ainf = z3.Or(ka == K_PINF, ka == K_NINF)
    binf = z3.Or(kb == K_PINF, kb == K_NINF)
    nan = z3.Or(ka == K_NAN, kb == K_NAN, z3.And(ainf, binf))
    sa, sb = _sgn(a), _sgn(b)
    kind = z3.If(nan, z3.IntVal(K_NAN),
                 z3.If(ainf, z3.If(sa * sb > 0, z3.IntVal(K_PINF), z3.IntVal(K_NINF)), z3.IntVal(K_FIN)))
    r = z3.If(z3.And(kind == K_FIN, kb == K_FIN), f_r(a) / f_r(b), z3.RealVal(0))
    return f_mk(kind, r)


def f_iszero(a):
    return z3.And(f_kind(a) == K_FIN, f_r(a) == 0)


# ---------------------------------------------------------------------------------------
# containers


def empty_set(elem: T) -> V:
    return V(TSet(elem), [z3.K(zsort(elem), z3.BoolVal(False))])


def empty_map(t: TMap) -> V:
    zs = [z3.K(zsort(t.k), z3.BoolVal(False))]
    for _, so in comps(t)[1:]:
        zs.append(_default_sort(so))
    return V(t, zs)


def empty_seq(elem: T) -> V:
    t = TSeq(elem)
    return V(t, [z3.IntVal(0)] + [_default_sort(so) for _, so in comps(t)[1:]])


def map_keys(m: V) -> V:
    return V(TSet(m.t.k), [m.zs[0]])


def map_get(m: V, k: V) -> V:
    nv = len(comps(m.t.v))
    return V(m.t.v, [z3.Select(a, k.z) for a in m.zs[1:1 + nv]])


def map_has(m: V, k: V):
    return z3.Select(m.zs[0], k.z)


def map_rank(m: V):
    assert m.t.ordered
    return m.zs[-1]


def map_put(m: V, k: V, v: V) -> V:
    v = coerce(v, m.t.v)
    nv = len(comps(m.t.v))
    zs = [z3.Store(m.zs[0], k.z, z3.BoolVal(True))]
    zs += [z3.Store(a, k.z, x) for a, x in zip(m.zs[1:1 + nv], v.zs)]
    if m.t.ordered:
        # new keys get a rank larger than every existing key's rank: ghost "next rank" is not stored;
        # the executor handles ordered maps through dedicated helpers (see engine.omap_put).
        zs.append(m.zs[-1])
    return V(m.t, zs)


def map_del(m: V, k: V) -> V:
    return V(m.t, [z3.Store(m.zs[0], k.z, z3.BoolVal(False))] + m.zs[1:])


def seq_len(s: V):
    return s.zs[0]


def seq_at(s: V, i) -> V:
    return V(s.t.elem, [z3.Select(a, i) for a in s.zs[1:]])


def seq_append(s: V, v: V) -> V:
    v = coerce(v, s.t.elem)
    n = s.zs[0]
    return V(s.t, [n + 1] + [z3.Store(a, n, x) for a, x in zip(s.zs[1:], v.zs)])


def seq_set(s: V, i, v: V) -> V:
    v = coerce(v, s.t.elem)
    return V(s.t, [s.zs[0]] + [z3.Store(a, i, x) for a, x in zip(s.zs[1:], v.zs)])


def seq_from_list(elem: T, items: list[V]) -> V:
    s = empty_seq(elem)
    for it in items:
        s = seq_append(s, it)
    return V(s.t, [z3.IntVal(len(items))] + s.zs[1:])


# ---------------------------------------------------------------------------------------
# structural sameness and Python equality


def same(a: V, b: V):
    """All components equal (identity of values; NaN same as NaN)."""
    a, b = unify(a, b)
    return _same_t(a.t, a.zs, b.zs)


def _same_t(t, za, zb):
    if isinstance(t, TNone):
        return z3.BoolVal(True)
    if t.scalar:
        return za[0] == zb[0]
    if isinstance(t, TFloat):
        return z3.And(za[0] == zb[0], za[1] == zb[1])
    if isinstance(t, TOpt):
        return z3.And(za[0] == zb[0], z3.Implies(z3.Not(za[0]), _same_t(t.inner, za[1:], zb[1:])))
    if isinstance(t, TTuple):
        parts, pos = [], 0
        for it in t.items:
            n = len(comps(it))
            parts.append(_same_t(it, za[pos:pos + n], zb[pos:pos + n]))
            pos += n
        return z3.And(*parts) if parts else z3.BoolVal(True)
    if isinstance(t, TSet):
        return za[0] == zb[0]
    if isinstance(t, TMap):
        k = z3.Const(fresh_name("k"), zsort(t.k))
        nv = len(comps(t.v))
        body = _same_t(t.v, [z3.Select(a, k) for a in za[1:1 + nv]], [z3.Select(a, k) for a in zb[1:1 + nv]])
        conj = [za[0] == zb[0]]
        if not z3.is_true(body):
            conj.append(z3.ForAll([k], z3.Implies(z3.Select(za[0], k), body)))
        if t.ordered:
            k2 = z3.Const(fresh_name("k"), zsort(t.k))
            conj.append(z3.ForAll([k, k2], z3.Implies(
                z3.And(z3.Select(za[0], k), z3.Select(za[0], k2)),
                (z3.Select(za[-1], k) < z3.Select(za[-1], k2)) == (z3.Select(zb[-1], k) < z3.Select(zb[-1], k2)))))
        return z3.And(*conj)
    if isinstance(t, TSeq):
        i = z3.Int(fresh_name("i"))
        body = _same_t(t.elem, [z3.Select(a, i) for a in za[1:]], [z3.Select(a, i) for a in zb[1:]])
        conj = [za[0] == zb[0]]
        if not z3.is_true(body):
            conj.append(z3.ForAll([i], z3.Implies(z3.And(0 <= i, i < za[0]), body)))
        return z3.And(*conj)
    raise EngineError(f"same: {t}")


def py_eq(a: V, b: V):
    """Python's == on values of builtin types (refs and opaque: identity — class __eq__ is handled
    by the executor before it gets here)."""
    if isinstance(a.t, TNone) and isinstance(b.t, TNone):
        return z3.BoolVal(True)
    try:
        a, b = unify(a, b)
    except EngineError:
        # values of unrelated builtin types compare unequal in Python
        return z3.BoolVal(False)
    return _eq_t(a.t, a.zs, b.zs)


def _eq_t(t, za, zb):
    if isinstance(t, TFloat):
        return f_eq(V(FLOAT, za), V(FLOAT, zb))
    if isinstance(t, TFP):
        return z3.fpEQ(za[0], zb[0])
    if isinstance(t, TOpt):
        return z3.And(za[0] == zb[0], z3.Implies(z3.Not(za[0]), _eq_t(t.inner, za[1:], zb[1:])))
    if isinstance(t, TTuple):
        parts, pos = [], 0
        for it in t.items:
            n = len(comps(it))
            parts.append(_eq_t(it, za[pos:pos + n], zb[pos:pos + n]))
            pos += n
        return z3.And(*parts) if parts else z3.BoolVal(True)
    if isinstance(t, TSeq) and isinstance(t.elem, (TFloat, TFP)):
        i = z3.Int(fresh_name("i"))
        body = _eq_t(t.elem, [z3.Select(a, i) for a in za[1:]], [z3.Select(a, i) for a in zb[1:]])
        return z3.And(za[0] == zb[0], z3.ForAll([i], z3.Implies(z3.And(0 <= i, i < za[0]), body)))
    return _same_t(t, za, zb)


def truth(v: V):
    t = v.t
    if isinstance(t, TBool):
        return v.z
    if isinstance(t, TInt):
        return v.z != 0
    if isinstance(t, TFloat):
        return z3.Not(f_iszero(v))
    if isinstance(t, TFP):
        return z3.Not(z3.fpIsZero(v.z))
    if isinstance(t, TStr):
        return z3.Length(v.z) > 0
    if isinstance(t, TNone):
        return z3.BoolVal(False)
    if isinstance(t, TOpt):
        return z3.And(z3.Not(v.zs[0]), truth(opt_val(v)))
    if isinstance(t, TRef):
        return z3.BoolVal(True)
    if isinstance(t, TOpaque):
        # truthiness of a value we know nothing about: an uninterpreted predicate of the value
        return z3.Function("truth_" + t.nm.replace(".", "_").replace(":", "_").replace("$", "_"), zsort(t),
                           z3.BoolSort())(v.z)
    if isinstance(t, TSet):
        return v.zs[0] != z3.K(zsort(t.elem), z3.BoolVal(False))
    if isinstance(t, TMap):
        return v.zs[0] != z3.K(zsort(t.k), z3.BoolVal(False))
    if isinstance(t, TSeq):
        return v.zs[0] > 0
    if isinstance(t, TTuple):
        return z3.BoolVal(len(t.items) > 0)
    raise EngineError(f"truth of {t}")
