"""Type-directed small-scope input enumeration (counterexample finder for refuted/undecided obligations and
the bounded stand-in).  Produces decoded values in the same format as replay.Decoder."""
from __future__ import annotations

import itertools
import math
import random

from .replay import Obj
from .types import (TBool, TEnum, TFloat, TFP, TInt, TMap, TNone, TOpaque, TOpt, TRef, TSeq, TSet, TStr, TTuple)

SAMPLERS: dict = {}     # class name -> fn(scope, cls) -> Obj   (well-formed instances for the small-scope search)


def sampler(cls_name):
    def deco(fn):
        SAMPLERS[cls_name] = fn
        return fn
    return deco


INTS = [0, 1, 2, -1]
FLOATS = [0.0, 1.0, 0.5, 2.0, math.inf, math.nan, -1.0]
STRS = ["", "a", "_a", "__a", "ab"]


class Scope:
    def __init__(self, engine, seed=0, ints=None, floats=None, keys=(0, 1, 2), maxlen=2, overrides=None):
        self.e = engine
        self.rnd = random.Random(seed)
        self.ints = ints or INTS
        self.floats = floats or FLOATS
        self.keys = list(keys)
        self.maxlen = maxlen
        self.overrides = overrides or {}
        self.next_ref = 1

    def sample(self, t, depth=0, path=""):
        """A random value of type t (decoded format)."""
        r = self.rnd
        if path in self.overrides:
            return self.overrides[path](r)
        if isinstance(t, TNone):
            return None
        if isinstance(t, TInt):
            return r.choice(self.ints)
        if isinstance(t, TBool):
            return r.random() < 0.5
        if isinstance(t, (TFloat, TFP)):
            return r.choice(self.floats)
        if isinstance(t, TStr):
            return r.choice(STRS)
        if isinstance(t, TEnum):
            return ("$enum", t.nm, r.choice(t.members))
        if isinstance(t, TOpaque):
            if f"opaque:{t.nm}" in SAMPLERS:
                return ("$py", SAMPLERS[f"opaque:{t.nm}"](self))
            return ("$opaque", t.nm, r.choice(["o0", "o1"]))
        if isinstance(t, TOpt):
            return None if r.random() < 0.3 else self.sample(t.inner, depth, path)
        if isinstance(t, TTuple):
            return tuple(self.sample(x, depth + 1, f"{path}.{i}") for i, x in enumerate(t.items))
        if isinstance(t, TSet):
            if isinstance(t.elem, TInt):
                return ("$set", [k for k in self.keys if r.random() < 0.5])
            n = r.randint(0, self.maxlen)
            return ("$set", _dedupe([self.sample(t.elem, depth + 1, path + "[]") for _ in range(n)]))
        if isinstance(t, TMap):
            if isinstance(t.k, TInt):
                ks = [k for k in self.keys if r.random() < 0.5]
            else:
                ks = _dedupe([self.sample(t.k, depth + 1, path + ".key") for _ in range(r.randint(0, self.maxlen))])
            r.shuffle(ks)
            return ("$dict", [(k, self.sample(t.v, depth + 1, path + "[]")) for k in ks])
        if isinstance(t, TSeq):
            return [self.sample(t.elem, depth + 1, path + "[]") for _ in range(r.randint(0, self.maxlen))]
        if isinstance(t, TRef):
            if depth > 3:
                raise ValueError("object nesting too deep")
            subs = [c for c in self.e.ct.subclasses(t.cls)] or [t.cls]
            cls = r.choice(subs)
            if cls in SAMPLERS:
                return SAMPLERS[cls](self, cls)
            o = Obj(cls, self.next_ref)
            self.next_ref += 1
            for f, (dc, ft) in self.e.ct.all_fields(cls).items():
                if f in self.e.ct.classes[dc].ghost:
                    continue
                try:
                    o.fields[f] = self.sample(ft, depth + 1, f"{cls}.{f}")
                except ValueError:
                    o.fields[f] = ("$undecodable", "deep")
            return o
        raise ValueError(f"cannot enumerate {t}")


def _dedupe(xs):
    out = []
    for x in xs:
        if not any(_eqv(x, y) for y in out):
            out.append(x)
    return out


def _eqv(a, b):
    if isinstance(a, Obj) or isinstance(b, Obj):
        return a is b
    try:
        return a == b
    except Exception:  # noqa: BLE001
        return False
