"""Registry of sidecar contracts (loaded from /verif/contracts/*.py).

The contract modules call the functions below at import time.  Expressions are Python source
strings; they are parsed by the same translator as repository code (spec mode).
"""
from __future__ import annotations

from dataclasses import dataclass, field


@dataclass
class Contract:
    target: str                      # "module:Qual.name"
    sig: dict = field(default_factory=dict)       # param -> type string (overrides annotations)
    returns: str | None = None
    requires: list = field(default_factory=list)
    ensures: list = field(default_factory=list)
    raises: dict = field(default_factory=dict)    # exception name -> condition over the pre-state ("True" = may always)
    ensures_on_raise: list = field(default_factory=list)   # clauses that must hold at every exceptional exit too
    modifies: list = field(default_factory=list)  # lvalue strings; [] = pure w.r.t. tracked state
    mode: str = "verify"             # verify | assume (trusted/external) | inline
    prop: str = ""                   # property id that owns the obligation
    ghost: dict = field(default_factory=dict)     # extra ghost parameters name -> type
    note: str = ""
    fresh_result: bool = False       # result is a newly allocated object
    may_alias: bool = False
    also_props: tuple = ()           # other properties that cite this contract
    is_property: bool = False
    terminates: str | None = None    # decreases expression for recursive functions
    replay: object = None            # callable(model_inputs) -> dict describing native outcome
    ghost_updates: dict = field(default_factory=dict)   # ghost lvalue -> expr, executed as ghost code at normal exit
    native_ensures: list = field(default_factory=list)  # extra clauses evaluated only in the native replay
    type_map: dict = field(default_factory=dict)        # annotation text -> type string, for local annotations
    fp: bool = False                                    # floats are IEEE-754 doubles (z3 FP theory) instead of extended reals
    opaque_raise: bool = False      # operations on values of unknown type (SUT values) may raise any exception
    at_yield: list = field(default_factory=list)        # context-manager generators: clauses that hold while the body runs
    closure: dict = field(default_factory=dict)         # nested functions: free variables of the enclosing def -> type
    globals_in: dict = field(default_factory=dict)      # 'module.name' -> type: module globals the function reads (inputs)
    locals: dict = field(default_factory=dict)          # local variable -> type string (unannotated locals such as `m = {}`)
    oneshot: list = field(default_factory=list)         # iterable parameters that may be one-shot iterators: every path uses them in one single traversal


@dataclass
class LoopSpec:
    target: str
    ordinal: int
    invariant: list = field(default_factory=list)
    decreases: str | None = None
    modifies: list | None = None     # override of the syntactically computed write set (heap lvalues)
    unroll: int | None = None
    exit_asserts: list = field(default_factory=list)   # proved at the normal loop exit, then available after the loop (cuts)
    derived: list = field(default_factory=list)        # proved from the invariants at an arbitrary loop head, then available (cuts)


@dataclass
class ClassSpec:
    target: str                      # "module:Class"
    fields: dict = field(default_factory=dict)   # name -> type string (overrides/extends annotations)
    ghost: dict = field(default_factory=dict)    # ghost fields name -> type string
    bases: list | None = None
    invariant: list = field(default_factory=list)  # over `self`
    value_like: str | None = None    # treat instances as a builtin value type (e.g. OrderedSet -> set)
    record: bool = False             # immutable value object: modelled as a named tuple of its fields


@dataclass
class Predicate:
    name: str
    params: list
    body: str


@dataclass
class Lemma:
    ident: str
    prop: str
    forall: dict
    assume: list
    prove: list
    note: str = ""
    nonlinear: bool = False


@dataclass
class UFun:
    name: str
    args: list
    ret: str


class Registry:
    def __init__(self):
        self.contracts: dict[str, Contract] = {}
        self.loops: dict[tuple, LoopSpec] = {}
        self.classes: dict[str, ClassSpec] = {}      # by class simple name
        self.predicates: dict[str, Predicate] = {}
        self.lemmas: dict[str, Lemma] = {}
        self.ufuns: dict[str, UFun] = {}
        self.aliases: dict[str, str] = {}
        self.exceptions: dict[str, str] = {}         # repo exception class -> base name
        self.assumptions: list[str] = []

    def by_class_method(self, cls, meth):
        for k, c in self.contracts.items():
            q = k.split(":", 1)[1]
            if q == f"{cls}.{meth}":
                return c
        return None


REG = Registry()
_current_prop = [""]


def for_property(pid):
    _current_prop[0] = pid


def contract(target, **kw):
    kw.setdefault("prop", _current_prop[0])
    c = Contract(target=target, **kw)
    REG.contracts[target] = c
    return c


def loop(target, ordinal, **kw):
    REG.loops[(target, ordinal)] = LoopSpec(target=target, ordinal=ordinal, **kw)


def klass(target, **kw):
    c = ClassSpec(target=target, **kw)
    REG.classes[target.split(":")[1]] = c
    return c


def predicate(sig, body):
    name, rest = sig.split("(", 1)
    params = [p.strip() for p in rest.rstrip(")").split(",") if p.strip()]
    REG.predicates[name.strip()] = Predicate(name.strip(), params, body)


def lemma(ident, forall, prove, assume=(), prop=None, note="", nonlinear=False):
    REG.lemmas[ident] = Lemma(ident, prop or _current_prop[0], dict(forall), list(assume),
                              [prove] if isinstance(prove, str) else list(prove), note, nonlinear)


def ufun(name, args, ret):
    REG.ufuns[name] = UFun(name, list(args), ret)


def type_alias(name, tstr):
    REG.aliases[name] = tstr


def exception(name, base="Exception"):
    REG.exceptions[name] = base


def value_type(name):
    """An abstract value type (e.g. a dict key made of ints/strings): == on it is identity of the abstract value."""
    if not hasattr(REG, "value_types"):
        REG.value_types = set()
    REG.value_types.add(name)


def global_var(key, tstr):
    """Declare the type of a module-level global (key = 'module.name')."""
    if not hasattr(REG, "global_types"):
        REG.global_types = {}
    REG.global_types[key] = tstr


def auto_inline(*targets):
    if not hasattr(REG, "auto_inline"):
        REG.auto_inline = set()
    REG.auto_inline.update(targets)


def assumption(text):
    if text not in REG.assumptions:
        REG.assumptions.append(text)
